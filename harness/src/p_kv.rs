//! probe `kv`: the real FileStateMachine and RocksDBStateMachine (tempdir) driven through
//! StateMachine::apply_chunk on the same command sequence under several chunkings, observed through
//! the ApplyResult list, get, get_multi and scan_prefix.
//! Input: [cmds, [[chunk sizes] per chunking], keys, prefixes, fresh]
//!   cmd = [0,key,value] put | [1,key] delete | [2,key,[] | [expected],new] CAS | [3] noop; bytes = arrays of ints
//!   fresh = 1: a new state machine in a new directory per run; 0: one instance per process, `reset()` between runs
//!           (the probe checks that the instance is empty after the reset)
//! Output: per chunking [file_obs, rocks_obs], obs = [[flag..], [get per key], get_multi(keys), [scan per prefix]]
//!   option = [] | [bytes]; scan = [[key,value]..] sorted by key (HashMap iteration order is arbitrary).
use bytes::Bytes;
use d_engine_core::{ApplyEntry, Command, StateMachine};
use d_engine_server::{FileStateMachine, RocksDBStateMachine};
use serde_json::{json, Value};
use std::sync::Mutex;
use std::path::PathBuf;

pub fn tmp_base() -> PathBuf {
    let base = std::env::var("DPROBE_TMP").map(PathBuf::from).unwrap_or_else(|_| {
        let exe = std::env::current_exe().unwrap();
        // <build>/target/debug/dprobe -> <build>/tmp
        exe.parent().and_then(|p| p.parent()).and_then(|p| p.parent()).map(|p| p.join("tmp")).unwrap_or_else(|| PathBuf::from("/var/tmp/dprobe"))
    });
    std::fs::create_dir_all(&base).unwrap();
    base
}

pub fn bytes_of(v: &Value) -> Bytes {
    Bytes::from(v.as_array().map(|a| a.iter().map(|x| x.as_u64().unwrap_or(0) as u8).collect::<Vec<u8>>()).unwrap_or_default())
}
pub fn bytes_json(b: &[u8]) -> Value {
    Value::Array(b.iter().map(|x| json!(*x as u64)).collect())
}
pub fn obytes_json(o: &Option<Bytes>) -> Value {
    match o {
        None => json!([]),
        Some(b) => json!([bytes_json(b)]),
    }
}
pub fn obytes_of(v: &Value) -> Option<Bytes> {
    v.as_array().and_then(|a| a.first()).map(bytes_of)
}

pub fn cmd_of(v: &Value) -> Command {
    match v[0].as_u64().unwrap_or(3) {
        0 => Command::Insert { key: bytes_of(&v[1]), value: bytes_of(&v[2]), ttl_secs: None },
        1 => Command::Delete { key: bytes_of(&v[1]) },
        2 => Command::CompareAndSwap { key: bytes_of(&v[1]), expected: obytes_of(&v[2]), value: bytes_of(&v[3]) },
        _ => Command::Noop,
    }
}

struct Engines {
    // the state machines are dropped before their directories
    file: FileStateMachine,
    rocks: RocksDBStateMachine,
    _fdir: tempfile::TempDir,
    _rdir: tempfile::TempDir,
}

fn new_engines(rt: &tokio::runtime::Runtime) -> Engines {
    let base = tmp_base();
    let fdir = tempfile::Builder::new().prefix("kvf").tempdir_in(&base).unwrap();
    let rdir = tempfile::Builder::new().prefix("kvr").tempdir_in(&base).unwrap();
    let file = rt.block_on(FileStateMachine::new(fdir.path().to_path_buf())).unwrap();
    let rocks = RocksDBStateMachine::new(rdir.path().join("sm")).unwrap();
    Engines { _fdir: fdir, _rdir: rdir, file, rocks }
}

// a static is never dropped at process exit (a thread-local destructor would run the state machines' Drop, which logs
// through tracing, after tracing's own thread-locals are gone); main calls `shutdown` to remove the directories
static SHARED: Mutex<Option<Engines>> = Mutex::new(None);

pub fn shutdown() {
    let e = SHARED.lock().unwrap().take();
    drop(e);
}

fn observe<S: StateMachine>(rt: &tokio::runtime::Runtime, sm: &S, cmds: &[Command], sizes: &[u64], keys: &[Bytes], prefixes: &[Bytes]) -> Result<Value, String> {
    let mut flags = vec![];
    let mut pos = 0usize;
    let mut idx = 1u64;
    for sz in sizes {
        let end = (pos + *sz as usize).min(cmds.len());
        let chunk: Vec<ApplyEntry> = cmds[pos..end]
            .iter()
            .map(|c| {
                let e = ApplyEntry { index: idx, term: 1, command: c.clone() };
                idx += 1;
                e
            })
            .collect();
        pos = end;
        let res = rt.block_on(sm.apply_chunk(&chunk)).map_err(|e| format!("ERR apply_chunk {e}"))?;
        if res.len() != chunk.len() {
            return Err(format!("ERR apply_chunk returned {} results for {} entries", res.len(), chunk.len()));
        }
        for (r, e) in res.iter().zip(chunk.iter()) {
            if r.index != e.index {
                return Err(format!("ERR apply result index {} for entry {}", r.index, e.index));
            }
            flags.push(json!(if r.succeeded { 1 } else { 0 }));
        }
    }
    let mut gets = vec![];
    for k in keys {
        gets.push(obytes_json(&sm.get(k).map_err(|e| format!("ERR get {e}"))?));
    }
    let multi = sm.get_multi(keys).map_err(|e| format!("ERR get_multi {e}"))?;
    let multi: Vec<Value> = multi.iter().map(obytes_json).collect();
    let mut scans = vec![];
    for p in prefixes {
        let r = sm.scan_prefix(p).map_err(|e| format!("ERR scan_prefix {e}"))?;
        let mut es: Vec<(Vec<u8>, Vec<u8>)> = r.entries.iter().map(|(k, v)| (k.to_vec(), v.to_vec())).collect();
        es.sort();
        scans.push(Value::Array(es.iter().map(|(k, v)| json!([bytes_json(k), bytes_json(v)])).collect()));
    }
    Ok(json!([flags, gets, multi, scans]))
}

fn run_on(rt: &tokio::runtime::Runtime, e: &Engines, cmds: &[Command], sizes: &[u64], keys: &[Bytes], prefixes: &[Bytes]) -> Result<Value, String> {
    let f = observe(rt, &e.file, cmds, sizes, keys, prefixes)?;
    let r = observe(rt, &e.rocks, cmds, sizes, keys, prefixes)?;
    Ok(json!([f, r]))
}

pub fn run(rt: &tokio::runtime::Runtime, case: Value) -> Value {
    let cmds: Vec<Command> = case[0].as_array().map(|a| a.iter().map(cmd_of).collect()).unwrap_or_default();
    let keys: Vec<Bytes> = case[2].as_array().map(|a| a.iter().map(bytes_of).collect()).unwrap_or_default();
    let prefixes: Vec<Bytes> = case[3].as_array().map(|a| a.iter().map(bytes_of).collect()).unwrap_or_default();
    let fresh = case[4].as_u64().unwrap_or(0) == 1;
    let mut outs = vec![];
    for sizes in case[1].as_array().cloned().unwrap_or_default() {
        let sizes = crate::ints(&sizes);
        let r = if fresh {
            let e = new_engines(rt);
            run_on(rt, &e, &cmds, &sizes, &keys, &prefixes)
        } else {
            {
                let mut s = SHARED.lock().unwrap();
                if s.is_none() {
                    *s = Some(new_engines(rt));
                }
                let e = s.as_ref().unwrap();
                let r = run_on(rt, e, &cmds, &sizes, &keys, &prefixes);
                // back to the empty state for the next run
                let ok = rt.block_on(async { StateMachine::reset(&e.file).await.is_ok() && StateMachine::reset(&e.rocks).await.is_ok() });
                if !ok || e.file.len() != 0 || e.rocks.len() != 0 {
                    *s = None; // do not reuse an instance that did not come back empty
                    r.and_then(|_| Err("ERR reset did not return the state machines to the empty state".to_string()))
                } else {
                    r
                }
            }
        };
        match r {
            Ok(v) => outs.push(v),
            Err(e) => return Value::String(e),
        }
    }
    Value::Array(outs)
}
