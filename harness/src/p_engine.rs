//! A real single-node d-engine (EmbeddedEngine::start_custom: real Node, Raft loop, LeaderState, ReplicationHandler,
//! BufferedRaftLog over FileStorageEngine, DefaultCommitHandler, DefaultStateMachineHandler, gRPC server) with a
//! recording state machine, plus the real EmbeddedClient and the real gRPC GrpcClient connected to it.
//! One engine per dprobe process (started on first use).
//!
//! probe `codec`  (C37): input = [op..], op = [0,key,value] put | [1,key,value,ttl] put_with_ttl | [2,key] delete
//!                                          | [3,key,[] | [expected],new] compare_and_swap
//!   output = [direct, embedded, grpc]
//!     direct   = per op [index, term, cmd]: WriteCommand constructor -> client_command_to_entry_payloads (prost encode)
//!                -> Entry -> decode_entries (prost decode + TryFrom<WriteCommand>)
//!     embedded = per op the Command the state machine received in apply_chunk after the op was submitted through
//!                EmbeddedClient (WriteOperation -> LeaderState write_op_to_proto -> client_command_to_entry_payloads -> log
//!                -> decode_entries -> ApplyEntry)
//!     grpc     = same through GrpcClient (WriteCommand on the wire -> proto_convert::to_core_write_req/write_command_to_op
//!                -> the leader path above)
//!   cmd = [0,key,value,[] | [ttl]] insert | [1,key] delete | [2,key,[] | [expected],value] CAS | [3] noop
//!   (a client call that fails or whose entry never reaches the state machine yields [9])
//!
//! probe `multiget` (C35): input = [[[key,value]..] contents, [key..] requested keys]
//!   output = [embedded_eventual, embedded_lease, embedded_linearizable, embedded_get_multi,
//!             grpc_linearizable, grpc_lease, grpc_eventual, grpc_default]
//!   each = [1, [item..]] or [0, []] when the call returned an error;
//!   embedded item = [] | [value]; grpc item = [] | [key, value]
use crate::p_kv::{bytes_json, bytes_of, obytes_json, obytes_of, tmp_base};
use async_trait::async_trait;
use bytes::Bytes;
use d_engine_core::client::ClientApi;
use d_engine_core::config::ReadConsistencyPolicy;
use d_engine_core::{ApplyEntry, ApplyResult, Command, Error, StateMachine};
use d_engine_proto::client::WriteCommand;
use d_engine_proto::common::entry_payload::Payload;
use d_engine_proto::common::{Entry, LogId};
use d_engine_proto::server::storage::SnapshotMetadata;
use d_engine_server::{EmbeddedEngine, FileStorageEngine};
use serde_json::{json, Value};
use std::collections::BTreeMap;
use std::sync::atomic::{AtomicBool, AtomicU64, Ordering};
use std::sync::{Arc, Mutex};
use std::time::Duration;

#[derive(Debug, Default)]
pub struct RecSM {
    running: AtomicBool,
    data: Mutex<BTreeMap<Vec<u8>, Bytes>>,
    log: Mutex<Vec<ApplyEntry>>,
    idx: AtomicU64,
    term: AtomicU64,
}

impl RecSM {
    fn mark(&self) -> usize {
        self.log.lock().unwrap().len()
    }
    fn since(&self, mark: usize) -> Vec<ApplyEntry> {
        self.log.lock().unwrap()[mark..].to_vec()
    }
    fn set_contents(&self, kvs: Vec<(Bytes, Bytes)>) {
        let mut d = self.data.lock().unwrap();
        d.clear();
        for (k, v) in kvs {
            d.insert(k.to_vec(), v);
        }
    }
}

#[async_trait]
impl StateMachine for RecSM {
    async fn start(&self) -> Result<(), Error> {
        self.running.store(true, Ordering::SeqCst);
        Ok(())
    }
    fn stop(&self) -> Result<(), Error> {
        self.running.store(false, Ordering::SeqCst);
        Ok(())
    }
    fn is_running(&self) -> bool {
        self.running.load(Ordering::SeqCst)
    }
    fn get(&self, key_buffer: &[u8]) -> Result<Option<Bytes>, Error> {
        Ok(self.data.lock().unwrap().get(key_buffer).cloned())
    }
    fn entry_term(&self, _entry_id: u64) -> Option<u64> {
        None
    }
    async fn apply_chunk(&self, chunk: &[ApplyEntry]) -> Result<Vec<ApplyResult>, Error> {
        let mut res = Vec::with_capacity(chunk.len());
        let mut d = self.data.lock().unwrap();
        let mut log = self.log.lock().unwrap();
        for e in chunk {
            log.push(e.clone());
            let ok = match &e.command {
                Command::Noop => true,
                Command::Insert { key, value, .. } => {
                    d.insert(key.to_vec(), value.clone());
                    true
                }
                Command::Delete { key } => {
                    d.remove(key.as_ref());
                    true
                }
                Command::CompareAndSwap { key, expected, value } => {
                    let cur = d.get(key.as_ref()).cloned();
                    if cur == *expected {
                        d.insert(key.to_vec(), value.clone());
                        true
                    } else {
                        false
                    }
                }
            };
            res.push(if ok { ApplyResult::success(e.index) } else { ApplyResult::failure(e.index) });
            self.idx.store(e.index, Ordering::SeqCst);
            self.term.store(e.term, Ordering::SeqCst);
        }
        Ok(res)
    }
    fn len(&self) -> usize {
        self.data.lock().unwrap().len()
    }
    fn update_last_applied(&self, last_applied: LogId) {
        self.idx.store(last_applied.index, Ordering::SeqCst);
        self.term.store(last_applied.term, Ordering::SeqCst);
    }
    fn last_applied(&self) -> LogId {
        LogId { index: self.idx.load(Ordering::SeqCst), term: self.term.load(Ordering::SeqCst) }
    }
    fn persist_last_applied(&self, _last_applied: LogId) -> Result<(), Error> {
        Ok(())
    }
    fn update_last_snapshot_metadata(&self, _snapshot_metadata: &SnapshotMetadata) -> Result<(), Error> {
        Ok(())
    }
    fn snapshot_metadata(&self) -> Option<SnapshotMetadata> {
        None
    }
    fn persist_last_snapshot_metadata(&self, _snapshot_metadata: &SnapshotMetadata) -> Result<(), Error> {
        Ok(())
    }
    async fn apply_snapshot_from_file(&self, _metadata: &SnapshotMetadata, _snapshot_path: std::path::PathBuf) -> Result<(), Error> {
        Ok(())
    }
    async fn generate_snapshot_data(&self, _new_snapshot_dir: std::path::PathBuf, _last_included: LogId) -> Result<Bytes, Error> {
        Ok(Bytes::new())
    }
    fn save_hard_state(&self) -> Result<(), Error> {
        Ok(())
    }
    fn flush(&self) -> Result<(), Error> {
        Ok(())
    }
    async fn flush_async(&self) -> Result<(), Error> {
        Ok(())
    }
    async fn reset(&self) -> Result<(), Error> {
        self.data.lock().unwrap().clear();
        Ok(())
    }
}

struct Eng {
    engine: EmbeddedEngine<FileStorageEngine, RecSM>,
    sm: Arc<RecSM>,
    grpc: d_engine_client::Client,
    _dir: tempfile::TempDir,
}

static ENG: Mutex<Option<Arc<Eng>>> = Mutex::new(None);

// The real code announces role transitions with println! (follower_state.rs, candidate_state.rs, ...). dprobe's
// stdout carries one JSON line per case, so fd 1 points to stderr while the engine starts and while it stops.
unsafe extern "C" {
    fn dup(fd: i32) -> i32;
    fn dup2(from: i32, to: i32) -> i32;
    fn close(fd: i32) -> i32;
}
fn stdout_to_stderr() -> i32 {
    use std::io::Write;
    let _ = std::io::stdout().flush();
    unsafe {
        let saved = dup(1);
        dup2(2, 1);
        saved
    }
}
fn restore_stdout(saved: i32) {
    use std::io::Write;
    let _ = std::io::stdout().flush();
    unsafe {
        dup2(saved, 1);
        close(saved);
    }
}

/// stop the engine and remove its directory (called by main before exit; a static is not dropped at exit)
pub fn shutdown(rt: &tokio::runtime::Runtime) {
    let e = ENG.lock().unwrap().take();
    if let Some(e) = e {
        let _ = stdout_to_stderr();
        rt.block_on(async {
            let _ = tokio::time::timeout(Duration::from_secs(5), e.engine.stop()).await;
        });
        drop(e);
    }
}

async fn start_engine() -> Result<Eng, String> {
    let dir = tempfile::Builder::new().prefix("eng").tempdir_in(tmp_base()).map_err(|e| e.to_string())?;
    // a port no concurrently running dprobe can pick: derived from the pid (checked to be free), else OS-assigned
    let port = {
        let mut chosen = None;
        for k in 0..4u32 {
            let p = 20000 + ((std::process::id().wrapping_add(k * 7919)) % 20000) as u16;
            if std::net::TcpListener::bind(("127.0.0.1", p)).is_ok() {
                chosen = Some(p);
                break;
            }
        }
        match chosen {
            Some(p) => p,
            None => {
                let l = std::net::TcpListener::bind("127.0.0.1:0").map_err(|e| e.to_string())?;
                l.local_addr().map_err(|e| e.to_string())?.port()
            }
        }
    };
    let db = dir.path().join("db");
    let logs = dir.path().join("logs");
    std::fs::create_dir_all(&db).unwrap();
    std::fs::create_dir_all(&logs).unwrap();
    let cfg = format!(
        "[cluster]\nnode_id = 1\nlisten_address = '127.0.0.1:{port}'\ninitial_cluster = [\n  {{ id = 1, name = 'n1', address = '127.0.0.1:{port}', role = 1, status = 3 }}\n]\ndb_root_dir = '{}'\nlog_dir = '{}'\n\n[raft.snapshot]\nenable = false\n",
        db.display(),
        logs.display()
    );
    let cfg_path = dir.path().join("node.toml");
    std::fs::write(&cfg_path, cfg).map_err(|e| e.to_string())?;
    let storage = Arc::new(FileStorageEngine::new(dir.path().join("storage")).map_err(|e| format!("storage: {e}"))?);
    let sm = Arc::new(RecSM::default());
    sm.running.store(true, Ordering::SeqCst);
    let engine = EmbeddedEngine::start_custom(storage, sm.clone(), Some(cfg_path.to_str().unwrap())).await.map_err(|e| format!("start_custom: {e}"))?;
    engine.wait_ready(Duration::from_secs(30)).await.map_err(|e| format!("wait_ready: {e}"))?;
    let mut last = String::new();
    for _ in 0..100 {
        match d_engine_client::ClientBuilder::new(vec![format!("http://127.0.0.1:{port}")])
            .connect_timeout(Duration::from_secs(10))
            .request_timeout(Duration::from_secs(30))
            .build()
            .await
        {
            Ok(grpc) => return Ok(Eng { engine, sm, grpc, _dir: dir }),
            Err(e) => {
                last = format!("{e:?}");
                tokio::time::sleep(Duration::from_millis(100)).await;
            }
        }
    }
    Err(format!("grpc client: {last}"))
}

fn with_engine(rt: &tokio::runtime::Runtime) -> Result<Arc<Eng>, String> {
    let mut e = ENG.lock().unwrap();
    if e.is_none() {
        let saved = stdout_to_stderr();
        let r = rt.block_on(start_engine());
        restore_stdout(saved);
        *e = Some(Arc::new(r?));
    }
    Ok(e.as_ref().unwrap().clone())
}

pub fn cmd_json(c: &Command) -> Value {
    match c {
        Command::Noop => json!([3]),
        Command::Insert { key, value, ttl_secs } => json!([0, bytes_json(key), bytes_json(value), match ttl_secs { None => json!([]), Some(t) => json!([t]) }]),
        Command::Delete { key } => json!([1, bytes_json(key)]),
        Command::CompareAndSwap { key, expected, value } => json!([2, bytes_json(key), obytes_json(expected), bytes_json(value)]),
    }
}

enum Op {
    Put(Bytes, Bytes),
    PutTtl(Bytes, Bytes, u64),
    Del(Bytes),
    Cas(Bytes, Option<Bytes>, Bytes),
}

fn op_of(v: &Value) -> Op {
    match v[0].as_u64().unwrap_or(0) {
        0 => Op::Put(bytes_of(&v[1]), bytes_of(&v[2])),
        1 => Op::PutTtl(bytes_of(&v[1]), bytes_of(&v[2]), v[3].as_u64().unwrap_or(0)),
        2 => Op::Del(bytes_of(&v[1])),
        _ => Op::Cas(bytes_of(&v[1]), obytes_of(&v[2]), bytes_of(&v[3])),
    }
}

fn wire_cmd(op: &Op) -> WriteCommand {
    match op {
        Op::Put(k, v) => WriteCommand::insert(k.clone(), v.clone()),
        Op::PutTtl(k, v, t) => WriteCommand::insert_with_ttl(k.clone(), v.clone(), *t),
        Op::Del(k) => WriteCommand::delete(k.clone()),
        Op::Cas(k, e, v) => WriteCommand::compare_and_swap(k.clone(), e.clone(), v.clone()),
    }
}

async fn submit<C: ClientApi>(c: &C, op: &Op) -> bool {
    match op {
        Op::Put(k, v) => c.put(k, v).await.is_ok(),
        Op::PutTtl(k, v, t) => c.put_with_ttl(k, v, *t).await.is_ok(),
        Op::Del(k) => c.delete(k).await.is_ok(),
        Op::Cas(k, e, v) => c.compare_and_swap(k, e.as_ref(), v).await.is_ok(),
    }
}

async fn through<C: ClientApi>(sm: &RecSM, c: &C, ops: &[Op]) -> Vec<Value> {
    let mut out = vec![];
    for op in ops {
        let mark = sm.mark();
        let ok = submit(c, op).await;
        // the client may be answered (at commit) before the state machine worker has applied the entry: wait for it
        let mut seen: Vec<ApplyEntry> = vec![];
        for _ in 0..5000 {
            seen = sm.since(mark).into_iter().filter(|e| e.command != Command::Noop).collect();
            if !ok || !seen.is_empty() {
                break;
            }
            tokio::time::sleep(Duration::from_millis(1)).await;
        }
        if ok && seen.len() == 1 {
            out.push(cmd_json(&seen[0].command));
        } else {
            out.push(json!([9]));
        }
    }
    out
}

pub fn codec(rt: &tokio::runtime::Runtime, case: Value) -> Value {
    let ops: Vec<Op> = case.as_array().map(|a| a.iter().map(op_of).collect()).unwrap_or_default();
    // direct: constructors -> payload bytes -> decode_entries
    let payloads = d_engine_core::client_command_to_entry_payloads(ops.iter().map(wire_cmd).collect());
    let mut all_cmd = true;
    let entries: Vec<Entry> = payloads
        .into_iter()
        .enumerate()
        .map(|(i, p)| {
            if !matches!(p.payload, Some(Payload::Command(_))) {
                all_cmd = false;
            }
            Entry { index: 100 + i as u64, term: 7 + (i as u64 % 2), payload: Some(p) }
        })
        .collect();
    let direct: Value = match d_engine_core::decode_entries(entries) {
        Ok(aes) if all_cmd => Value::Array(aes.iter().map(|a| json!([a.index, a.term, cmd_json(&a.command)])).collect()),
        _ => json!([[9]]),
    };
    let eng = match with_engine(rt) {
        Ok(e) => e,
        Err(e) => return Value::String(format!("ERR engine {e}")),
    };
    let (emb, grpc) = rt.block_on(async {
        let ec = eng.engine.client();
        let emb = through(&eng.sm, ec.as_ref(), &ops).await;
        let grpc = through(&eng.sm, &*eng.grpc, &ops).await;
        (emb, grpc)
    });
    json!([direct, emb, grpc])
}

fn emb_res(r: Result<Vec<Option<Bytes>>, d_engine_core::client::ClientApiError>) -> Value {
    match r {
        Ok(v) => json!([1, v.iter().map(obytes_json).collect::<Vec<_>>()]),
        Err(_) => json!([0, []]),
    }
}
fn grpc_res(r: Result<Vec<Option<d_engine_core::client::KvEntry>>, d_engine_core::client::ClientApiError>) -> Value {
    match r {
        Ok(v) => json!([1, v.iter().map(|o| match o { None => json!([]), Some(e) => json!([bytes_json(&e.key), bytes_json(&e.value)]) }).collect::<Vec<_>>()]),
        Err(_) => json!([0, []]),
    }
}

pub fn multiget(rt: &tokio::runtime::Runtime, case: Value) -> Value {
    let contents: Vec<(Bytes, Bytes)> = case[0].as_array().map(|a| a.iter().map(|kv| (bytes_of(&kv[0]), bytes_of(&kv[1]))).collect()).unwrap_or_default();
    let keys: Vec<Bytes> = case[1].as_array().map(|a| a.iter().map(bytes_of).collect()).unwrap_or_default();
    let eng = match with_engine(rt) {
        Ok(e) => e,
        Err(e) => return Value::String(format!("ERR engine {e}")),
    };
    eng.sm.set_contents(contents);
    rt.block_on(async {
        let ec = eng.engine.client();
        let g = &*eng.grpc;
        let mut out = vec![];
        out.push(emb_res(ec.get_multi_with_consistency(&keys, ReadConsistencyPolicy::EventualConsistency).await));
        out.push(emb_res(ec.get_multi_with_consistency(&keys, ReadConsistencyPolicy::LeaseRead).await));
        out.push(emb_res(ec.get_multi_with_consistency(&keys, ReadConsistencyPolicy::LinearizableRead).await));
        out.push(emb_res(ClientApi::get_multi(ec.as_ref(), &keys).await));
        out.push(grpc_res(g.get_multi_with_policy(keys.iter().cloned(), Some(ReadConsistencyPolicy::LinearizableRead)).await));
        out.push(grpc_res(g.get_multi_with_policy(keys.iter().cloned(), Some(ReadConsistencyPolicy::LeaseRead)).await));
        out.push(grpc_res(g.get_multi_with_policy(keys.iter().cloned(), Some(ReadConsistencyPolicy::EventualConsistency)).await));
        out.push(grpc_res(g.get_multi_with_policy(keys.iter().cloned(), None).await));
        Value::Array(out)
    })
}
