//! probe `config`: RaftConfig::validate on a configuration given as (field path -> value) overrides
//! of the shipped defaults. Input: {"set": [["a.b.c", <u64>], ...], "empty_probe_name": bool,
//! "bad_dir": bool}. Output: 1 if validate() is Ok, 0 if Err, "UNREPRESENTABLE" if serde refuses.
use d_engine_core::RaftConfig;
use serde_json::{json, Value};

pub fn run(case: Value) -> Value {
    let mut v = serde_json::to_value(RaftConfig::default()).expect("serialize default config");
    let dir = tempfile::tempdir().unwrap();
    *v.pointer_mut("/snapshot/snapshots_dir").expect("snapshots_dir") = json!(dir.path().to_string_lossy());
    if let Some(sets) = case.get("set").and_then(|s| s.as_array()) {
        for kv in sets {
            let path = kv[0].as_str().unwrap();
            let ptr = format!("/{}", path.replace('.', "/"));
            match path {
                "membership.cluster_healthcheck_probe_service_name.is_empty" => {
                    let e = kv[1].as_u64().unwrap() != 0;
                    *v.pointer_mut("/membership/cluster_healthcheck_probe_service_name").unwrap() = json!(if e { "" } else { "svc" });
                }
                "snapshot.snapshots_dir.valid_dir" => {
                    if kv[1].as_u64().unwrap() == 0 {
                        *v.pointer_mut("/snapshot/snapshots_dir").unwrap() = json!("");
                    }
                }
                "persistence.flush_policy.idle_flush_interval_ms" => {
                    *v.pointer_mut("/persistence/flush_policy").unwrap() = json!({"Batch": {"idle_flush_interval_ms": kv[1].clone()}});
                }
                _ => match v.pointer_mut(&ptr) {
                    Some(slot) => *slot = kv[1].clone(),
                    None => return Value::String(format!("NOFIELD {path}")),
                },
            }
        }
    }
    let cfg: RaftConfig = match serde_json::from_value(v) {
        Ok(c) => c,
        Err(e) => return Value::String(format!("UNREPRESENTABLE {e}")),
    };
    json!(if cfg.validate().is_ok() { 1 } else { 0 })
}
