//! probe `cluster`: N real `Raft` objects (real role states, ElectionHandler, ReplicationHandler,
//! BufferedRaftLog over an in-memory engine) connected by a simulated transport whose messages are
//! delivered, dropped or duplicated by a schedule. One case = [n_nodes, cap, schedule], one output
//! line = the observable cluster state after every label.
//!
//! Labels (all ints):
//!   [0, n, [targets...]]   election timeout at n: follower -> candidate -> one vote round in which the vote
//!                          request reaches exactly `targets` (others: no answer)
//!   [1, from, to, keep]    deliver the oldest pending AppendEntries on the stream from->to (keep=1: leave it queued = duplicate later)
//!   [2, from, to]          drop the oldest pending AppendEntries from->to
//!   [3, from, to, keep]    deliver the oldest pending response (of `to`) back to the leader `from`
//!   [4, from, to]          drop the oldest pending response
//!   [5, n, payload]        client write at n (answered only if rejected; accepted writes stay pending)
//!   [6, n]                 heartbeat/replication tick at n (leader), or election-timer tick otherwise (no forced expiry)
//!   [7, n, graceful]       stop node n (graceful=1: drop, which persists the hard state; 0: kill, nothing persisted) and restart it from its storage
//!   [8, n]                 same-term step-down of n (the internal event a leader sends itself on noop timeout / self removal)
//!   [9, n, durable]        let n process its pending internal events (LogFlushed, AppendResult, ...)
//!   [14, n]                flush n's log WITHOUT letting n process anything: the LogFlushed event of the IO thread stays
//!                          queued in front of whatever the next label makes n queue (the IO thread is asynchronous to the Raft loop)
//! Output per label: [[role, term, commit, [vote_id, vote_term] | [], [[idx, term, pl]...], [leader, term] | []] per node, event_result]
use crate::sim::*;
use async_trait::async_trait;
use d_engine_core::*;
use d_engine_proto::common::{LogId, NodeStatus};
use d_engine_proto::server::cluster::NodeMeta;
use d_engine_proto::server::election::{VoteRequest, VoteResponse};
use d_engine_proto::server::replication::{AppendEntriesRequest, AppendEntriesResponse};
use serde_json::{json, Value};
use std::collections::{HashMap, HashSet, VecDeque};
use std::sync::{Arc, Mutex};
use tokio::sync::mpsc;

type AeResp = std::result::Result<AppendEntriesResponse, tonic::Status>;

#[derive(Default)]
pub struct Net {
    /// canned result of the next vote round per candidate
    votes: HashMap<u32, VoteResult>,
    /// (leader, peer) -> the open replication stream's far ends
    links: HashMap<(u32, u32), (mpsc::Receiver<AppendEntriesRequest>, mpsc::Sender<AeResp>)>,
    /// requests taken off the stream but not yet consumed (so they can be duplicated / dropped)
    pending_req: HashMap<(u32, u32), VecDeque<AppendEntriesRequest>>,
    pending_resp: HashMap<(u32, u32), VecDeque<AppendEntriesResponse>>,
}

pub struct SimTransport {
    me: u32,
    net: Arc<Mutex<Net>>,
}
impl std::fmt::Debug for SimTransport {
    fn fmt(&self, f: &mut std::fmt::Formatter<'_>) -> std::fmt::Result {
        write!(f, "SimTransport({})", self.me)
    }
}

#[derive(Debug)]
pub struct ClusterTC;
impl TypeConfig for ClusterTC {
    type SE = SimEngine;
    type SM = MockStateMachine;
    type R = BufferedRaftLog<Self>;
    type M = MockMembership<Self>;
    type TR = SimTransport;
    type E = ElectionHandler<Self>;
    type REP = ReplicationHandler<Self>;
    type C = MockCommitHandler;
    type SMH = MockStateMachineHandler<Self>;
    type SNP = MockSnapshotPolicy;
    type PE = MockPurgeExecutor;
}

fn net_err<T>(what: &str) -> Result<T> {
    Err(NetworkError::SingalSendFailed(format!("sim transport: {what}")).into())
}

#[async_trait]
impl Transport<ClusterTC> for SimTransport {
    async fn send_cluster_update(&self, _req: d_engine_proto::server::cluster::ClusterConfChangeRequest, _retry: &RetryPolicies, _m: Arc<MockMembership<ClusterTC>>) -> Result<ClusterUpdateResult> {
        net_err("send_cluster_update")
    }
    async fn send_append_requests(&self, _r: Vec<(u32, AppendEntriesRequest)>, _retry: &RetryPolicies, _m: Arc<MockMembership<ClusterTC>>, _c: bool) -> Result<AppendResult> {
        net_err("send_append_requests")
    }
    async fn send_vote_requests(&self, _req: VoteRequest, _retry: &RetryPolicies, _m: Arc<MockMembership<ClusterTC>>) -> Result<VoteResult> {
        match self.net.lock().unwrap().votes.remove(&self.me) {
            Some(v) => Ok(v),
            None => net_err("no vote round prepared"),
        }
    }
    async fn join_cluster(&self, _l: u32, _r: d_engine_proto::server::cluster::JoinRequest, _retry: BackoffPolicy, _m: Arc<MockMembership<ClusterTC>>) -> Result<d_engine_proto::server::cluster::JoinResponse> {
        net_err("join_cluster")
    }
    async fn discover_leader(&self, _r: d_engine_proto::server::cluster::LeaderDiscoveryRequest, _c: bool, _m: Arc<MockMembership<ClusterTC>>) -> Result<Vec<d_engine_proto::server::cluster::LeaderDiscoveryResponse>> {
        net_err("discover_leader")
    }
    async fn send_append_request(&self, _p: u32, _r: AppendEntriesRequest, _retry: &RetryPolicies, _m: Arc<MockMembership<ClusterTC>>, _c: bool) -> Result<AppendEntriesResponse> {
        net_err("send_append_request")
    }
    async fn send_snapshot(&self, _p: u32, _md: d_engine_proto::server::storage::SnapshotMetadata, _h: Arc<MockStateMachineHandler<ClusterTC>>, _m: Arc<MockMembership<ClusterTC>>, _c: SnapshotConfig) -> Result<()> {
        net_err("send_snapshot")
    }
    async fn request_snapshot_from_leader(&self, _l: u32, _a: mpsc::Receiver<d_engine_proto::server::storage::SnapshotAck>, _retry: &InstallSnapshotBackoffPolicy, _m: Arc<MockMembership<ClusterTC>>) -> Result<mpsc::Receiver<d_engine_proto::server::storage::SnapshotChunk>> {
        net_err("request_snapshot_from_leader")
    }
    async fn open_replication_stream(&self, peer_id: u32, _m: Arc<MockMembership<ClusterTC>>, _compress: bool) -> Result<ReplicationStream> {
        let (req_tx, req_rx) = mpsc::channel::<AppendEntriesRequest>(128);
        let (resp_tx, resp_rx) = mpsc::channel::<AeResp>(128);
        {
            // a new stream replaces the old connection: whatever was still in flight on it is gone
            let mut g = self.net.lock().unwrap();
            g.links.insert((self.me, peer_id), (req_rx, resp_tx));
            g.pending_req.remove(&(self.me, peer_id));
            g.pending_resp.remove(&(self.me, peer_id));
        }
        use futures::StreamExt;
        Ok(ReplicationStream { sender: req_tx, receiver: tokio_stream::wrappers::ReceiverStream::new(resp_rx).boxed() })
    }
}

struct Node {
    id: u32,
    raft: Option<Raft<ClusterTC>>,
    log: Arc<BufferedRaftLog<ClusterTC>>,
    engine: Arc<SimEngine>,
    itx: mpsc::UnboundedSender<InternalEvent>,
    leader_rx: tokio::sync::watch::Receiver<Option<LeaderInfo>>,
    notifs: Vec<(u32, u64)>,
    _shutdown: tokio::sync::watch::Sender<()>,
}

fn membership_for(id: u32, n: u32) -> MockMembership<ClusterTC> {
    let peers: Vec<NodeMeta> = (1..=n).filter(|p| *p != id).map(|p| NodeMeta { id: p, address: format!("127.0.0.1:{}", 9000 + p), role: 1, status: NodeStatus::Active as i32 }).collect();
    let ids: Vec<u32> = peers.iter().map(|p| p.id).collect();
    let mut m = MockMembership::<ClusterTC>::new();
    let p1 = peers.clone();
    m.expect_voters().returning(move || p1.clone());
    let p2 = peers.clone();
    m.expect_replication_peers().returning(move || p2.clone());
    let p3 = peers.clone();
    m.expect_members().returning(move || p3.clone());
    m.expect_is_single_node_cluster().returning(move || n == 1);
    m.expect_initial_cluster_size().returning(move || n as usize);
    let i1 = ids.clone();
    m.expect_get_peers_id_with_condition().returning(move |_| i1.clone());
    m.expect_get_cluster_conf_version().returning(|| 1);
    m.expect_contains_node().returning(move |p| p >= 1 && p <= n);
    m.expect_retrieve_node_meta().returning(move |p| Some(NodeMeta { id: p, address: format!("127.0.0.1:{}", 9000 + p), role: 1, status: NodeStatus::Active as i32 }));
    m
}

fn mk_node(id: u32, n: u32, cap: u64, engine: Arc<SimEngine>, net: Arc<Mutex<Net>>) -> Node {
    let mut cfg = base_config();
    cfg.raft.election.election_timeout_min = 5;
    cfg.raft.election.election_timeout_max = 10;
    cfg.raft.replication.rpc_append_entries_clock_in_ms = 1;
    cfg.raft.replication.append_entries_max_entries_per_replication = cap;
    cfg.retry.append_entries.base_delay_ms = 1;
    cfg.retry.append_entries.max_delay_ms = 2;
    let cfg = Arc::new(cfg);
    let (etx, erx) = mpsc::channel(1024);
    let (ctx_, crx) = mpsc::channel(1024);
    let (itx, irx) = mpsc::unbounded_channel();
    let (stx, srx) = tokio::sync::watch::channel(());
    let (log0, rx) = BufferedRaftLog::<ClusterTC>::new(id, PersistenceConfig::default(), engine.clone());
    let log = log0.start(rx, Some(itx.clone()));
    // what NodeBuilder does at start-up: the role is Follower with the hard state read back from storage
    let hs = log.load_hard_state().ok().flatten();
    let role = RaftRole::Follower(Box::new(follower_state::FollowerState::<ClusterTC>::new(id, cfg.clone(), hs, None)));
    let mut sm = MockStateMachine::new();
    sm.expect_last_applied().returning(|| LogId { term: 0, index: 0 });
    sm.expect_snapshot_metadata().returning(|| None);
    let storage = RaftStorageHandles { raft_log: log.clone(), state_machine: Arc::new(sm) };
    let handlers = RaftCoreHandlers {
        election_handler: ElectionHandler::new(id),
        replication_handler: ReplicationHandler::new(id),
        state_machine_handler: Arc::new(MockStateMachineHandler::new()),
        purge_executor: Arc::new(MockPurgeExecutor::new()),
    };
    let sp = SignalParams::new(itx.clone(), irx, etx, erx, ctx_, crx, srx);
    let mut raft = Raft::<ClusterTC>::new(id, role, storage, SimTransport { me: id, net }, handlers, Arc::new(membership_for(id, n)), sp, cfg);
    let (ltx, lrx) = tokio::sync::watch::channel(None);
    raft.register_leader_change_listener(ltx);
    Node { id, raft: Some(raft), log, engine, itx, leader_rx: lrx, notifs: vec![], _shutdown: stx }
}

async fn settle(node: &mut Node) {
    // internal events may enqueue replayed inbound events and vice versa; iterate to quiescence
    for _ in 0..6 {
        for _ in 0..4 {
            tokio::task::yield_now().await;
        }
        loop {
            let raft = node.raft.as_mut().unwrap();
            if raft.verif_process_one_internal().await.is_none() {
                break;
            }
            // record every distinct value the leader-change watch takes, also between two internal events
            let cur = node.leader_rx.borrow().clone();
            if let Some(l) = cur {
                if node.notifs.last() != Some(&(l.leader_id, l.term)) {
                    node.notifs.push((l.leader_id, l.term));
                }
            }
        }
        let raft = node.raft.as_mut().unwrap();
        let selfq = raft.verif_take_self_inbound();
        let _ = raft.verif_process_inbound(selfq).await;
    }
}

fn observe(node: &Node) -> Value {
    let raft = node.raft.as_ref().unwrap();
    let (role, term, commit, vf) = raft.verif_view();
    let last = node.log.last_entry_id();
    let ents: Vec<Value> = if last > 0 { node.log.get_entries_range(0..=last).unwrap().iter().map(entry_json).collect() } else { vec![] };
    let li = node.leader_rx.borrow().clone();
    let _ = li;
    let ns: Vec<Value> = node.notifs.iter().map(|(l, t)| json!([l, t])).collect();
    json!([role, term, commit, match vf { Some((i, t, c)) => json!([i, t, if c { 1 } else { 0 }]), None => json!([]) }, ents, ns])
}

fn vresp_json(r: &VoteResponse) -> Value {
    json!([if r.vote_granted { 1 } else { 0 }, r.term])
}

pub fn run(rt: &tokio::runtime::Runtime, case: Value) -> Value {
    let n = case[0].as_u64().unwrap() as u32;
    let cap = case[1].as_u64().unwrap();
    rt.block_on(async move {
        let net = Arc::new(Mutex::new(Net::default()));
        let mut nodes: Vec<Node> = (1..=n).map(|id| mk_node(id, n, cap, Arc::new(SimEngine::default()), net.clone())).collect();
        let mut outs = vec![];
        let mut pl = 100u64;
        for lab in case[2].as_array().unwrap() {
            let k = lab[0].as_u64().unwrap();
            let a = lab[1].as_u64().unwrap_or(0) as u32;
            let mut result = json!([]);
            match k {
                0 | 13 => {
                    // election timeout at a (13: only if the leader a follows is gone - heartbeats of a live
                    // leader keep resetting the timer, so under fair conditions such a node never times out)
                    let ai = (a - 1) as usize;
                    if k == 13 {
                        let follows = nodes[ai].leader_rx.borrow().clone();
                        let (my_role, my_term, _, _) = nodes[ai].raft.as_ref().unwrap().verif_view();
                        let live = match follows {
                            Some(l) if l.leader_id >= 1 && l.leader_id <= n => {
                                let (r, t, _, _) = nodes[(l.leader_id - 1) as usize].raft.as_ref().unwrap().verif_view();
                                r == 3 && t == l.term && t >= my_term
                            }
                            _ => false,
                        };
                        if live || my_role == 3 {
                            let obs: Vec<Value> = nodes.iter().map(observe).collect();
                            outs.push(json!([obs, []]));
                            continue;
                        }
                    }
                    tokio::time::sleep(std::time::Duration::from_millis(12)).await;
                    {
                        let raft = nodes[ai].raft.as_mut().unwrap();
                        let (role, _, _, _) = raft.verif_view();
                        if role == 1 {
                            let _ = raft.verif_tick().await; // follower: BecomeCandidate
                        }
                    }
                    settle(&mut nodes[ai]).await;
                    let (role, term, _, _) = nodes[ai].raft.as_ref().unwrap().verif_view();
                    if role == 2 {
                        let lid = nodes[ai].log.last_log_id().unwrap_or(LogId { index: 0, term: 0 });
                        let req = VoteRequest { term: term + 1, candidate_id: a, last_log_index: lid.index, last_log_term: lid.term };
                        let targets: Vec<u32> = crate::ints(&lab[2]).into_iter().map(|x| x as u32).collect();
                        let mut responses: Vec<Result<VoteResponse>> = vec![];
                        let mut seen = vec![];
                        for t in targets {
                            if t == a || t < 1 || t > n {
                                continue;
                            }
                            let ti = (t - 1) as usize;
                            let (tx, mut rx) = <MaybeCloneOneshot as RaftOneshot<std::result::Result<VoteResponse, tonic::Status>>>::new();
                            let _ = nodes[ti].raft.as_mut().unwrap().verif_process_inbound(vec![InboundEvent::ReceiveVoteRequest(req.clone(), tx)]).await;
                            settle(&mut nodes[ti]).await;
                            match rx.try_recv() {
                                Ok(Ok(r)) => {
                                    seen.push(json!([t, vresp_json(&r)]));
                                    responses.push(Ok(r));
                                }
                                _ => seen.push(json!([t, []])),
                            }
                        }
                        let peer_ids: HashSet<u32> = (1..=n).filter(|p| *p != a).collect();
                        net.lock().unwrap().votes.insert(a, VoteResult { peer_ids, responses });
                        tokio::time::sleep(std::time::Duration::from_millis(12)).await;
                        let _ = nodes[ai].raft.as_mut().unwrap().verif_tick().await;
                        settle(&mut nodes[ai]).await;
                        result = json!([req.term, seen]);
                    }
                }
                1 | 2 => {
                    let b = lab[2].as_u64().unwrap() as u32;
                    let drain = k == 1 && lab[3].as_u64().unwrap_or(0) == 2;
                    let mut rounds = 0;
                    loop {
                    rounds += 1;
                    for _ in 0..8 {
                        tokio::task::yield_now().await;
                    }
                    let req = {
                        let mut g = net.lock().unwrap();
                        let mut fresh = vec![];
                        if let Some((rx, _)) = g.links.get_mut(&(a, b)) {
                            while let Ok(r) = rx.try_recv() {
                                fresh.push(r);
                            }
                        }
                        let q = g.pending_req.entry((a, b)).or_default();
                        q.extend(fresh);
                        if k == 1 && lab[3].as_u64().unwrap_or(0) == 1 { q.front().cloned() } else { q.pop_front() }
                    };
                    if let (1, Some(req)) = (k, req) {
                        let bi = (b - 1) as usize;
                        let (tx, mut rx) = <MaybeCloneOneshot as RaftOneshot<AeResp>>::new();
                        let summary = json!([req.term, req.prev_log_index, req.prev_log_term, req.entries.iter().map(|e| e.index).collect::<Vec<_>>(), req.leader_commit_index]);
                        let _ = nodes[bi].raft.as_mut().unwrap().verif_process_inbound(vec![InboundEvent::AppendEntries(req, vec![tx])]).await;
                        settle(&mut nodes[bi]).await;
                        if let Ok(Ok(r)) = rx.try_recv() {
                            net.lock().unwrap().pending_resp.entry((a, b)).or_default().push_back(r);
                        }
                        result = summary;
                    } else {
                        break;
                    }
                    if !drain || rounds > 64 {
                        break;
                    }
                    }
                }
                3 | 4 => {
                    let b = lab[2].as_u64().unwrap() as u32;
                    let (resp, tx) = {
                        let mut g = net.lock().unwrap();
                        let q = g.pending_resp.entry((a, b)).or_default();
                        let r = if k == 3 && lab[3].as_u64().unwrap_or(0) == 1 { q.front().cloned() } else { q.pop_front() };
                        let tx = g.links.get(&(a, b)).map(|l| l.1.clone());
                        (r, tx)
                    };
                    if let (3, Some(r), Some(tx)) = (k, resp, tx.clone()) {
                        let _ = tx.send(Ok(r)).await;
                        if lab[3].as_u64().unwrap_or(0) == 2 {
                            // drain: every pending acknowledgement is delivered
                            loop {
                                let nxt = net.lock().unwrap().pending_resp.entry((a, b)).or_default().pop_front();
                                match nxt {
                                    Some(r2) => {
                                        let _ = tx.send(Ok(r2)).await;
                                    }
                                    None => break,
                                }
                            }
                        }
                        settle(&mut nodes[(a - 1) as usize]).await;
                        result = json!([1]);
                    }
                }
                5 => {
                    let ai = (a - 1) as usize;
                    pl += 1;
                    let cmd = WriteOperation::Insert { key: bytes::Bytes::from(pl.to_le_bytes().to_vec()), value: bytes::Bytes::from(lab[2].as_u64().unwrap_or(0).to_le_bytes().to_vec()), ttl_secs: None };
                    let (tx, mut rx) = <MaybeCloneOneshot as RaftOneshot<std::result::Result<ClientResponse, tonic::Status>>>::new();
                    let _ = nodes[ai].raft.as_mut().unwrap().verif_client_cmd(ClientCmd::Propose(ClientWriteRequest { client_id: 1, command: Some(cmd) }, tx)).await;
                    settle(&mut nodes[ai]).await;
                    result = match rx.try_recv() {
                        Ok(Ok(r)) => json!([1, r.error as i32]),
                        Ok(Err(s)) => json!([2, s.code() as i32]),
                        Err(_) => json!([0]),
                    };
                }
                6 => {
                    let ai = (a - 1) as usize;
                    tokio::time::sleep(std::time::Duration::from_millis(3)).await;
                    let (role, _, _, _) = nodes[ai].raft.as_ref().unwrap().verif_view();
                    if role == 3 {
                        let _ = nodes[ai].raft.as_mut().unwrap().verif_tick().await;
                    }
                    settle(&mut nodes[ai]).await;
                }
                7 => {
                    let ai = (a - 1) as usize;
                    let graceful = lab[2].as_u64().unwrap_or(1) == 1;
                    let engine = nodes[ai].engine.clone();
                    nodes[ai].log.flush().await.ok();
                    let raft = nodes[ai].raft.take().unwrap();
                    if graceful {
                        drop(raft);
                    } else {
                        // a kill runs no destructor: nothing the Drop impl would persist reaches storage
                        std::mem::forget(raft);
                    }
                    nodes[ai].log.close().await;
                    if let Ok(dir) = std::env::var("DPROBE_GAP_JOURNAL") {
                        // diagnostic: a storage whose indexes are not 1..=k at restart is dumped with the store's journal
                        let keys: Vec<u64> = engine.log.ents.lock().unwrap().keys().copied().collect();
                        let contiguous = keys.iter().enumerate().all(|(i, k)| *k == i as u64 + 1);
                        if !contiguous && engine.log.boundary.lock().unwrap().is_none() {
                            let j = engine.log.journal.lock().unwrap().join("\n");
                            let _ = std::fs::write(format!("{dir}/gap_{}_{}.txt", std::process::id(), a), format!("node {a} keys {keys:?}\n{j}\n"));
                        }
                    }
                    {
                        let mut g = net.lock().unwrap();
                        g.links.retain(|(f, _), _| *f != a);
                        g.pending_req.retain(|(f, _), _| *f != a);
                        g.pending_resp.retain(|(f, _), _| *f != a);
                    }
                    let old_notifs = std::mem::take(&mut nodes[ai].notifs);
                    nodes[ai] = mk_node(a, n, cap, engine, net.clone());
                    nodes[ai].notifs = old_notifs;
                }
                8 => {
                    let ai = (a - 1) as usize;
                    let (role, _, _, _) = nodes[ai].raft.as_ref().unwrap().verif_view();
                    if role == 3 {
                        let _ = nodes[ai].itx.send(InternalEvent::BecomeFollower(None));
                    }
                    settle(&mut nodes[ai]).await;
                }
                10 => {
                    // a (possibly delayed or duplicated) VoteRequest from `a` for `term` reaches `b`
                    let b = lab[2].as_u64().unwrap() as u32;
                    let bi = (b - 1) as usize;
                    let req = VoteRequest { term: lab[3].as_u64().unwrap(), candidate_id: a, last_log_index: lab[4].as_u64().unwrap(), last_log_term: lab[5].as_u64().unwrap() };
                    let (tx, mut rx) = <MaybeCloneOneshot as RaftOneshot<std::result::Result<VoteResponse, tonic::Status>>>::new();
                    let _ = nodes[bi].raft.as_mut().unwrap().verif_process_inbound(vec![InboundEvent::ReceiveVoteRequest(req, tx)]).await;
                    settle(&mut nodes[bi]).await;
                    result = match rx.try_recv() {
                        Ok(Ok(r)) => vresp_json(&r),
                        _ => json!([]),
                    };
                }
                11 => {
                    // an AppendEntries from (phantom or real) leader `a` reaches `b`: [11, a, b, term, prev, pterm, entries, commit]
                    let b = lab[2].as_u64().unwrap() as u32;
                    let bi = (b - 1) as usize;
                    let req = AppendEntriesRequest { term: lab[3].as_u64().unwrap(), leader_id: a, prev_log_index: lab[4].as_u64().unwrap(), prev_log_term: lab[5].as_u64().unwrap(), entries: entries_of(&lab[6]), leader_commit_index: lab[7].as_u64().unwrap() };
                    let (tx, mut rx) = <MaybeCloneOneshot as RaftOneshot<AeResp>>::new();
                    let _ = nodes[bi].raft.as_mut().unwrap().verif_process_inbound(vec![InboundEvent::AppendEntries(req, vec![tx])]).await;
                    settle(&mut nodes[bi]).await;
                    result = match rx.try_recv() {
                        Ok(Ok(r)) => crate::p_repl::resp_json(&r),
                        _ => json!([]),
                    };
                }
                12 => {
                    // election timeout at a with a canned vote round: [12, a, n_granted, higher_term (0 = none), n_denied]
                    let ai = (a - 1) as usize;
                    tokio::time::sleep(std::time::Duration::from_millis(12)).await;
                    {
                        let raft = nodes[ai].raft.as_mut().unwrap();
                        let (role, _, _, _) = raft.verif_view();
                        if role == 1 {
                            let _ = raft.verif_tick().await;
                        }
                    }
                    settle(&mut nodes[ai]).await;
                    let (role, term, _, _) = nodes[ai].raft.as_ref().unwrap().verif_view();
                    if role == 2 {
                        let mut responses: Vec<Result<VoteResponse>> = vec![];
                        for _ in 0..lab[2].as_u64().unwrap() {
                            responses.push(Ok(VoteResponse { term: term + 1, vote_granted: true, last_log_index: 0, last_log_term: 0 }));
                        }
                        let ht = lab[3].as_u64().unwrap();
                        for _ in 0..lab[4].as_u64().unwrap_or(0) {
                            responses.push(Ok(VoteResponse { term: if ht > 0 { ht } else { term + 1 }, vote_granted: false, last_log_index: 0, last_log_term: 0 }));
                        }
                        let peer_ids: HashSet<u32> = (1..=n).filter(|p| *p != a).collect();
                        net.lock().unwrap().votes.insert(a, VoteResult { peer_ids, responses });
                        tokio::time::sleep(std::time::Duration::from_millis(12)).await;
                        let _ = nodes[ai].raft.as_mut().unwrap().verif_tick().await;
                        settle(&mut nodes[ai]).await;
                    }
                }
                14 => {
                    let ai = (a - 1) as usize;
                    nodes[ai].log.flush().await.ok();
                    for _ in 0..8 {
                        tokio::task::yield_now().await;
                    }
                }
                _ => {
                    let ai = (a - 1) as usize;
                    nodes[ai].log.flush().await.ok();
                    settle(&mut nodes[ai]).await;
                }
            }
            let obs: Vec<Value> = nodes.iter().map(observe).collect();
            outs.push(json!([obs, result]));
        }
        for nd in nodes.iter_mut() {
            if let Some(r) = nd.raft.take() {
                drop(r);
            }
            nd.log.close().await;
        }
        let _ = nodes.iter().map(|x| x.id).count();
        Value::Array(outs)
    })
}
