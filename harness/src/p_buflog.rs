//! probe `buflog`: the real BufferedRaftLog driven through the RaftLog trait by an op sequence.
//! Input: [qmax, tmax, [op...]] with op = [0, entries] append | [1, prev, pterm, entries] filter |
//! [2, idx, term] purge | [3] reset | [4, count] pre-allocate. Output: per op [result, observation].
use crate::sim::*;
use d_engine_core::*;
use d_engine_proto::common::LogId;
use serde_json::{json, Value};
use std::sync::Arc;

pub fn observe(log: &BufferedRaftLog<SimTC>, qmax: u64, tmax: u64) -> Value {
    let terms: Vec<Value> = (0..=qmax).map(|i| opt_json(log.entry_term(i))).collect();
    let tf: Vec<Value> = (0..=tmax).map(|t| opt_json(log.first_index_for_term(t))).collect();
    let tl: Vec<Value> = (0..=tmax).map(|t| opt_json(log.last_index_for_term(t))).collect();
    let r1: Vec<Value> = log.get_entries_range(0..=qmax).unwrap().iter().map(entry_json).collect();
    let r2: Vec<Value> = if qmax >= 1 { log.get_entries_range(2..=(qmax - 1)).unwrap().iter().map(entry_json).collect() } else { vec![] };
    json!([log.first_entry_id(), log.last_entry_id(), lid_json(log.last_log_id()), terms, tf, tl, r1, r2])
}

pub fn run(rt: &tokio::runtime::Runtime, case: Value) -> Value {
    let qmax = case[0].as_u64().unwrap();
    let tmax = case[1].as_u64().unwrap();
    let engine = Arc::new(SimEngine::default());
    let log = new_buflog(engine);
    let mut outs = vec![];
    for op in case[2].as_array().unwrap() {
        let k = op[0].as_u64().unwrap();
        let res: Value = rt.block_on(async {
            match k {
                0 => {
                    log.append_entries(entries_of(&op[1])).await.unwrap();
                    json!([])
                }
                1 => {
                    let r = log.filter_out_conflicts_and_append(op[1].as_u64().unwrap(), op[2].as_u64().unwrap(), entries_of(&op[3])).await.unwrap();
                    lid_json(r)
                }
                2 => {
                    log.purge_logs_up_to(LogId { index: op[1].as_u64().unwrap(), term: op[2].as_u64().unwrap() }).await.unwrap();
                    json!([])
                }
                3 => {
                    log.reset().await.unwrap();
                    json!([])
                }
                _ => {
                    let r = log.pre_allocate_id_range(op[1].as_u64().unwrap());
                    json!(*r.start())
                }
            }
        });
        outs.push(json!([res, observe(&log, qmax, tmax)]));
    }
    rt.block_on(log.close());
    Value::Array(outs)
}

/// probe `majority`: [entries, cur_term, commit, peers] -> Option<u64>
pub fn majority(rt: &tokio::runtime::Runtime, case: Value) -> Value {
    let engine = Arc::new(SimEngine::default());
    let log = new_buflog(engine);
    let es = entries_of(&case[0]);
    rt.block_on(async {
        if !es.is_empty() {
            log.append_entries(es).await.unwrap();
        }
    });
    let r = log.calculate_majority_matched_index(case[1].as_u64().unwrap(), case[2].as_u64().unwrap(), crate::ints(&case[3]));
    rt.block_on(log.close());
    opt_json(r)
}
