//! probe `leaderq`: the real LeaderState client bookkeeping (push_client_cmd, flush_cmd_buffers, process_batch,
//! unified_write_and_linear_read, execute_and_process_raft_rpc, drain_pending_client_writes, handle_apply_completed,
//! handle_log_flushed, handle_append_result, tick, drain_read_buffer, FatalError arm, handle_join_cluster) over a real
//! BufferedRaftLog, driven through the public RaftRoleState trait with recording response channels; after a step-down
//! the client commands go to a real FollowerState (default RaftRoleState::push_client_cmd).
//! Input: [[maxw, maxr, T, H, J, default_policy(1 lin,2 lease,3 eventual), allow_override, single_voter], noop_committed, [op...]]
//!   op = [0,wkind(0 put,1 delete,2 cas,3 no command)] | [1,requested policy(0 none,1,2,3)] | [2] scan | [3] join | [4] flush_cmd_buffers
//!      | [5,m] success ack of the voting peer with match index m | [6] LogFlushed | [7,[flag..]] ApplyCompleted for the next
//!      committed indexes | [8,dt] advance the clock by dt ms and tick | [9] AppendResult with a higher term | [10] BecomeFollower
//!      (drain_read_buffer, LeaderState dropped) | [11] FatalError (then the role object is dropped)
//! Output per op: [[[id, kind, aux]... new responses sorted by id], commit_index, last_entry_id, [[id]|[] per new log entry]]
//! Request ids are allocated 0,1,2.. in order of the client ops (write/read/scan/join).
//!
//! probe `readroute`: read-policy routing of the four role states and of LeaderState::determine_read_policy.
use crate::sim::*;
use bytes::Bytes;
use d_engine_core::follower_state::FollowerState;
use d_engine_core::leader_state::LeaderState;
use d_engine_core::role_state::RaftRoleState;
use d_engine_core::*;
use d_engine_proto::common::entry_payload::Payload;
use d_engine_proto::common::{LogId, NodeStatus};
use d_engine_proto::server::cluster::{ClusterMembership, JoinRequest, JoinResponse, NodeMeta};
use d_engine_proto::server::replication::{append_entries_response, AppendEntriesResponse, SuccessResult};
use futures::StreamExt;
use serde_json::{json, Value};
use std::sync::atomic::{AtomicU64, Ordering};
use std::sync::{Arc, Mutex};
use std::time::Duration;
use tonic::{Code, Status};

type Rx<T> = MaybeCloneOneshotReceiver<std::result::Result<T, Status>>;

enum AnyRx {
    Client(Rx<ClientResponse>),
    Scan(Rx<ScanResult>),
    Join(Rx<JoinResponse>),
}

struct Pending {
    id: u64,
    rx: AnyRx,
    done: bool,
}

fn status_kind(s: &Status) -> (u64, u64) {
    match s.code() {
        Code::FailedPrecondition => {
            if s.message().starts_with("Not leader") {
                (3, 0)
            } else {
                (14, 0)
            }
        }
        Code::PermissionDenied => (3, 1),
        Code::InvalidArgument => (4, 0),
        Code::ResourceExhausted => (5, 0),
        Code::DeadlineExceeded => (6, 0),
        Code::Unavailable => (7, 0),
        Code::Internal => (10, 0),
        _ => (15, s.code() as u64),
    }
}

fn client_kind(r: &std::result::Result<ClientResponse, Status>, policy_hint: u64) -> (u64, u64) {
    match r {
        Err(s) => status_kind(s),
        Ok(resp) => match resp.error {
            ErrorCode::Success => match &resp.result {
                Some(ClientResponsePayload::Write(w)) => (1, if w.succeeded { 1 } else { 0 }),
                Some(ClientResponsePayload::Read(_)) => (2, policy_hint),
                None => (16, 0),
            },
            ErrorCode::ProposeFailed => (8, 0),
            ErrorCode::TermOutdated => (9, 0),
            ErrorCode::NotLeader => (3, 2),
            other => (17, other as i32 as u64),
        },
    }
}

/// Polls every receiver once; returns the new responses as [id, kind, aux].
fn poll(pend: &mut Vec<Pending>, read_policy: &dyn Fn(u64) -> u64) -> Vec<Value> {
    use tokio::sync::broadcast::error::TryRecvError;
    let mut out: Vec<(u64, u64, u64)> = vec![];
    for p in pend.iter_mut() {
        loop {
            let r: std::result::Result<(u64, u64), TryRecvError> = match &mut p.rx {
                AnyRx::Client(rx) => rx.try_recv().map(|v| client_kind(&v, read_policy(p.id))),
                AnyRx::Scan(rx) => rx.try_recv().map(|v| match v {
                    Ok(_) => (12, 0),
                    Err(s) => status_kind(&s),
                }),
                AnyRx::Join(rx) => rx.try_recv().map(|v| match v {
                    Ok(j) => {
                        if j.success {
                            (13, 0)
                        } else {
                            (18, 0)
                        }
                    }
                    Err(s) => status_kind(&s),
                }),
            };
            match r {
                Ok((k, a)) => {
                    out.push((p.id, k, a));
                    p.done = true;
                }
                Err(TryRecvError::Empty) => break,
                Err(TryRecvError::Closed) => {
                    if !p.done {
                        out.push((p.id, 11, 0));
                        p.done = true;
                    }
                    break;
                }
                Err(TryRecvError::Lagged(n)) => {
                    out.push((p.id, 99, n));
                    p.done = true;
                }
            }
        }
    }
    out.sort();
    out.into_iter().map(|(i, k, a)| json!([i, k, a])).collect()
}

fn policy_of(n: u64) -> Option<ReadConsistencyPolicy> {
    match n {
        1 => Some(ReadConsistencyPolicy::LinearizableRead),
        2 => Some(ReadConsistencyPolicy::LeaseRead),
        3 => Some(ReadConsistencyPolicy::EventualConsistency),
        _ => None,
    }
}
fn policy_num(p: &ReadConsistencyPolicy) -> u64 {
    match p {
        ReadConsistencyPolicy::LinearizableRead => 1,
        ReadConsistencyPolicy::LeaseRead => 2,
        ReadConsistencyPolicy::EventualConsistency => 3,
    }
}

fn write_req(kind: u64, n: u64) -> ClientWriteRequest {
    let key = Bytes::from(format!("k{n}"));
    let command = match kind {
        0 => Some(WriteOperation::Insert { key, value: Bytes::from(format!("v{n}")), ttl_secs: None }),
        1 => Some(WriteOperation::Delete { key }),
        2 => Some(WriteOperation::CompareAndSwap { key, expected: None, new_value: Bytes::from(format!("c{n}")) }),
        _ => None,
    };
    ClientWriteRequest { client_id: n as u32, command }
}

fn voter_meta(id: u32) -> NodeMeta {
    NodeMeta { id, address: format!("127.0.0.1:{}", 9000 + id), role: 1, status: NodeStatus::Active as i32 }
}

struct World {
    ctx: RaftContext<SimTC>,
    membership: Arc<MockMembership<SimTC>>,
    applied: Arc<AtomicU64>,
    streams: Arc<Mutex<Vec<tokio::sync::mpsc::Receiver<d_engine_proto::server::replication::AppendEntriesRequest>>>>,
}

fn world(log: Arc<BufferedRaftLog<SimTC>>, cfg: RaftNodeConfig, single: bool) -> World {
    let mut ctx = sim_context(1, log, cfg);
    let mut mm = MockMembership::<SimTC>::new();
    let voters: Vec<NodeMeta> = if single { vec![] } else { vec![voter_meta(2)] };
    let v2 = voters.clone();
    mm.expect_voters().returning(move || v2.clone());
    let v3 = voters.clone();
    mm.expect_replication_peers().returning(move || v3.clone());
    mm.expect_is_single_node_cluster().returning(move || single);
    mm.expect_contains_node().returning(|_| false);
    mm.expect_can_rejoin().returning(|_, _| Ok(()));
    mm.expect_retrieve_cluster_membership_config().returning(|_| ClusterMembership::default());
    mm.expect_get_cluster_conf_version().returning(|| 1);
    let membership = Arc::new(mm);
    ctx.membership = membership.clone();
    let applied = Arc::new(AtomicU64::new(0));
    let a2 = applied.clone();
    let mut sm = MockStateMachine::new();
    sm.expect_last_applied().returning(move || LogId { term: 1, index: a2.load(Ordering::SeqCst) });
    sm.expect_scan_prefix().returning(|_| Ok(ScanResult { entries: vec![], revision: 0 }));
    sm.expect_snapshot_metadata().returning(|| None);
    ctx.storage.state_machine = Arc::new(sm);
    let mut smh = MockStateMachineHandler::<SimTC>::new();
    smh.expect_read_from_state_machine().returning(|_| Some(vec![]));
    smh.expect_get_latest_snapshot_metadata().returning(|| None);
    ctx.handlers.state_machine_handler = Arc::new(smh);
    let streams = Arc::new(Mutex::new(vec![]));
    let s2 = streams.clone();
    let mut tr = MockTransport::<SimTC>::new();
    tr.expect_open_replication_stream().returning(move |_, _, _| {
        let (tx, rx) = tokio::sync::mpsc::channel(100_000);
        s2.lock().unwrap().push(rx);
        Ok(ReplicationStream { sender: tx, receiver: futures::stream::pending().boxed() })
    });
    ctx.transport = Arc::new(tr);
    World { ctx, membership, applied, streams }
}

fn make_cfg(c: &Value) -> RaftNodeConfig {
    let mut cfg = base_config();
    cfg.raft.backpressure.max_pending_writes = c[0].as_u64().unwrap() as usize;
    cfg.raft.backpressure.max_pending_reads = c[1].as_u64().unwrap() as usize;
    cfg.raft.general_raft_timeout_duration_in_ms = c[2].as_u64().unwrap();
    cfg.raft.replication.rpc_append_entries_clock_in_ms = c[3].as_u64().unwrap();
    cfg.raft.membership.verify_leadership_persistent_timeout = Duration::from_millis(c[4].as_u64().unwrap());
    cfg.raft.read_consistency.default_policy = policy_of(c[5].as_u64().unwrap()).unwrap_or_default();
    cfg.raft.read_consistency.allow_client_override = c[6].as_u64().unwrap_or(0) != 0 || c[6].as_bool().unwrap_or(false);
    cfg.raft.read_consistency.lease_duration_ms = 3_600_000;
    cfg.raft.snapshot.enable = false;
    cfg.raft.metrics.enable_backpressure = false;
    cfg
}

pub fn run(_rt: &tokio::runtime::Runtime, case: Value) -> Value {
    let rt = tokio::runtime::Builder::new_current_thread().enable_all().start_paused(true).build().unwrap();
    let c = &case[0];
    let single = c[7].as_u64().unwrap_or(0) != 0 || c[7].as_bool().unwrap_or(false);
    let noop = case[1].as_u64().unwrap_or(0) != 0 || case[1].as_bool().unwrap_or(false);
    let default_policy = c[5].as_u64().unwrap();
    let allow_override = c[6].as_u64().unwrap_or(0) != 0 || c[6].as_bool().unwrap_or(false);
    let cfg = make_cfg(c);
    let mut outs = vec![];
    let mut err: Option<String> = None;
    rt.block_on(async {
        let engine = Arc::new(SimEngine::default());
        let log = new_buflog(engine);
        let w = world(log.clone(), cfg, single);
        let ctx = &w.ctx;
        let (tx, mut irx) = tokio::sync::mpsc::unbounded_channel::<InternalEvent>();
        let (raft_tx, _raft_rx) = tokio::sync::mpsc::channel::<InboundEvent>(16);
        let t0 = tokio::time::Instant::now();
        let mut expected_now = 0u64;
        let mut leader: Option<LeaderState<SimTC>> = {
            let mut st = LeaderState::<SimTC>::new(1, ctx.node_config.clone());
            st.update_current_term(1);
            st.update_cluster_metadata(&w.membership).await.unwrap();
            if !single {
                st.init_peers_next_index_and_match_index(0, vec![2]).unwrap();
            }
            if noop {
                st.noop_log_id = Some(0);
            }
            Some(st)
        };
        let mut follower: Option<FollowerState<SimTC>> = None;
        let mut pend: Vec<Pending> = vec![];
        let mut next_id = 0u64;
        // requested policy per read id -> the policy the serving role uses (for labelling a served read)
        let mut read_req: std::collections::HashMap<u64, u64> = std::collections::HashMap::new();
        let mut is_leader = true;
        let mut served_by_leader: std::collections::HashMap<u64, bool> = std::collections::HashMap::new();
        let mut applied = 0u64;
        for op in case[2].as_array().unwrap() {
            let last_before = log.last_entry_id();
            let k = op[0].as_u64().unwrap();
            match k {
                0 | 1 | 2 => {
                    let id = next_id;
                    next_id += 1;
                    let cmd = match k {
                        0 => {
                            let (s, r) = MaybeCloneOneshot::new();
                            pend.push(Pending { id, rx: AnyRx::Client(r), done: false });
                            ClientCmd::Propose(write_req(op[1].as_u64().unwrap(), id), s)
                        }
                        1 => {
                            let (s, r) = MaybeCloneOneshot::new();
                            pend.push(Pending { id, rx: AnyRx::Client(r), done: false });
                            read_req.insert(id, op[1].as_u64().unwrap());
                            served_by_leader.insert(id, is_leader);
                            ClientCmd::Read(ClientReadRequest { client_id: 1, keys: vec![Bytes::from("k0")], consistency_policy: policy_of(op[1].as_u64().unwrap()) }, s)
                        }
                        _ => {
                            let (s, r) = MaybeCloneOneshot::new();
                            pend.push(Pending { id, rx: AnyRx::Scan(r), done: false });
                            ClientCmd::Scan(Bytes::from("k"), s)
                        }
                    };
                    if let Some(st) = leader.as_mut() {
                        st.push_client_cmd(cmd, ctx);
                    } else if let Some(f) = follower.as_mut() {
                        f.push_client_cmd(cmd, ctx);
                    }
                }
                3 => {
                    let id = next_id;
                    next_id += 1;
                    let (s, r) = MaybeCloneOneshot::new();
                    pend.push(Pending { id, rx: AnyRx::Join(r), done: false });
                    let req = JoinRequest { node_id: 100 + id as u32, node_role: d_engine_proto::common::NodeRole::Learner as i32, address: format!("127.0.0.1:{}", 7000 + id), status: NodeStatus::Promotable as i32 };
                    let ev = InboundEvent::JoinCluster(req, s);
                    if let Some(st) = leader.as_mut() {
                        let _ = st.handle_inbound_event(ev, ctx, tx.clone()).await;
                    } else if let Some(f) = follower.as_mut() {
                        let _ = f.handle_inbound_event(ev, ctx, tx.clone()).await;
                    }
                }
                4 => {
                    if let Some(st) = leader.as_mut() {
                        if let Err(e) = st.flush_cmd_buffers(ctx, &tx).await {
                            err = Some(format!("flush_cmd_buffers: {e:?}"));
                        }
                    } else if let Some(f) = follower.as_mut() {
                        let _ = f.flush_cmd_buffers(ctx, &tx).await;
                    }
                }
                5 => {
                    if let Some(st) = leader.as_mut() {
                        let term = st.current_term();
                        let resp = AppendEntriesResponse { node_id: 2, term, result: Some(append_entries_response::Result::Success(SuccessResult { last_match: Some(LogId { index: op[1].as_u64().unwrap(), term }) })) };
                        if !single {
                            let _ = st.handle_append_result(2, Ok(resp), ctx, &tx).await;
                        }
                    }
                }
                6 => {
                    if let Some(st) = leader.as_mut() {
                        let d = log.last_entry_id();
                        st.handle_log_flushed(d, ctx, &tx).await;
                    }
                }
                7 => {
                    let flags: Vec<bool> = op[1].as_array().unwrap().iter().map(|f| f.as_u64().unwrap_or(0) != 0 || f.as_bool().unwrap_or(false)).collect();
                    let commit = leader.as_ref().map(|s| s.commit_index()).unwrap_or_else(|| follower.as_ref().map(|f| f.commit_index()).unwrap_or(0));
                    let n = std::cmp::min(flags.len() as u64, commit.saturating_sub(applied));
                    let results: Vec<ApplyResult> = (0..n).map(|i| ApplyResult { index: applied + 1 + i, succeeded: flags[i as usize] }).collect();
                    applied += n;
                    w.applied.store(applied, Ordering::SeqCst);
                    if let Some(st) = leader.as_mut() {
                        let _ = st.handle_apply_completed(applied, results, ctx, &tx).await;
                    }
                }
                8 => {
                    let dt = op[1].as_u64().unwrap();
                    tokio::time::advance(Duration::from_millis(dt)).await;
                    expected_now += dt;
                    if let Some(st) = leader.as_mut() {
                        let _ = st.tick(&tx, &raft_tx, ctx).await;
                    }
                }
                9 => {
                    if let Some(st) = leader.as_mut() {
                        let term = st.current_term() + 1;
                        let resp = AppendEntriesResponse { node_id: 2, term, result: Some(append_entries_response::Result::Success(SuccessResult { last_match: Some(LogId { index: 0, term }) })) };
                        let _ = st.handle_append_result(2, Ok(resp), ctx, &tx).await;
                    }
                }
                10 | 11 => {
                    if let Some(mut st) = leader.take() {
                        if k == 10 {
                            let _ = st.drain_read_buffer();
                        } else {
                            let _ = st.handle_inbound_event(InboundEvent::FatalError { source: "sm".into(), error: "boom".into() }, ctx, tx.clone()).await;
                        }
                        let commit = st.commit_index();
                        let term = st.current_term();
                        drop(st);
                        let mut f = FollowerState::<SimTC>::new(1, ctx.node_config.clone(), None, None);
                        f.update_current_term(term);
                        let _ = f.update_commit_index(commit);
                        follower = Some(f);
                        is_leader = false;
                    }
                }
                _ => {}
            }
            while irx.try_recv().is_ok() {}
            let elapsed = (tokio::time::Instant::now() - t0).as_millis() as u64;
            if elapsed != expected_now {
                err = Some(format!("clock drift: expected {expected_now} ms, tokio clock at {elapsed} ms"));
            }
            let label = |id: u64| -> u64 {
                // policy under which a served read was answered: the role's effective policy for that request
                let req = *read_req.get(&id).unwrap_or(&0);
                if req != 0 && allow_override { req } else { default_policy }
            };
            let rs = poll(&mut pend, &label);
            let commit = leader.as_ref().map(|s| s.commit_index()).unwrap_or_else(|| follower.as_ref().map(|f| f.commit_index()).unwrap_or(0));
            let last = log.last_entry_id();
            let mut newe = vec![];
            for i in (last_before + 1)..=last {
                match log.entry(i) {
                    Ok(Some(e)) => match e.payload.as_ref().and_then(|p| p.payload.as_ref()) {
                        Some(Payload::Command(b)) => newe.push(json!([decode_client(b)])),
                        _ => newe.push(json!([])),
                    },
                    _ => newe.push(json!([999999])),
                }
            }
            outs.push(json!([rs, commit, last, newe]));
            let _ = &served_by_leader;
        }
        drop(leader);
        w.streams.lock().unwrap().clear();
    });
    rt.block_on(async {});
    if let Some(e) = err {
        return Value::String(format!("ERR {e}"));
    }
    Value::Array(outs)
}

/// The ghost id travels in the write's value ("v<id>" / "c<id>") or client id; recover it from the encoded command.
fn decode_client(b: &Bytes) -> u64 {
    use prost::Message;
    match d_engine_proto::client::WriteCommand::decode(b.clone()) {
        Ok(cmd) => {
            use d_engine_proto::client::write_command::Operation;
            let from = |v: &[u8]| -> u64 { std::str::from_utf8(v).ok().and_then(|s| s.get(1..)).and_then(|s| s.parse().ok()).unwrap_or(888888) };
            match cmd.operation {
                Some(Operation::Insert(i)) => from(&i.value),
                Some(Operation::CompareAndSwap(c)) => from(&c.new_value),
                Some(Operation::Delete(d)) => from(&d.key) + 0,
                _ => 777777,
            }
        }
        Err(_) => 666666,
    }
}

/// probe `readroute` (Raft command path): one read through the real push_client_cmd of each role state.
/// Input: [role(0 follower,1 candidate,2 learner,3 leader), default_policy(1..3), allow_override, requested(0 none,1..3)]
/// Output: [0] answered "Not leader" | [1,p] served from the local state machine at once under policy p (non-leader: only the
/// eventual branch serves) | [2,p] queued by the leader under policy p (p observed from the behaviour of flush_cmd_buffers on a
/// two-voter leader whose noop is not committed and whose lease is invalid: linearizable -> unavailable "LeaderNotReady",
/// lease -> parked in pending_lease_reads (no answer), eventual -> served)
pub fn readroute(_rt: &tokio::runtime::Runtime, case: Value) -> Value {
    let rt = tokio::runtime::Builder::new_current_thread().enable_all().start_paused(true).build().unwrap();
    let role = case[0].as_u64().unwrap();
    let cfgv = json!([0, 0, 100, 50, 200, case[1], case[2], 0]);
    let cfg = make_cfg(&cfgv);
    let req = case[3].as_u64().unwrap();
    let mut out = json!("ERR no output");
    rt.block_on(async {
        let engine = Arc::new(SimEngine::default());
        let log = new_buflog(engine);
        let w = world(log.clone(), cfg, false);
        let ctx = &w.ctx;
        let (tx, _irx) = tokio::sync::mpsc::unbounded_channel::<InternalEvent>();
        let (s, mut r) = MaybeCloneOneshot::new();
        let cmd = ClientCmd::Read(ClientReadRequest { client_id: 1, keys: vec![Bytes::from("k0")], consistency_policy: policy_of(req) }, s);
        let classify = |v: std::result::Result<ClientResponse, Status>| -> (u64, u64) { client_kind(&v, 0) };
        if role == 3 {
            let mut st = LeaderState::<SimTC>::new(1, ctx.node_config.clone());
            st.update_current_term(1);
            st.update_cluster_metadata(&w.membership).await.unwrap();
            st.init_peers_next_index_and_match_index(0, vec![2]).unwrap();
            st.push_client_cmd(cmd, ctx);
            let before = r.try_recv();
            if before.is_ok() {
                out = json!("ERR leader answered before flush");
                return;
            }
            let _ = st.flush_cmd_buffers(ctx, &tx).await;
            out = match r.try_recv() {
                Ok(v) => match classify(v) {
                    (7, _) => json!([2, 1]),
                    (2, _) => json!([2, 3]),
                    (k, a) => json!([9, k, a]),
                },
                Err(_) => json!([2, 2]),
            };
            drop(st);
        } else {
            let f = FollowerState::<SimTC>::new(1, ctx.node_config.clone(), None, None);
            match role {
                0 => {
                    let mut f = f;
                    f.push_client_cmd(cmd, ctx);
                }
                1 => {
                    let mut c = d_engine_core::candidate_state::CandidateState::<SimTC>::from(&f);
                    c.push_client_cmd(cmd, ctx);
                }
                _ => {
                    let mut l = d_engine_core::learner_state::LearnerState::<SimTC>::new(1, ctx.node_config.clone());
                    l.push_client_cmd(cmd, ctx);
                }
            }
            out = match r.try_recv() {
                Ok(v) => match classify(v) {
                    (3, 0) => json!([0]),
                    (2, _) => json!([1, 3]),
                    (k, a) => json!([9, k, a]),
                },
                Err(_) => json!([8]),
            };
        }
        w.streams.lock().unwrap().clear();
    });
    out
}

/// probe `readroute_embedded` (API path: EmbeddedClient -> EmbeddedReadHandle): a real embedded node (file storage engine and
/// file state machine) configured as one voter of a three-voter cluster whose peers do not exist, so it never becomes leader.
/// Input: [default_policy(1..3), allow_override, requested(1..3)]; the read is `client.get_with_consistency("k0", requested)`.
/// Output: [1] the read returned Ok (served from the local state machine of a non-leader) | [0] it returned an error.
pub fn readroute_embedded(_rt: &tokio::runtime::Runtime, case: Value) -> Value {
    use d_engine_server::{EmbeddedEngine, FileStateMachine, FileStorageEngine};
    static NEXT: AtomicU64 = AtomicU64::new(0);
    let n = NEXT.fetch_add(1, Ordering::SeqCst);
    let base = 21000 + ((std::process::id() as u64 % 400) * 20 + (n % 6) * 3) as u16;
    let dir = tempfile::tempdir().unwrap();
    let pol = |x: u64| match x {
        1 => "LinearizableRead",
        2 => "LeaseRead",
        _ => "EventualConsistency",
    };
    let default = case[0].as_u64().unwrap();
    let allow = case[1].as_u64().unwrap_or(0) != 0 || case[1].as_bool().unwrap_or(false);
    let req = case[2].as_u64().unwrap();
    let toml = format!(
        "[cluster]\nnode_id = 1\nlisten_address = \"127.0.0.1:{p1}\"\ninitial_cluster = [\n {{ id = 1, address = \"127.0.0.1:{p1}\", role = 1, status = 3 }},\n {{ id = 2, address = \"127.0.0.1:{p2}\", role = 1, status = 3 }},\n {{ id = 3, address = \"127.0.0.1:{p3}\", role = 1, status = 3 }},\n]\ndb_root_dir = \"{d}/db\"\nlog_dir = \"{d}/logs\"\n\n[raft]\ngeneral_raft_timeout_duration_in_ms = 300\n\n[raft.read_consistency]\ndefault_policy = \"{dp}\"\nallow_client_override = {ao}\n\n[raft.snapshot]\nenable = false\n",
        p1 = base, p2 = base + 1, p3 = base + 2, d = dir.path().display(), dp = pol(default), ao = allow
    );
    let cfg_path = dir.path().join("node.toml");
    std::fs::write(&cfg_path, toml).unwrap();
    let rt = tokio::runtime::Builder::new_multi_thread().worker_threads(2).enable_all().build().unwrap();
    let out = rt.block_on(async {
        let se = match FileStorageEngine::new(dir.path().join("db/storage")) {
            Ok(x) => Arc::new(x),
            Err(e) => return Value::String(format!("ERR storage {e:?}")),
        };
        let sm = match FileStateMachine::new(dir.path().join("db/sm")).await {
            Ok(x) => Arc::new(x),
            Err(e) => return Value::String(format!("ERR sm {e:?}")),
        };
        let engine = match EmbeddedEngine::start_custom(se, sm, Some(cfg_path.to_str().unwrap())).await {
            Ok(e) => e,
            Err(e) => return Value::String(format!("ERR start {e:?}")),
        };
        tokio::time::sleep(Duration::from_millis(150)).await;
        if engine.is_leader() {
            let _ = engine.stop().await;
            return Value::String("ERR node became leader".into());
        }
        let client = engine.client();
        let r = client.get_with_consistency(b"k0", policy_of(req).unwrap()).await;
        let v = match r {
            Ok(_) => json!([1]),
            Err(_) => json!([0]),
        };
        let _ = tokio::time::timeout(Duration::from_secs(5), engine.stop()).await;
        v
    });
    rt.shutdown_timeout(Duration::from_secs(2));
    out
}
