//! probe `leader_commit`: the real LeaderState commit path (update_peer_index, calculate_new_commit_index,
//! handle_append_result, handle_log_flushed) over a real BufferedRaftLog.
//! Input: [entries, cur_term, [voter ids], [learner ids], [event...]] with event =
//!   [0, peer, resp_term, 0, match_idx, match_term]   success ack
//!   [0, peer, resp_term, 1, cterm(0=None), cidx(0=None)]   conflict
//!   [1, durable]                                     LogFlushed
//!   [2, n]                                           leader appends n entries of cur_term locally
//! Output per event: [commit_index, [[match?] per peer], [next per peer]]
use crate::sim::*;
use d_engine_core::*;
use d_engine_core::leader_state::LeaderState;
use d_engine_core::role_state::RaftRoleState;
use d_engine_proto::common::{LogId, NodeStatus};
use d_engine_proto::server::cluster::NodeMeta;
use d_engine_proto::server::replication::{append_entries_response, AppendEntriesResponse, ConflictResult, SuccessResult};
use serde_json::{json, Value};
use std::sync::Arc;

fn meta(id: u32, learner: bool) -> NodeMeta {
    NodeMeta { id, address: format!("127.0.0.1:{}", 9000 + id), role: if learner { 4 } else { 1 }, status: if learner { NodeStatus::Promotable as i32 } else { NodeStatus::Active as i32 } }
}

pub fn commit(rt: &tokio::runtime::Runtime, case: Value) -> Value {
    let es = entries_of(&case[0]);
    let cur_term = case[1].as_u64().unwrap();
    let voters: Vec<u32> = crate::ints(&case[2]).into_iter().map(|x| x as u32).collect();
    let learners: Vec<u32> = crate::ints(&case[3]).into_iter().map(|x| x as u32).collect();
    let learner_role = d_engine_proto::common::NodeRole::Learner as i32;
    let vmeta: Vec<NodeMeta> = voters.iter().map(|i| meta(*i, false)).collect();
    let mut all: Vec<NodeMeta> = vmeta.clone();
    all.extend(learners.iter().map(|i| { let mut m = meta(*i, true); m.role = learner_role; m }));
    let engine = Arc::new(SimEngine::default());
    let log = new_buflog(engine);
    let cfg = base_config();
    let mut ctx = sim_context(1, log.clone(), cfg);
    let mut mm = MockMembership::<SimTC>::new();
    let v2 = vmeta.clone();
    mm.expect_voters().returning(move || v2.clone());
    let a2 = all.clone();
    mm.expect_replication_peers().returning(move || a2.clone());
    mm.expect_is_single_node_cluster().returning(|| false);
    let membership = Arc::new(mm);
    ctx.membership = membership.clone();
    let mut sm = MockStateMachine::new();
    sm.expect_last_applied().returning(|| LogId { term: 0, index: 0 });
    ctx.storage.state_machine = Arc::new(sm);
    let (tx, _rx) = tokio::sync::mpsc::unbounded_channel::<InternalEvent>();
    let mut outs = vec![];
    rt.block_on(async {
        if !es.is_empty() {
            log.append_entries(es.clone()).await.unwrap();
        }
        let mut st = LeaderState::<SimTC>::new(1, ctx.node_config.clone());
        st.update_current_term(cur_term);
        st.update_cluster_metadata(&membership).await.unwrap();
        let mut peers = voters.clone();
        peers.extend(learners.iter().cloned());
        st.init_peers_next_index_and_match_index(log.last_entry_id(), peers.clone()).unwrap();
        let mut pl = 7000u64;
        for ev in case[4].as_array().unwrap() {
            match ev[0].as_u64().unwrap() {
                0 => {
                    let peer = ev[1].as_u64().unwrap() as u32;
                    let term = ev[2].as_u64().unwrap();
                    let result = if ev[3].as_u64().unwrap() == 0 {
                        append_entries_response::Result::Success(SuccessResult { last_match: Some(LogId { index: ev[4].as_u64().unwrap(), term: ev[5].as_u64().unwrap() }) })
                    } else {
                        let ct = ev[4].as_u64().unwrap();
                        let ci = ev[5].as_u64().unwrap();
                        append_entries_response::Result::Conflict(ConflictResult { conflict_term: if ct == 0 { None } else { Some(ct) }, conflict_index: if ci == 0 { None } else { Some(ci) } })
                    };
                    let resp = AppendEntriesResponse { node_id: peer, term, result: Some(result) };
                    let _ = st.handle_append_result(peer, Ok(resp), &ctx, &tx).await;
                }
                1 => {
                    st.handle_log_flushed(ev[1].as_u64().unwrap(), &ctx, &tx).await;
                }
                _ => {
                    let n = ev[1].as_u64().unwrap();
                    let start = log.last_entry_id() + 1;
                    let v: Vec<_> = (0..n).map(|k| { pl += 1; mk_entry(start + k, cur_term, pl) }).collect();
                    log.append_entries(v).await.unwrap();
                }
            }
            let ms: Vec<Value> = peers.iter().map(|p| opt_json(st.match_index(*p))).collect();
            let ns: Vec<Value> = peers.iter().map(|p| json!(st.next_index(*p).unwrap_or(0))).collect();
            outs.push(json!([st.commit_index(), ms, ns, st.current_term()]));
        }
    });
    rt.block_on(log.close());
    Value::Array(outs)
}
