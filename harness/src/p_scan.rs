//! probes `scan` and `scan_race` (property C25): scan_prefix of the real FileStateMachine and RocksDBStateMachine.
//!
//! scan — input [[op...]], op =
//!   [0, [cmd...]]   apply_chunk of these commands (indexes assigned consecutively from 1 over the whole case)
//!                   cmd = [0,key,val] insert | [1,key] delete | [2,key,[] | [exp],val] CAS | [3] noop   (key/val/exp = byte arrays)
//!   [1, prefix]     scan_prefix(prefix)
//! output [file_outs, rocks_outs]; outs = per scan op (in order) [[[key,val]... sorted by key], revision]   | "ERR .."
//!
//! scan_race — input [engine, npad, nwrites]: the state machine holds `npad` keys "p/a%05d" (applied as one chunk,
//!   indexes 1..npad); a writer thread then applies nwrites single-entry chunks Insert("p/x", decimal index) at indexes
//!   npad+1.. while the calling thread scans prefix "p/" in a loop. A scan is consistent with its revision iff
//!   value("p/x") == revision (or "p/x" absent and revision == npad).
//!   output [scans, stale (x < revision: the scan misses an update its revision covers), ahead (x > revision),
//!           [] | [x, revision] first stale example, [] | [x, revision] first ahead example]
//!   This run is a real race between two OS threads: its result is not deterministic.
use crate::p_ttl::{open_engine, Sm};
use bytes::Bytes;
use d_engine_core::{ApplyEntry, Command};
use serde_json::{json, Value};
use std::sync::atomic::{AtomicBool, Ordering};
use std::sync::Arc;

fn bytes_of(v: &Value) -> Bytes {
    Bytes::from(crate::ints(v).into_iter().map(|x| x as u8).collect::<Vec<u8>>())
}
fn bytes_json(b: &[u8]) -> Value {
    Value::Array(b.iter().map(|x| json!(*x)).collect())
}

fn cmd_of(c: &Value) -> Command {
    match c[0].as_u64().unwrap_or(3) {
        0 => Command::Insert { key: bytes_of(&c[1]), value: bytes_of(&c[2]), ttl_secs: None },
        1 => Command::Delete { key: bytes_of(&c[1]) },
        2 => {
            let e = c[2].as_array().cloned().unwrap_or_default();
            Command::CompareAndSwap { key: bytes_of(&c[1]), expected: if e.is_empty() { None } else { Some(bytes_of(&e[0])) }, value: bytes_of(&c[3]) }
        }
        _ => Command::Noop,
    }
}

async fn run_engine(engine: u64, ops: &[Value]) -> Result<Value, String> {
    let base = tempfile::Builder::new().prefix("dprobe-scan").tempdir().map_err(|e| e.to_string())?;
    let (sm, _lease) = open_engine(engine, &base.path().join("sm")).await?;
    let mut index = 0u64;
    let mut outs = vec![];
    for op in ops {
        if op[0].as_u64() == Some(0) {
            let chunk: Vec<ApplyEntry> = op[1]
                .as_array()
                .cloned()
                .unwrap_or_default()
                .iter()
                .map(|c| {
                    index += 1;
                    ApplyEntry { index, term: 1, command: cmd_of(c) }
                })
                .collect();
            sm.apply_chunk(&chunk).await.map_err(|e| format!("apply: {e}"))?;
        } else {
            let p = bytes_of(&op[1]);
            let r = sm.scan_prefix(&p).map_err(|e| format!("scan: {e}"))?;
            let mut es: Vec<(Vec<u8>, Vec<u8>)> = r.entries.iter().map(|(k, v)| (k.to_vec(), v.to_vec())).collect();
            es.sort();
            outs.push(json!([es.iter().map(|(k, v)| json!([bytes_json(k), bytes_json(v)])).collect::<Vec<_>>(), r.revision]));
        }
    }
    let _ = sm.stop();
    drop(sm);
    Ok(Value::Array(outs))
}

pub fn run(rt: &tokio::runtime::Runtime, case: Value) -> Value {
    let ops: Vec<Value> = case[0].as_array().cloned().unwrap_or_default();
    rt.block_on(async {
        let f = |r: Result<Value, String>| match r { Ok(v) => v, Err(e) => json!(format!("ERR {e}")) };
        let a = run_engine(0, &ops).await;
        let b = run_engine(1, &ops).await;
        json!([f(a), f(b)])
    })
}

pub fn race(rt: &tokio::runtime::Runtime, case: Value) -> Value {
    let engine = case[0].as_u64().unwrap_or(1);
    let npad = case[1].as_u64().unwrap_or(0);
    let nwrites = case[2].as_u64().unwrap_or(0);
    let base = match tempfile::Builder::new().prefix("dprobe-scanrace").tempdir() { Ok(b) => b, Err(e) => return json!(format!("ERR {e}")) };
    let opened: Result<Sm, String> = rt.block_on(async {
        let (sm, _l) = open_engine(engine, &base.path().join("sm")).await?;
        let chunk: Vec<ApplyEntry> = (1..=npad)
            .map(|i| ApplyEntry { index: i, term: 1, command: Command::Insert { key: Bytes::from(format!("p/a{i:05}").into_bytes()), value: Bytes::from_static(b"pad"), ttl_secs: None } })
            .collect();
        if !chunk.is_empty() {
            sm.apply_chunk(&chunk).await.map_err(|e| format!("apply: {e}"))?;
        }
        Ok(sm)
    });
    let sm = match opened { Ok(s) => s, Err(e) => return json!(format!("ERR {e}")) };
    let done = Arc::new(AtomicBool::new(false));
    let started = Arc::new(AtomicBool::new(false));
    let (sm2, done2, started2) = (sm.clone(), done.clone(), started.clone());
    let writer = std::thread::spawn(move || {
        let wrt = tokio::runtime::Builder::new_current_thread().enable_all().build().unwrap();
        wrt.block_on(async {
            started2.store(true, Ordering::SeqCst);
            for i in npad + 1..=npad + nwrites {
                let e = ApplyEntry { index: i, term: 1, command: Command::Insert { key: Bytes::from_static(b"p/x"), value: Bytes::from(i.to_string().into_bytes()), ttl_secs: None } };
                if sm2.apply_chunk(&[e]).await.is_err() {
                    break;
                }
            }
        });
        done2.store(true, Ordering::SeqCst);
    });
    while !started.load(Ordering::SeqCst) {
        std::hint::spin_loop();
    }
    let (mut scans, mut stale, mut ahead) = (0u64, 0u64, 0u64);
    let (mut ex_stale, mut ex_ahead) = (json!([]), json!([]));
    loop {
        let fin = done.load(Ordering::SeqCst);
        if let Ok(r) = sm.scan_prefix(b"p/") {
            scans += 1;
            let x = r.entries.iter().find(|(k, _)| k.as_ref() == b"p/x").and_then(|(_, v)| std::str::from_utf8(v).ok().and_then(|s| s.parse::<u64>().ok())).unwrap_or(npad);
            if x < r.revision {
                stale += 1;
                if stale == 1 { ex_stale = json!([x, r.revision]); }
            } else if x > r.revision {
                ahead += 1;
                if ahead == 1 { ex_ahead = json!([x, r.revision]); }
            }
        }
        if fin {
            break;
        }
    }
    let _ = writer.join();
    let _ = sm.stop();
    drop(sm);
    json!([scans, stale, ahead, ex_stale, ex_ahead])
}
