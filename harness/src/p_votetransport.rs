//! probe `vote_round` (C01): one election round of the real `ElectionHandler::broadcast_vote_requests` over the real
//! `GrpcTransport::send_vote_requests` (hook: `GrpcTransport::verif_new`), with a mock membership that lists the voters.
//! Input [me, term, [[voter_id, kind]...]] with kind 0 = reachable and granting (a real tonic election service in this
//! process), 1 = no control channel can be obtained (get_peer_channel -> None: crashed / partitioned peer),
//! 2 = channel exists but the RPC fails (connection refused), 3 = reachable and denying with the same term.
//! Output [won (1/0), error code (0 none, 1 quorum failure, 2 higher term, 3 other), sorted peer_ids of the VoteResult,
//!         number of responses, number of granted responses].
use crate::sim::*;
use d_engine_core::*;
use d_engine_proto::common::NodeStatus;
use d_engine_proto::server::cluster::NodeMeta;
use d_engine_proto::server::election::raft_election_service_server::{RaftElectionService, RaftElectionServiceServer};
use d_engine_proto::server::election::{VoteRequest, VoteResponse};
use d_engine_server::GrpcTransport;
use serde_json::{json, Value};
use std::sync::{Arc, Mutex, OnceLock};
use tonic::transport::{Channel, Endpoint, Server};

#[derive(Debug)]
pub struct GrpcTC;
impl TypeConfig for GrpcTC {
    type SE = SimEngine;
    type SM = MockStateMachine;
    type R = BufferedRaftLog<Self>;
    type M = MockMembership<Self>;
    type TR = GrpcTransport<Self>;
    type E = ElectionHandler<Self>;
    type REP = ReplicationHandler<Self>;
    type C = MockCommitHandler;
    type SMH = MockStateMachineHandler<Self>;
    type SNP = MockSnapshotPolicy;
    type PE = MockPurgeExecutor;
}

struct Voter {
    grant: bool,
}
#[tonic::async_trait]
impl RaftElectionService for Voter {
    async fn request_vote(&self, request: tonic::Request<VoteRequest>) -> std::result::Result<tonic::Response<VoteResponse>, tonic::Status> {
        let r = request.into_inner();
        Ok(tonic::Response::new(VoteResponse { term: r.term, vote_granted: self.grant, last_log_index: 0, last_log_term: 0 }))
    }
}

/// ports of the granting and the denying service of this process (started once, on their own thread + runtime)
static SERVERS: OnceLock<Mutex<Option<(u16, u16)>>> = OnceLock::new();

fn servers() -> (u16, u16) {
    let cell = SERVERS.get_or_init(|| Mutex::new(None));
    let mut g = cell.lock().unwrap();
    if let Some(p) = *g {
        return p;
    }
    let mut ports = [0u16; 2];
    for (k, grant) in [(0usize, true), (1usize, false)] {
        let l = std::net::TcpListener::bind("127.0.0.1:0").unwrap();
        let port = l.local_addr().unwrap().port();
        l.set_nonblocking(true).unwrap();
        ports[k] = port;
        std::thread::spawn(move || {
            let rt = tokio::runtime::Builder::new_current_thread().enable_all().build().unwrap();
            rt.block_on(async move {
                let listener = tokio::net::TcpListener::from_std(l).unwrap();
                let incoming = tokio_stream::wrappers::TcpListenerStream::new(listener);
                let svc = RaftElectionServiceServer::new(Voter { grant })
                    .accept_compressed(tonic::codec::CompressionEncoding::Gzip)
                    .send_compressed(tonic::codec::CompressionEncoding::Gzip);
                let _ = Server::builder().add_service(svc).serve_with_incoming(incoming).await;
            });
        });
    }
    std::thread::sleep(std::time::Duration::from_millis(100));
    *g = Some((ports[0], ports[1]));
    (ports[0], ports[1])
}

fn lazy(port: u16) -> Channel {
    Endpoint::from_shared(format!("http://127.0.0.1:{port}")).unwrap().connect_timeout(std::time::Duration::from_millis(300)).connect_lazy()
}

pub fn run(rt: &tokio::runtime::Runtime, case: Value) -> Value {
    let (gport, dport) = servers();
    rt.block_on(async move {
        // connected channels to the two services (a tonic Channel is a cheap handle; connecting eagerly keeps a loaded
        // machine from turning a reachable voter into an RPC error)
        let mut gch = None;
        let mut dch = None;
        for _ in 0..50 {
            if gch.is_none() { gch = Endpoint::from_shared(format!("http://127.0.0.1:{gport}")).unwrap().connect().await.ok(); }
            if dch.is_none() { dch = Endpoint::from_shared(format!("http://127.0.0.1:{dport}")).unwrap().connect().await.ok(); }
            if gch.is_some() && dch.is_some() { break; }
            tokio::time::sleep(std::time::Duration::from_millis(100)).await;
        }
        let (gch, dch) = match (gch, dch) { (Some(a), Some(b)) => (a, b), _ => return json!("cannot connect to the in-process election services") };
        let me = case[0].as_u64().unwrap() as u32;
        let term = case[1].as_u64().unwrap();
        let voters: Vec<(u32, u64)> = case[2].as_array().unwrap().iter().map(|v| (v[0].as_u64().unwrap() as u32, v[1].as_u64().unwrap())).collect();
        let metas: Vec<NodeMeta> = voters.iter().map(|(id, _)| NodeMeta { id: *id, address: format!("127.0.0.1:{}", 9000 + id), role: 1, status: NodeStatus::Active as i32 }).collect();
        let mut m = MockMembership::<GrpcTC>::new();
        let ms = metas.clone();
        m.expect_voters().returning(move || ms.clone());
        m.expect_is_single_node_cluster().returning(|| false);
        let kinds = voters.clone();
        m.expect_get_peer_channel().returning(move |id, _| match kinds.iter().find(|(v, _)| *v == id).map(|(_, k)| *k) {
            Some(0) => Some(gch.clone()),
            Some(3) => Some(dch.clone()),
            Some(2) => Some(lazy(1)),
            _ => None,
        });
        let membership = Arc::new(m);
        let mut cfg = base_config();
        cfg.retry.election.max_retries = 3;
        cfg.retry.election.timeout_ms = 5000;
        cfg.retry.election.base_delay_ms = 1;
        cfg.retry.election.max_delay_ms = 2;
        let cfg = Arc::new(cfg);
        let (ftx, _frx) = tokio::sync::mpsc::channel(64);
        let (stx, _srx) = tokio::sync::mpsc::channel(64);
        let transport: Arc<GrpcTransport<GrpcTC>> = Arc::new(GrpcTransport::verif_new(me, ftx, stx));
        // what the transport reports for this electorate
        let req = VoteRequest { term, candidate_id: me, last_log_index: 0, last_log_term: 0 };
        let (mut ids, nresp, ngrant) = match transport.send_vote_requests(req, &cfg.retry, membership.clone()).await {
            Ok(vr) => {
                let mut ids: Vec<u32> = vr.peer_ids.iter().copied().collect();
                ids.sort();
                let g = vr.responses.iter().filter(|r| matches!(r, Ok(x) if x.vote_granted)).count();
                (ids, vr.responses.len(), g)
            }
            Err(_) => (vec![], 0, 0),
        };
        ids.dedup();
        // and the verdict of the real election handler over it
        let log = new_buflog_tc::<GrpcTC>(Arc::new(SimEngine::default()));
        let handler = ElectionHandler::<GrpcTC>::new(me);
        let res = handler.broadcast_vote_requests(term, membership, &log, &transport, &cfg).await;
        let (won, code) = match &res {
            Ok(()) => (1, 0),
            Err(e) => {
                let s = format!("{e:?}");
                (0, if s.contains("QuorumFailure") { 1 } else if s.contains("HigherTerm") { 2 } else { 3 })
            }
        };
        log.close().await;
        json!([won, code, ids, nresp, ngrant])
    })
}
