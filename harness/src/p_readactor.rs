//! probe `read_actor` (C12): the real server read actor (`run_read_actor`, hook `verif_read_actor_batch`) over the real
//! `ReadLease` and a mock state machine. All commands are queued before the actor starts, so it serves them in one
//! wake-up (up to max_drain per wake-up).
//! Input [max_drain, lease_ms (0 = no valid lease at the start), [policy per command: 2 lease read, 3 eventual, 1 linearizable],
//!        revoke_at (k >= 1: the lease is revoked while the k-th state machine read is being served = the Raft loop steps down
//!        concurrently; 0 never), sleep_ms per state machine read (so that a short lease can expire inside a batch)]
//! Output [[code per command: 1 served, 2 LeaseInvalid, 3 SmStopped, 4 SmError, 0 no reply],
//!         [per state machine read: was the lease valid (1/0) when the read started], deadline passed at the end (1/0)]
use d_engine_core::config::ReadConsistencyPolicy;
use d_engine_core::*;
use serde_json::{json, Value};
use std::sync::atomic::{AtomicUsize, Ordering};
use std::sync::{Arc, Mutex};

pub fn run(rt: &tokio::runtime::Runtime, case: Value) -> Value {
    rt.block_on(async move {
        let max_drain = case[0].as_u64().unwrap_or(100) as usize;
        let lease_ms = case[1].as_u64().unwrap_or(0);
        let pols: Vec<u64> = case[2].as_array().map(|a| a.iter().map(|x| x.as_u64().unwrap_or(3)).collect()).unwrap_or_default();
        let revoke_at = case[3].as_u64().unwrap_or(0) as usize;
        let sleep_ms = case[4].as_u64().unwrap_or(0);
        let lease = Arc::new(ReadLease::new());
        let deadline = now_ms() + lease_ms;
        if lease_ms > 0 {
            lease.renew(1, deadline);
        }
        let calls = Arc::new(AtomicUsize::new(0));
        let valid_at_read: Arc<Mutex<Vec<u8>>> = Arc::new(Mutex::new(vec![]));
        let mut sm = MockStateMachine::new();
        sm.expect_is_running().returning(|| true);
        let (l2, c2, v2) = (lease.clone(), calls.clone(), valid_at_read.clone());
        sm.expect_get_multi().returning(move |keys| {
            let k = c2.fetch_add(1, Ordering::SeqCst) + 1;
            v2.lock().unwrap().push(if l2.is_valid(now_ms()) { 1 } else { 0 });
            if sleep_ms > 0 {
                std::thread::sleep(std::time::Duration::from_millis(sleep_ms));
            }
            if revoke_at > 0 && k == revoke_at {
                l2.revoke();
            }
            Ok(keys.iter().map(|_| None).collect())
        });
        let cmds = pols
            .iter()
            .map(|p| {
                (
                    vec![bytes::Bytes::from_static(b"k")],
                    match p {
                        2 => ReadConsistencyPolicy::LeaseRead,
                        1 => ReadConsistencyPolicy::LinearizableRead,
                        _ => ReadConsistencyPolicy::EventualConsistency,
                    },
                )
            })
            .collect();
        let codes = d_engine_server::verif_read_actor_batch(cmds, lease.clone(), Arc::new(sm), max_drain).await;
        let expired = if lease_ms > 0 && now_ms() > deadline { 1 } else { 0 };
        let v = valid_at_read.lock().unwrap().clone();
        json!([codes, v, expired])
    })
}
