//! probes `smcrash` (C15) and `snapreplay` (C16): the real FileStateMachine / RocksDBStateMachine and the real
//! DefaultStateMachineHandler::create_snapshot / apply_snapshot_stream_from_leader.
//!
//! Commands:  [0,k,v] put | [1,k] delete | [2,k,[exp]|[],v] compare-and-swap (expected absent = []) |
//!            [3,k,v,ttl] put with TTL | [4] noop.   Key k is the bytes "k<k>", value v the decimal bytes of v.
//!
//! `smcrash`  input  [engine (0 File, 1 RocksDB), keys, ops]   op = [0,[cmd..]] apply one chunk | [1] checkpoint/flush
//!                   | [2] save_hard_state (the shutdown path of Drop)
//!            output one [reported last_applied, state, state after re-applying the committed entries above it]
//!            per crash point. A crash is emulated by copying the directory as the crash leaves it and reopening
//!            the copy:
//!            File   apply chunk: for every record of the chunk two cuts of wal.log (inside the record, after it);
//!                   checkpoint: the five step boundaries of persist_data_async (truncate, write),
//!                   persist_metadata_async (truncate, write), clear_wal_async, assembled from the copy taken before
//!                   and the files after the checkpoint (the steps are sequential whole-file writes);
//!                   save_hard_state: the six step boundaries of persist_metadata, persist_data, persist_metadata;
//!            Rocks  after every op (apply_chunk is one atomic write batch, flush() writes the metadata keys).
//! `snapreplay` input [engine, keys, cmds, p, r, c, mode, chunk]
//!            mode 0: source applies cmds[..p], DefaultStateMachineHandler(retained_log_entries = r).create_snapshot(),
//!                    chunks from load_snapshot_data are pushed into a fresh node's apply_snapshot_stream_from_leader;
//!            mode 1: (interleaving) the label is computed as create_snapshot does (last_applied - r), then c more
//!                    entries are applied, then StateMachine::generate_snapshot_data(label) captures the state and a
//!                    fresh node installs it with apply_snapshot_from_file;
//!            then the fresh node applies every entry above the last_applied it reports.
//!            output [label index, last_applied after install, state after install, state after replay]
use crate::sim::*;
use bytes::Bytes;
use d_engine_core::*;
use d_engine_proto::common::LogId;
use d_engine_proto::server::storage::SnapshotMetadata;
use d_engine_server::storage::TtlLease;
use d_engine_server::{FileStateMachine, RocksDBStateMachine};
use futures::StreamExt;
use serde_json::{json, Value};
use std::path::{Path, PathBuf};
use std::sync::Arc;

#[derive(Debug)]
pub struct FileTC;
impl TypeConfig for FileTC {
    type SE = SimEngine;
    type SM = FileStateMachine;
    type R = BufferedRaftLog<Self>;
    type M = MockMembership<Self>;
    type TR = MockTransport<Self>;
    type E = ElectionHandler<Self>;
    type REP = ReplicationHandler<Self>;
    type C = MockCommitHandler;
    type SMH = MockStateMachineHandler<Self>;
    type SNP = MockSnapshotPolicy;
    type PE = MockPurgeExecutor;
}
#[derive(Debug)]
pub struct RocksTC;
impl TypeConfig for RocksTC {
    type SE = SimEngine;
    type SM = RocksDBStateMachine;
    type R = BufferedRaftLog<Self>;
    type M = MockMembership<Self>;
    type TR = MockTransport<Self>;
    type E = ElectionHandler<Self>;
    type REP = ReplicationHandler<Self>;
    type C = MockCommitHandler;
    type SMH = MockStateMachineHandler<Self>;
    type SNP = MockSnapshotPolicy;
    type PE = MockPurgeExecutor;
}

fn kbytes(k: u64) -> Bytes {
    Bytes::from(format!("k{k}").into_bytes())
}
fn vbytes(v: u64) -> Bytes {
    // 0 stands for the empty value (not used by the generators; kept for the empty-value observation in INTEGRATE.md)
    if v == 0 { Bytes::new() } else { Bytes::from(v.to_string().into_bytes()) }
}
fn cmd_of(c: &Value) -> Command {
    match c[0].as_u64().unwrap_or(4) {
        0 => Command::Insert { key: kbytes(c[1].as_u64().unwrap()), value: vbytes(c[2].as_u64().unwrap()), ttl_secs: None },
        1 => Command::Delete { key: kbytes(c[1].as_u64().unwrap()) },
        2 => Command::CompareAndSwap {
            key: kbytes(c[1].as_u64().unwrap()),
            expected: c[2].as_array().and_then(|a| a.first()).map(|e| vbytes(e.as_u64().unwrap())),
            value: vbytes(c[3].as_u64().unwrap()),
        },
        3 => Command::Insert { key: kbytes(c[1].as_u64().unwrap()), value: vbytes(c[2].as_u64().unwrap()), ttl_secs: Some(c[3].as_u64().unwrap().max(1)) },
        _ => Command::Noop,
    }
}
fn entries(cmds: &[Command], first_index: u64) -> Vec<ApplyEntry> {
    cmds.iter().enumerate().map(|(i, c)| ApplyEntry { index: first_index + i as u64, term: 1, command: c.clone() }).collect()
}
fn dump(sm: &dyn StateMachine, keys: &[u64]) -> Value {
    Value::Array(
        keys.iter()
            .map(|k| match sm.get(&kbytes(*k)) {
                Ok(Some(v)) if v.is_empty() => json!([0]),
                Ok(Some(v)) => json!([String::from_utf8_lossy(&v).parse::<u64>().unwrap_or(999_999)]),
                Ok(None) => json!([]),
                Err(_) => json!([888_888]),
            })
            .collect(),
    )
}
fn copy_dir(src: &Path, dst: &Path) {
    std::fs::create_dir_all(dst).unwrap();
    for e in std::fs::read_dir(src).unwrap() {
        let e = e.unwrap();
        let p = e.path();
        let name = e.file_name();
        if name == "LOCK" {
            continue;
        }
        if p.is_dir() {
            copy_dir(&p, &dst.join(&name));
        } else {
            std::fs::copy(&p, dst.join(&name)).unwrap();
        }
    }
}
fn lease() -> Arc<TtlLease> {
    Arc::new(TtlLease::new(LeaseConfig::default()))
}
fn open_file(rt: &tokio::runtime::Runtime, dir: &Path) -> FileStateMachine {
    let mut sm = rt.block_on(FileStateMachine::new(dir.to_path_buf())).expect("FileStateMachine::new");
    sm.set_lease(lease());
    sm
}
fn open_rocks(dir: &Path) -> RocksDBStateMachine {
    let mut sm = RocksDBStateMachine::new(dir).expect("RocksDBStateMachine::new");
    sm.set_lease(lease());
    sm
}

/// what the restarted node shows: reported index, data, data after re-applying the committed entries above it
fn observe(rt: &tokio::runtime::Runtime, sm: &dyn StateMachine, keys: &[u64], committed: &[Command]) -> Value {
    let la = sm.last_applied().index;
    let before = dump(sm, keys);
    let from = (la as usize).min(committed.len());
    let rest = entries(&committed[from..], from as u64 + 1);
    if !rest.is_empty() {
        rt.block_on(sm.apply_chunk(&rest)).expect("re-apply");
    }
    json!([la, before, dump(sm, keys)])
}

/// sizes of the WAL records in `buf` (format of encode_wal_entry)
fn wal_record_sizes(buf: &[u8]) -> Vec<usize> {
    let mut out = vec![];
    let mut pos = 0usize;
    while pos + 17 + 8 <= buf.len() {
        let start = pos;
        pos += 17;
        let kl = u64::from_be_bytes(buf[pos..pos + 8].try_into().unwrap()) as usize;
        pos += 8 + kl;
        let vl = u64::from_be_bytes(buf[pos..pos + 8].try_into().unwrap()) as usize;
        pos += 8 + vl + 8;
        out.push(pos - start);
    }
    out
}

fn read_or_empty(p: &Path) -> Vec<u8> {
    std::fs::read(p).unwrap_or_default()
}

enum Op {
    Apply(Vec<Command>),
    Ckpt,
    Save,
}
fn parse_ops(v: &Value) -> Vec<Op> {
    v.as_array()
        .unwrap()
        .iter()
        .map(|o| match o[0].as_u64().unwrap() {
            0 => Op::Apply(o[1].as_array().unwrap().iter().map(cmd_of).collect()),
            1 => Op::Ckpt,
            _ => Op::Save,
        })
        .collect()
}

pub fn crash(rt: &tokio::runtime::Runtime, case: Value) -> Value {
    let engine = case[0].as_u64().unwrap();
    let keys = crate::ints(&case[1]);
    let ops = parse_ops(&case[2]);
    let tmp = tempfile::tempdir().unwrap();
    let live = tmp.path().join("live");
    let mut n_copy = 0u64;
    let mut fresh = |tag: &str| -> PathBuf {
        n_copy += 1;
        tmp.path().join(format!("c{n_copy}-{tag}"))
    };
    let mut outs: Vec<Value> = vec![];
    let mut done: Vec<Command> = vec![];
    if engine == 0 {
        let sm = open_file(rt, &live);
        let see = |dir: &Path, committed: &[Command]| -> Value {
            let r = open_file(rt, dir);
            let v = observe(rt, &r, &keys, committed);
            drop(r);
            let _ = std::fs::remove_dir_all(dir);
            v
        };
        for op in &ops {
            match op {
                Op::Apply(b) => {
                    let pre = fresh("pre");
                    copy_dir(&live, &pre);
                    let pre_wal = read_or_empty(&live.join("wal.log"));
                    let es = entries(b, done.len() as u64 + 1);
                    rt.block_on(sm.apply_chunk(&es)).expect("apply_chunk");
                    let wal = read_or_empty(&live.join("wal.log"));
                    assert!(wal.len() >= pre_wal.len() && wal[..pre_wal.len()] == pre_wal[..], "wal.log is not append-only");
                    let sizes = wal_record_sizes(&wal[pre_wal.len()..]);
                    assert_eq!(sizes.len(), b.len(), "one WAL record per entry");
                    let mut committed = done.clone();
                    committed.extend(b.iter().cloned());
                    let mut off = pre_wal.len();
                    for sz in sizes {
                        for cut in [off + sz / 2, off + sz] {
                            let d = fresh("wal");
                            copy_dir(&pre, &d);
                            std::fs::write(d.join("wal.log"), &wal[..cut]).unwrap();
                            outs.push(see(&d, &committed));
                        }
                        off += sz;
                    }
                    let _ = std::fs::remove_dir_all(&pre);
                    done = committed;
                }
                Op::Save => {
                    // save_hard_state (what Drop runs): persist_metadata ; persist_data (std::fs::write) ; persist_metadata
                    let pre = fresh("pre");
                    copy_dir(&live, &pre);
                    let pre_wal = read_or_empty(&live.join("wal.log"));
                    StateMachine::save_hard_state(&sm).expect("save_hard_state");
                    assert_eq!(read_or_empty(&live.join("wal.log")), pre_wal, "save_hard_state leaves wal.log alone");
                    let data = read_or_empty(&live.join("state.data"));
                    let meta = read_or_empty(&live.join("metadata.bin"));
                    let steps: [(Option<&[u8]>, Option<&[u8]>); 6] = [
                        (None, Some(&[])),
                        (None, Some(&meta)),
                        (Some(&[]), Some(&meta)),
                        (Some(&data), Some(&meta)),
                        (Some(&data), Some(&[])),
                        (Some(&data), Some(&meta)),
                    ];
                    for (d_data, d_meta) in steps {
                        let d = fresh("sv");
                        copy_dir(&pre, &d);
                        if let Some(x) = d_data {
                            std::fs::write(d.join("state.data"), x).unwrap();
                        }
                        if let Some(x) = d_meta {
                            std::fs::write(d.join("metadata.bin"), x).unwrap();
                        }
                        outs.push(see(&d, &done));
                    }
                    let _ = std::fs::remove_dir_all(&pre);
                }
                Op::Ckpt => {
                    let pre = fresh("pre");
                    copy_dir(&live, &pre);
                    rt.block_on(sm.flush_async()).expect("checkpoint");
                    let data = read_or_empty(&live.join("state.data"));
                    let meta = read_or_empty(&live.join("metadata.bin"));
                    // (state.data, metadata.bin, wal.log) after each step; None = as before the checkpoint
                    let steps: [(Option<&[u8]>, Option<&[u8]>, bool); 5] = [
                        (Some(&[]), None, false),
                        (Some(&data), None, false),
                        (Some(&data), Some(&[]), false),
                        (Some(&data), Some(&meta), false),
                        (Some(&data), Some(&meta), true),
                    ];
                    for (d_data, d_meta, clear) in steps {
                        let d = fresh("ck");
                        copy_dir(&pre, &d);
                        if let Some(x) = d_data {
                            std::fs::write(d.join("state.data"), x).unwrap();
                        }
                        if let Some(x) = d_meta {
                            std::fs::write(d.join("metadata.bin"), x).unwrap();
                        }
                        if clear {
                            std::fs::write(d.join("wal.log"), []).unwrap();
                        }
                        outs.push(see(&d, &done));
                    }
                    // the assembled last step must be the directory the real checkpoint left
                    assert_eq!(read_or_empty(&live.join("wal.log")).len(), 0, "checkpoint leaves an empty wal.log");
                    let _ = std::fs::remove_dir_all(&pre);
                }
            }
        }
        drop(sm);
    } else {
        let sm = open_rocks(&live);
        for op in &ops {
            match op {
                Op::Apply(b) => {
                    let es = entries(b, done.len() as u64 + 1);
                    rt.block_on(sm.apply_chunk(&es)).expect("apply_chunk");
                    done.extend(b.iter().cloned());
                }
                Op::Ckpt => {
                    StateMachine::flush(&sm).expect("flush");
                }
                Op::Save => {
                    StateMachine::save_hard_state(&sm).expect("save_hard_state");
                }
            }
            let d = fresh("rk");
            copy_dir(&live, &d);
            let r = open_rocks(&d);
            outs.push(observe(rt, &r, &keys, &done));
            drop(r);
            let _ = std::fs::remove_dir_all(&d);
        }
        drop(sm);
    }
    Value::Array(outs)
}

fn snap_cfg(dir: &Path, retained: u64) -> SnapshotConfig {
    std::fs::create_dir_all(dir).unwrap();
    let mut c = SnapshotConfig::default();
    c.snapshots_dir = dir.to_path_buf();
    c.retained_log_entries = retained;
    c.chunk_size = 512;
    c
}

async fn apply_in_chunks(sm: &dyn StateMachine, cmds: &[Command], first_index: u64, chunk: usize) {
    let es = entries(cmds, first_index);
    for part in es.chunks(chunk.max(1)) {
        sm.apply_chunk(part).await.expect("apply_chunk");
    }
}

async fn snap_run<T>(source: Arc<T::SM>, target: Arc<T::SM>, tmp: &Path, keys: &[u64], cmds: &[Command], p: usize, r: u64, c: usize, mode: u64, chunk: usize) -> Value
where
    T: TypeConfig,
    T::SNP: Default,
{
    let p = p.min(cmds.len());
    let c = c.min(cmds.len() - p);
    apply_in_chunks(&*source, &cmds[..p], 1, chunk).await;
    let label: u64;
    if mode == 0 {
        let src_cfg = snap_cfg(&tmp.join("src-snaps"), r);
        let src_h = DefaultStateMachineHandler::<T>::new(1, source.last_applied().index, source.clone(), src_cfg, T::SNP::default(), None, Arc::new(std::sync::atomic::AtomicUsize::new(0)));
        let (meta, _path) = src_h.create_snapshot().await.expect("create_snapshot");
        label = meta.last_included.map(|l| l.index).unwrap_or(0);
        let tgt_cfg = snap_cfg(&tmp.join("tgt-snaps"), r);
        let tgt_h = DefaultStateMachineHandler::<T>::new(2, target.last_applied().index, target.clone(), tgt_cfg.clone(), T::SNP::default(), None, Arc::new(std::sync::atomic::AtomicUsize::new(0)));
        let mut stream = src_h.load_snapshot_data(meta.clone()).await.expect("load_snapshot_data");
        let (tx, rx) = tokio::sync::mpsc::channel(1024);
        let (ack_tx, mut ack_rx) = tokio::sync::mpsc::channel(1024);
        while let Some(ch) = stream.next().await {
            tx.send(ch.expect("chunk")).await.unwrap();
        }
        drop(tx);
        let drain = tokio::spawn(async move { while ack_rx.recv().await.is_some() {} });
        tgt_h.apply_snapshot_stream_from_leader(1, rx, ack_tx, &tgt_cfg).await.expect("apply_snapshot_stream_from_leader");
        let _ = drain.await;
    } else {
        // create_snapshot, step by step: label from last_applied, (concurrent applies), capture
        let raw = source.last_applied();
        let li = LogId { index: raw.index.saturating_sub(r), term: raw.term };
        label = li.index;
        apply_in_chunks(&*source, &cmds[p..p + c], p as u64 + 1, chunk).await;
        let dir = tmp.join("snapdir");
        let checksum = source.generate_snapshot_data(dir.clone(), li).await.expect("generate_snapshot_data");
        let meta = SnapshotMetadata { last_included: Some(li), checksum };
        target.apply_snapshot_from_file(&meta, dir).await.expect("apply_snapshot_from_file");
    }
    let la = target.last_applied().index;
    let content = dump(&*target, keys);
    let from = (la as usize).min(cmds.len());
    apply_in_chunks(&*target, &cmds[from..], from as u64 + 1, chunk).await;
    json!([label, la, content, dump(&*target, keys)])
}

pub fn snap(rt: &tokio::runtime::Runtime, case: Value) -> Value {
    let engine = case[0].as_u64().unwrap();
    let keys = crate::ints(&case[1]);
    let cmds: Vec<Command> = case[2].as_array().unwrap().iter().map(cmd_of).collect();
    let p = case[3].as_u64().unwrap() as usize;
    let r = case[4].as_u64().unwrap();
    let c = case[5].as_u64().unwrap() as usize;
    let mode = case[6].as_u64().unwrap();
    let chunk = case[7].as_u64().unwrap_or(3) as usize;
    let tmp = tempfile::tempdir().unwrap();
    if engine == 0 {
        let s = Arc::new(open_file(rt, &tmp.path().join("src")));
        let t = Arc::new(open_file(rt, &tmp.path().join("tgt")));
        rt.block_on(snap_run::<FileTC>(s, t, tmp.path(), &keys, &cmds, p, r, c, mode, chunk))
    } else {
        let s = Arc::new(open_rocks(&tmp.path().join("src")));
        let t = Arc::new(open_rocks(&tmp.path().join("tgt")));
        rt.block_on(snap_run::<RocksTC>(s, t, tmp.path(), &keys, &cmds, p, r, c, mode, chunk))
    }
}
