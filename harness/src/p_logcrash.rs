//! probe `logcrash` (C18): the real BufferedRaftLog (with its real IO thread) over
//!   kind 0: an in-memory two-layer store (written = survives a process crash, synced = content at the last flush()),
//!   kind 1: the real FileStorageEngine in a temp dir,   kind 2: the real RocksDBStorageEngine in a temp dir.
//! Input  [kind, [op...]] with op = [0, entries] append_entries | [1, prev, pterm, entries] filter_out_conflicts_and_append |
//!   [2, idx, term] purge_logs_up_to | [3] reset | [4] flush | [5] close.
//! After every op the probe lets the IO thread go idle, then emulates a crash at that point: the written layer
//! (kind 0: clone of the map; kinds 1, 2: copy of the directory) is reopened and BufferedRaftLog::new runs over it.
//! Output per op: [durable_index(), last_entry_id(), live entries, entries recovered after a process crash,
//!                 entries recovered after power loss (kind 0 only, else [])].
use crate::sim::*;
use async_trait::async_trait;
use d_engine_core::*;
use d_engine_proto::common::{Entry, LogId};
use d_engine_server::{FileStorageEngine, RocksDBStorageEngine};
use serde_json::{json, Value};
use std::collections::BTreeMap;
use std::ops::RangeInclusive;
use std::path::Path;
use std::sync::atomic::{AtomicU64, Ordering};
use std::sync::{Arc, Mutex};
use std::time::{Duration, Instant};

#[derive(Debug, Default)]
pub struct CrashLogStore {
    pub written: Mutex<BTreeMap<u64, Entry>>,
    pub synced: Mutex<BTreeMap<u64, Entry>>,
    pub boundary: Mutex<Option<LogId>>,
    pub calls: AtomicU64,
}

#[async_trait]
impl LogStore for CrashLogStore {
    async fn persist_entries(&self, entries: Vec<Entry>) -> std::result::Result<(), Error> {
        let mut m = self.written.lock().unwrap();
        for e in entries {
            m.insert(e.index, e);
        }
        self.calls.fetch_add(1, Ordering::SeqCst);
        Ok(())
    }
    async fn entry(&self, index: u64) -> std::result::Result<Option<Entry>, Error> {
        Ok(self.written.lock().unwrap().get(&index).cloned())
    }
    fn get_entries(&self, range: RangeInclusive<u64>) -> std::result::Result<Vec<Entry>, Error> {
        Ok(self.written.lock().unwrap().range(range).map(|(_, e)| e.clone()).collect())
    }
    async fn purge(&self, cutoff_index: LogId) -> std::result::Result<(), Error> {
        self.written.lock().unwrap().retain(|k, _| *k > cutoff_index.index);
        *self.boundary.lock().unwrap() = Some(cutoff_index);
        self.calls.fetch_add(1, Ordering::SeqCst);
        Ok(())
    }
    async fn truncate(&self, from_index: u64) -> std::result::Result<(), Error> {
        self.written.lock().unwrap().retain(|k, _| *k < from_index);
        self.calls.fetch_add(1, Ordering::SeqCst);
        Ok(())
    }
    fn is_write_durable(&self) -> bool {
        false
    }
    fn flush(&self) -> std::result::Result<(), Error> {
        let w = self.written.lock().unwrap().clone();
        *self.synced.lock().unwrap() = w;
        self.calls.fetch_add(1, Ordering::SeqCst);
        Ok(())
    }
    async fn reset(&self) -> std::result::Result<(), Error> {
        self.written.lock().unwrap().clear();
        self.calls.fetch_add(1, Ordering::SeqCst);
        Ok(())
    }
    fn last_index(&self) -> u64 {
        self.written.lock().unwrap().keys().next_back().copied().unwrap_or(0)
    }
    fn load_purge_boundary(&self) -> std::result::Result<Option<LogId>, Error> {
        Ok(self.boundary.lock().unwrap().clone())
    }
}

#[derive(Debug, Default)]
pub struct CrashEngine {
    pub log: Arc<CrashLogStore>,
    pub meta: Arc<SimMetaStore>,
}
impl StorageEngine for CrashEngine {
    type LogStore = CrashLogStore;
    type MetaStore = SimMetaStore;
    fn log_store(&self) -> Arc<CrashLogStore> {
        self.log.clone()
    }
    fn meta_store(&self) -> Arc<SimMetaStore> {
        self.meta.clone()
    }
}

macro_rules! tc {
    ($name:ident, $se:ty) => {
        #[derive(Debug)]
        pub struct $name;
        impl TypeConfig for $name {
            type SE = $se;
            type SM = MockStateMachine;
            type R = BufferedRaftLog<Self>;
            type M = MockMembership<Self>;
            type TR = MockTransport<Self>;
            type E = ElectionHandler<Self>;
            type REP = ReplicationHandler<Self>;
            type C = MockCommitHandler;
            type SMH = MockStateMachineHandler<Self>;
            type SNP = MockSnapshotPolicy;
            type PE = MockPurgeExecutor;
        }
    };
}
tc!(CrashTC, CrashEngine);
tc!(FileTC, FileStorageEngine);
tc!(RocksTC, RocksDBStorageEngine);

fn pcfg() -> PersistenceConfig {
    let mut c = PersistenceConfig::default();
    // the safety timer never fires during a case: the schedule is caller op -> IO thread idle -> next op
    c.flush_policy = FlushPolicy::Batch { idle_flush_interval_ms: 3_600_000 };
    c
}

const WINDOW: u64 = 4096;

fn recover_entries<T: TypeConfig>(engine: Arc<T::SE>) -> Vec<Value> {
    let (log, _rx) = BufferedRaftLog::<T>::new(1, pcfg(), engine);
    log.get_entries_range(0..=WINDOW).unwrap().iter().map(entry_json).collect()
}

fn copy_dir(src: &Path, dst: &Path) {
    std::fs::create_dir_all(dst).unwrap();
    for e in std::fs::read_dir(src).unwrap() {
        let e = e.unwrap();
        let p = e.path();
        let name = e.file_name();
        if name == "LOCK" {
            continue;
        }
        if p.is_dir() {
            copy_dir(&p, &dst.join(&name));
        } else {
            std::fs::copy(&p, dst.join(&name)).unwrap();
        }
    }
}

/// Wait until the IO thread is idle: nothing observable (durable index, store call counter) has changed for 1 ms,
/// at least 1.5 ms have passed, and either durable >= max or 300 ms have passed.
fn quiesce<T: TypeConfig>(log: &BufferedRaftLog<T>, calls: &dyn Fn() -> u64) {
    let t0 = Instant::now();
    let mut last = (log.durable_index(), calls());
    let mut since = Instant::now();
    loop {
        std::thread::sleep(Duration::from_micros(150));
        let cur = (log.durable_index(), calls());
        if cur != last {
            last = cur;
            since = Instant::now();
        }
        let el = t0.elapsed();
        let stable = since.elapsed() >= Duration::from_millis(1);
        if stable && el >= Duration::from_micros(1500) && (log.durable_index() >= log.last_entry_id() || el >= Duration::from_millis(300)) {
            break;
        }
        if el >= Duration::from_millis(400) {
            break;
        }
    }
}

fn drive<T: TypeConfig>(
    rt: &tokio::runtime::Runtime,
    log: Arc<BufferedRaftLog<T>>,
    ops: &[Value],
    calls: &dyn Fn() -> u64,
    snap: &dyn Fn() -> (Vec<Value>, Vec<Value>),
) -> Value {
    let mut outs = vec![];
    for op in ops {
        let k = op[0].as_u64().unwrap_or(99);
        rt.block_on(async {
            match k {
                0 => log.append_entries(entries_of(&op[1])).await.unwrap(),
                1 => {
                    log.filter_out_conflicts_and_append(op[1].as_u64().unwrap(), op[2].as_u64().unwrap(), entries_of(&op[3])).await.unwrap();
                }
                2 => log.purge_logs_up_to(LogId { index: op[1].as_u64().unwrap(), term: op[2].as_u64().unwrap() }).await.unwrap(),
                3 => log.reset().await.unwrap(),
                4 => log.flush().await.unwrap(),
                _ => log.close().await,
            }
        });
        if k != 5 {
            quiesce(&*log, calls);
        }
        let live: Vec<Value> = log.get_entries_range(0..=WINDOW).unwrap().iter().map(entry_json).collect();
        // what the log reports is read BEFORE the crash point, so the oracle never depends on the idle detection
        let (dur, mx) = (log.durable_index(), log.last_entry_id());
        let (w, s) = snap();
        outs.push(json!([dur, mx, live, w, s]));
    }
    rt.block_on(log.close());
    Value::Array(outs)
}

pub fn run(rt: &tokio::runtime::Runtime, case: Value) -> Value {
    let kind = case[0].as_u64().unwrap_or(0);
    let ops: Vec<Value> = case[1].as_array().cloned().unwrap_or_default();
    match kind {
        0 => {
            let engine = Arc::new(CrashEngine::default());
            let store = engine.log.clone();
            let (log, rx) = BufferedRaftLog::<CrashTC>::new(1, pcfg(), engine.clone());
            let log = log.start(rx, None);
            let st2 = store.clone();
            let calls = move || st2.calls.load(Ordering::SeqCst);
            let snap = move || {
                let layer = |m: &Mutex<BTreeMap<u64, Entry>>| {
                    let e = CrashEngine::default();
                    *e.log.written.lock().unwrap() = m.lock().unwrap().clone();
                    *e.log.boundary.lock().unwrap() = store.boundary.lock().unwrap().clone();
                    recover_entries::<CrashTC>(Arc::new(e))
                };
                (layer(&store.written), layer(&store.synced))
            };
            drive::<CrashTC>(rt, log, &ops, &calls, &snap)
        }
        1 => {
            let d = tempfile::Builder::new().prefix("dprobe-logcrash").tempdir().expect("tempdir");
            let live = d.path().join("live");
            let engine = Arc::new(FileStorageEngine::new(live.clone()).expect("open file engine"));
            let (log, rx) = BufferedRaftLog::<FileTC>::new(1, pcfg(), engine.clone());
            let log = log.start(rx, None);
            let n = std::cell::Cell::new(0u64);
            let snap = || {
                n.set(n.get() + 1);
                let c = d.path().join(format!("crash{}", n.get()));
                copy_dir(&live, &c);
                let e = Arc::new(FileStorageEngine::new(c.clone()).expect("reopen file engine"));
                let r = recover_entries::<FileTC>(e);
                let _ = std::fs::remove_dir_all(&c);
                (r, vec![])
            };
            drive::<FileTC>(rt, log, &ops, &|| 0, &snap)
        }
        _ => {
            let d = tempfile::Builder::new().prefix("dprobe-logcrash").tempdir().expect("tempdir");
            let live = d.path().join("live");
            let engine = Arc::new(RocksDBStorageEngine::new(live.clone()).expect("open rocksdb engine"));
            let (log, rx) = BufferedRaftLog::<RocksTC>::new(1, pcfg(), engine.clone());
            let log = log.start(rx, None);
            let n = std::cell::Cell::new(0u64);
            let snap = || {
                n.set(n.get() + 1);
                let c = d.path().join(format!("crash{}", n.get()));
                copy_dir(&live, &c);
                let r = {
                    let e = Arc::new(RocksDBStorageEngine::new(c.clone()).expect("reopen rocksdb engine"));
                    recover_entries::<RocksTC>(e)
                };
                let _ = std::fs::remove_dir_all(&c);
                (r, vec![])
            };
            drive::<RocksTC>(rt, log, &ops, &|| 0, &snap)
        }
    }
}
