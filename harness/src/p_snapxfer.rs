//! probe `snapxfer` (C17): the real DefaultStateMachineHandler::apply_snapshot_stream_from_leader
//! (process_snapshot_stream + SnapshotAssembler + decompress_to_directory) over a recording MockStateMachine and a
//! real directory on disk.
//!
//! Input  [initial dir, events, archives, sm_ok]
//!   initial dir  [[name, [bytes]] ..]   name = [0] temp-snapshot.part.tar.gz | [1,i,t] <prefix>i-t.tar.gz | [2,n] other-n.bin
//!   events       [0, [term, leader, seq, total, meta, [data], [checksum]]] one chunk (meta = [] none | [[]] metadata
//!                without last_included | [[i,t]])  |  [1] the sender stays silent until the receive timeout fires.
//!                End of the list = the sender closes the channel.
//!   archives     not used by the probe (table of valid archives for the model side)
//!   sm_ok        0: the state machine's apply_snapshot_from_file returns an error
//! Output [main, aux]
//!   main = [ok, [content? of every universe name], [[i, t, payload]]? handed to the state machine, acks [[seq,status,next]..]]
//!          universe = temp, the initial names, every final name announced by a chunk's metadata (in that order)
//!   aux  = [names outside the universe found afterwards (as byte strings),
//!           crash copies: after every event the directory as a process crash would leave it
//!                         [[content? per universe name], number of entries outside the universe],
//!           number of apply_snapshot_from_file calls]
//! The chunks are sent in lock-step (next chunk only after the previous ACK or the end of the handler), so the copy taken
//! after event k is the directory a crash right after chunk k leaves (the temp file may lag: tokio writes in the background).
use crate::sim::*;
use bytes::Bytes;
use d_engine_core::*;
use d_engine_proto::common::LogId;
use d_engine_proto::server::storage::{SnapshotAck, SnapshotChunk, SnapshotMetadata};
use serde_json::{json, Value};
use std::path::{Path, PathBuf};
use std::sync::{Arc, Mutex};

fn bytes_of(v: &Value) -> Vec<u8> {
    crate::ints(v).into_iter().map(|x| x as u8).collect()
}
fn bytes_json(b: &[u8]) -> Value {
    Value::Array(b.iter().map(|x| json!(*x)).collect())
}
fn file_name(prefix: &str, code: &Value) -> String {
    match code[0].as_u64().unwrap_or(9) {
        0 => "temp-snapshot.part.tar.gz".to_string(),
        1 => format!("{}{}-{}.tar.gz", prefix, code[1].as_u64().unwrap_or(0), code[2].as_u64().unwrap_or(0)),
        _ => format!("other-{}.bin", code[1].as_u64().unwrap_or(0)),
    }
}
fn look(dir: &Path, names: &[String]) -> Vec<Value> {
    names
        .iter()
        .map(|n| {
            let p = dir.join(n);
            if p.is_file() { std::fs::read(&p).map(|b| json!([bytes_json(&b)])).unwrap_or(json!([])) } else { json!([]) }
        })
        .collect()
}
fn outside(dir: &Path, names: &[String]) -> Vec<Value> {
    let mut v: Vec<String> = std::fs::read_dir(dir)
        .map(|rd| rd.filter_map(|e| e.ok()).map(|e| e.file_name().to_string_lossy().to_string()).collect())
        .unwrap_or_default();
    v.sort();
    v.into_iter().filter(|n| !names.contains(n)).map(|n| bytes_json(n.as_bytes())).collect()
}

fn chunk_of(v: &Value) -> SnapshotChunk {
    let meta = match v[4].as_array() {
        Some(a) if !a.is_empty() => {
            let m = &a[0];
            let li = match m.as_array() {
                Some(x) if x.len() >= 2 => Some(LogId { index: x[0].as_u64().unwrap(), term: x[1].as_u64().unwrap() }),
                _ => None,
            };
            Some(SnapshotMetadata { last_included: li, checksum: Bytes::from(vec![7u8; 32]) })
        }
        _ => None,
    };
    SnapshotChunk {
        leader_term: v[0].as_u64().unwrap(),
        leader_id: v[1].as_u64().unwrap() as u32,
        seq: v[2].as_u64().unwrap() as u32,
        total_chunks: v[3].as_u64().unwrap() as u32,
        chunk_checksum: Bytes::from(bytes_of(&v[6])),
        metadata: meta,
        data: Bytes::from(bytes_of(&v[5])),
    }
}

pub fn run(rt: &tokio::runtime::Runtime, case: Value) -> Value {
    let tmp = tempfile::tempdir().unwrap();
    let dir: PathBuf = tmp.path().join("snaps");
    std::fs::create_dir_all(&dir).unwrap();
    let mut cfg = SnapshotConfig::default();
    cfg.snapshots_dir = dir.clone();
    cfg.receive_chunk_timeout_in_sec = 30;
    let prefix = cfg.snapshots_dir_prefix.clone();

    // universe of names and the initial directory
    let mut names: Vec<String> = vec![file_name(&prefix, &json!([0]))];
    for e in case[0].as_array().unwrap() {
        let n = file_name(&prefix, &e[0]);
        std::fs::write(dir.join(&n), bytes_of(&e[1])).unwrap();
        names.push(n);
    }
    let events = case[1].as_array().unwrap().clone();
    for ev in &events {
        if ev[0].as_u64() == Some(0) {
            let c = chunk_of(&ev[1]);
            if let Some(SnapshotMetadata { last_included: Some(li), .. }) = c.metadata {
                names.push(format!("{}{}-{}.tar.gz", prefix, li.index, li.term));
            }
        }
    }
    let sm_ok = case[3].as_u64().unwrap_or(1) != 0;

    // recording state machine
    let calls: Arc<Mutex<Vec<Value>>> = Arc::new(Mutex::new(vec![]));
    let ncalls = Arc::new(Mutex::new(0u64));
    let mut sm = MockStateMachine::new();
    let (c2, n2) = (calls.clone(), ncalls.clone());
    sm.expect_apply_snapshot_from_file().returning(move |meta, path| {
        *n2.lock().unwrap() += 1;
        if !sm_ok {
            return Err(Error::Fatal("state machine refuses the snapshot (probe)".to_string()));
        }
        let li = meta.last_included.unwrap_or(LogId { index: 0, term: 0 });
        let payload = std::fs::read(path.join("data.bin")).unwrap_or_default();
        c2.lock().unwrap().push(json!([li.index, li.term, bytes_json(&payload)]));
        Ok(())
    });
    sm.expect_last_applied().returning(|| LogId { index: 0, term: 0 });
    let handler = DefaultStateMachineHandler::<SimTC>::new(
        2,
        0,
        Arc::new(sm),
        cfg.clone(),
        MockSnapshotPolicy::default(),
        None,
        Arc::new(std::sync::atomic::AtomicUsize::new(0)),
    );

    let (res_ok, acks, crash) = rt.block_on(async {
        tokio::time::pause();
        let (tx, rx) = tokio::sync::mpsc::channel::<SnapshotChunk>(1024);
        let (ack_tx, mut ack_rx) = tokio::sync::mpsc::channel::<SnapshotAck>(1024);
        let hf = handler.apply_snapshot_stream_from_leader(7, rx, ack_tx, &cfg);
        let names2 = names.clone();
        let dir2 = dir.clone();
        let driver = async move {
            let mut acks: Vec<Value> = vec![];
            let mut crash: Vec<Value> = vec![];
            let mut over = false;
            for ev in &events {
                if over {
                    break;
                }
                if ev[0].as_u64() == Some(0) {
                    if tx.send(chunk_of(&ev[1])).await.is_err() {
                        over = true;
                    }
                } else {
                    tokio::time::sleep(std::time::Duration::from_secs(31)).await;
                }
                if !over {
                    match ack_rx.recv().await {
                        Some(a) => {
                            acks.push(json!([a.seq, a.status, a.next_requested]));
                            if a.status != 1 {
                                over = true;
                            }
                        }
                        None => over = true,
                    }
                }
                crash.push(json!([look(&dir2, &names2), outside(&dir2, &names2).len()]));
            }
            drop(tx);
            while let Some(a) = ack_rx.recv().await {
                acks.push(json!([a.seq, a.status, a.next_requested]));
            }
            (acks, crash)
        };
        let (res, (acks, crash)) = tokio::join!(hf, driver);
        tokio::time::resume();
        (res.is_ok(), acks, crash)
    });

    // tokio::fs::File writes in a background thread: wait until the bytes of every accepted chunk reached the temp file
    // (an Accepted ACK means write_all was called with that chunk) before the directory is read
    let accepted: u64 = acks
        .iter()
        .zip(case[1].as_array().unwrap().iter().filter(|e| e[0].as_u64() == Some(0)))
        .filter(|(a, _)| a[1].as_u64() == Some(1))
        .map(|(_, e)| e[1][5].as_array().map(|d| d.len() as u64).unwrap_or(0))
        .sum();
    let tpath = dir.join(&names[0]);
    for _ in 0..4000 {
        match std::fs::metadata(&tpath) {
            Ok(m) if m.len() < accepted => std::thread::sleep(std::time::Duration::from_micros(500)),
            _ => break,
        }
    }
    let sm_calls = calls.lock().unwrap().clone();
    let smv = match sm_calls.last() {
        Some(c) => json!([c]),
        None => json!([]),
    };
    let main = json!([if res_ok { 1 } else { 0 }, look(&dir, &names), smv, acks]);
    let aux = json!([outside(&dir, &names), crash, *ncalls.lock().unwrap()]);
    json!([main, aux])
}
