//! probe `durability`: a real single-node EmbeddedEngine (real Node, Raft loop, leader, BufferedRaftLog,
//! commit handler, state machine handler) over real storage, driven through the real EmbeddedClient:
//! acknowledged writes must be visible to later linearizable reads, also across graceful stop/restart.
//! Input: [kind (0 = File storage + File state machine, 1 = RocksDB storage + RocksDB state machine),
//!         [step...]] with step = [0, key, value] put | [1, key] delete | [2, key, expected|[] , value] CAS (expected: [] absent, [[bytes]] present)
//!                            | [3] graceful stop + restart | [4, key] linearizable read
//! Output per step: put/delete: [acked 0/1]; CAS: [acked 0/1, succeeded 0/1]; restart: [1]; read: [ok 0/1, value | []]
use bytes::Bytes;
use d_engine_core::client::ClientApi;
use d_engine_server::{EmbeddedEngine, FileStateMachine, FileStorageEngine, RocksDBStateMachine, RocksDBStorageEngine};
use serde_json::{json, Value};
use std::sync::Arc;
use std::time::Duration;

fn bytes_of(v: &Value) -> Vec<u8> {
    v.as_array().map(|a| a.iter().map(|x| x.as_u64().unwrap_or(0) as u8).collect()).unwrap_or_default()
}

enum Eng {
    File(EmbeddedEngine<FileStorageEngine, FileStateMachine>),
    Rocks(EmbeddedEngine<RocksDBStorageEngine, RocksDBStateMachine>),
}

fn free_port() -> u16 {
    let l = std::net::TcpListener::bind("127.0.0.1:0").unwrap();
    l.local_addr().unwrap().port()
}

async fn start(kind: u64, root: &std::path::Path, port: u16) -> Result<Eng, String> {
    let db = root.join("db");
    let logs = root.join("logs");
    std::fs::create_dir_all(&db).ok();
    std::fs::create_dir_all(&logs).ok();
    let cfg = format!(
        "[cluster]\nnode_id = 1\nlisten_address = '127.0.0.1:{port}'\ninitial_cluster = [\n  {{ id = 1, name = 'n1', address = '127.0.0.1:{port}', role = 1, status = 3 }}\n]\ndb_root_dir = '{}'\nlog_dir = '{}'\n\n[raft.snapshot]\nenable = false\n",
        db.display(),
        logs.display()
    );
    let cfg_path = root.join("node.toml");
    std::fs::write(&cfg_path, cfg).map_err(|e| e.to_string())?;
    let cfgs = cfg_path.to_str().unwrap().to_string();
    if kind == 0 {
        let storage = Arc::new(FileStorageEngine::new(root.join("storage")).map_err(|e| format!("storage: {e}"))?);
        let sm = Arc::new(FileStateMachine::new(root.join("sm")).await.map_err(|e| format!("sm: {e}"))?);
        let e = EmbeddedEngine::start_custom(storage, sm, Some(&cfgs)).await.map_err(|e| format!("start: {e}"))?;
        e.wait_ready(Duration::from_secs(30)).await.map_err(|e| format!("wait_ready: {e}"))?;
        Ok(Eng::File(e))
    } else {
        let storage = Arc::new(RocksDBStorageEngine::new(root.join("storage")).map_err(|e| format!("storage: {e}"))?);
        let sm = Arc::new(RocksDBStateMachine::new(root.join("sm")).map_err(|e| format!("sm: {e}"))?);
        let e = EmbeddedEngine::start_custom(storage, sm, Some(&cfgs)).await.map_err(|e| format!("start: {e}"))?;
        e.wait_ready(Duration::from_secs(30)).await.map_err(|e| format!("wait_ready: {e}"))?;
        Ok(Eng::Rocks(e))
    }
}

async fn step<C: ClientApi>(c: &C, st: &Value) -> Value {
    match st[0].as_u64().unwrap() {
        0 => json!([if c.put(bytes_of(&st[1]), bytes_of(&st[2])).await.is_ok() { 1 } else { 0 }]),
        1 => json!([if c.delete(bytes_of(&st[1])).await.is_ok() { 1 } else { 0 }]),
        2 => {
            let exp: Option<Vec<u8>> = st[2].as_array().and_then(|a| a.first()).map(bytes_of);
            match c.compare_and_swap(bytes_of(&st[1]), exp.as_ref(), bytes_of(&st[3])).await {
                Ok(b) => json!([1, if b { 1 } else { 0 }]),
                Err(_) => json!([0, 0]),
            }
        }
        _ => match c.get_linearizable(bytes_of(&st[1])).await {
            Ok(Some(v)) => json!([1, [Bytes::from(v).to_vec()]]),
            Ok(None) => json!([1, []]),
            Err(_) => json!([0, []]),
        },
    }
}

unsafe extern "C" {
    fn dup(fd: i32) -> i32;
    fn dup2(from: i32, to: i32) -> i32;
    fn close(fd: i32) -> i32;
}

pub fn run(rt: &tokio::runtime::Runtime, case: Value) -> Value {
    let kind = case[0].as_u64().unwrap();
    let dir = tempfile::tempdir().unwrap();
    // the engine prints role transitions on stdout, which is this program's result channel
    let saved = unsafe { dup(1) };
    unsafe { dup2(2, 1) };
    let out = rt.block_on(async {
        let port = free_port();
        let mut eng = match start(kind, dir.path(), port).await {
            Ok(e) => Some(e),
            Err(e) => return Value::String(format!("ENGINE {e}")),
        };
        let mut outs = vec![];
        for st in case[1].as_array().unwrap() {
            if st[0].as_u64().unwrap() == 3 {
                match eng.take() {
                    Some(Eng::File(e)) => {
                        let _ = tokio::time::timeout(Duration::from_secs(20), e.stop()).await;
                        drop(e);
                    }
                    Some(Eng::Rocks(e)) => {
                        let _ = tokio::time::timeout(Duration::from_secs(20), e.stop()).await;
                        drop(e);
                    }
                    None => {}
                }
                tokio::time::sleep(Duration::from_millis(300)).await;
                let mut last = String::new();
                for _ in 0..20 {
                    match start(kind, dir.path(), free_port()).await {
                        Ok(e) => {
                            eng = Some(e);
                            break;
                        }
                        Err(e) => {
                            last = e;
                            tokio::time::sleep(Duration::from_millis(500)).await;
                        }
                    }
                }
                if eng.is_none() {
                    return Value::String(format!("RESTART {last}"));
                }
                outs.push(json!([1]));
                continue;
            }
            let r = match eng.as_ref().unwrap() {
                Eng::File(e) => step(&*e.client(), st).await,
                Eng::Rocks(e) => step(&*e.client(), st).await,
            };
            outs.push(r);
        }
        match eng.take() {
            Some(Eng::File(e)) => {
                let _ = tokio::time::timeout(Duration::from_secs(20), e.stop()).await;
            }
            Some(Eng::Rocks(e)) => {
                let _ = tokio::time::timeout(Duration::from_secs(20), e.stop()).await;
            }
            None => {}
        }
        Value::Array(outs)
    });
    unsafe {
        dup2(saved, 1);
        close(saved);
    }
    out
}
