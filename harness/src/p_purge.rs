//! probes for C33 (log compaction never discards needed entries).
//!
//! `purge_role`: the real LeaderState / FollowerState purge decision and execution: handle_snapshot_created
//!   (can_purge_logs, scheduled_purge_upto, DefaultPurgeExecutor::execute_purge -> BufferedRaftLog::purge_logs_up_to),
//!   LogPurgeCompleted -> handle_log_purge_completed, over a real BufferedRaftLog (in-memory store).
//!   Input: [role (0 leader | 1 follower), n0 (initial entries, term 1), [event..]]
//!     event = [0, c]   update_commit_index(c)
//!           | [1, n]   n more entries appended
//!           | [2, li]  SnapshotCreated(Ok(metadata{last_included = (li, 1)}))
//!   Output per event: [first_entry_id, last_entry_id, store purge boundary (0 = none), role.last_purged_index ([] | [i]),
//!                      leader scheduled_purge_upto ([] | [i]), commit_index]
//!
//! `purge_route`: what a leader serves to a peer after a purge, optionally after a restart, per storage engine:
//!   real BufferedRaftLog over SimEngine / FileStorageEngine / RocksDBStorageEngine, purge_logs_up_to, close + reopen,
//!   StateMachine::persist_last_snapshot_metadata / snapshot_metadata on FileStateMachine / RocksDBStateMachine,
//!   ReplicationHandler::prepare_batch_requests for one peer per queried next_index.
//!   Input: [engine (0 sim | 1 file | 2 rocksdb), [term of entry 1, term of entry 2, ..], p (purge up to, 0 = none), restart (0|1), [next..]]
//!   Output: [first_entry_id, last_entry_id, entry_term(p) ([] | [t]), snapshot metadata available (0|1),
//!            [per next: [0] snapshot target | [1, prev_index, prev_term, [entry indexes sent]]]]
use crate::sim::*;
use d_engine_core::follower_state::FollowerState;
use d_engine_core::leader_state::LeaderState;
use d_engine_core::role_state::RaftRoleState;
use d_engine_core::*;
use d_engine_proto::common::{LogId, NodeStatus};
use d_engine_proto::server::cluster::NodeMeta;
use d_engine_proto::server::storage::SnapshotMetadata;
use d_engine_server::{FileStateMachine, FileStorageEngine, RocksDBStateMachine, RocksDBStorageEngine};
use serde_json::{json, Value};
use std::collections::HashMap;
use std::marker::PhantomData;
use std::path::Path;
use std::sync::Arc;

#[derive(Debug)]
pub struct PTC<E>(PhantomData<E>);
impl<E: StorageEngine + std::fmt::Debug + Send + Sync + 'static> TypeConfig for PTC<E> {
    type SE = E;
    type SM = MockStateMachine;
    type R = BufferedRaftLog<Self>;
    type M = MockMembership<Self>;
    type TR = MockTransport<Self>;
    type E = ElectionHandler<Self>;
    type REP = ReplicationHandler<Self>;
    type C = MockCommitHandler;
    type SMH = MockStateMachineHandler<Self>;
    type SNP = MockSnapshotPolicy;
    type PE = DefaultPurgeExecutor<Self>;
}

fn ctx_of<E: StorageEngine + std::fmt::Debug + Send + Sync + 'static>(log: Arc<BufferedRaftLog<PTC<E>>>, cfg: RaftNodeConfig) -> RaftContext<PTC<E>> {
    RaftContext {
        node_id: 1,
        storage: RaftStorageHandles { raft_log: log.clone(), state_machine: Arc::new(MockStateMachine::new()) },
        transport: Arc::new(MockTransport::new()),
        membership: Arc::new(MockMembership::new()),
        handlers: RaftCoreHandlers {
            election_handler: ElectionHandler::new(1),
            replication_handler: ReplicationHandler::new(1),
            state_machine_handler: Arc::new(MockStateMachineHandler::new()),
            purge_executor: Arc::new(DefaultPurgeExecutor::new(log)),
        },
        node_config: Arc::new(cfg),
    }
}

fn oidx(l: Option<LogId>) -> Value {
    match l {
        Some(l) => json!([l.index]),
        None => json!([]),
    }
}

pub fn role(rt: &tokio::runtime::Runtime, case: Value) -> Value {
    type T = PTC<SimEngine>;
    let is_leader = case[0].as_u64().unwrap() == 0;
    let n0 = case[1].as_u64().unwrap();
    let engine = Arc::new(SimEngine::default());
    let store = engine.log.clone();
    let (log, rx) = BufferedRaftLog::<T>::new(1, PersistenceConfig::default(), engine);
    let log = log.start(rx, None);
    let ctx = ctx_of::<SimEngine>(log.clone(), base_config());
    let (tx, mut erx) = tokio::sync::mpsc::unbounded_channel::<InternalEvent>();
    let mut outs = vec![];
    rt.block_on(async {
        let mut next = 1u64;
        if n0 > 0 {
            log.append_entries((0..n0).map(|k| mk_entry(next + k, 1, next + k)).collect()).await.unwrap();
            next += n0;
        }
        let mut leader = LeaderState::<T>::new(1, ctx.node_config.clone());
        let mut follower = FollowerState::<T>::new(1, ctx.node_config.clone(), None, None);
        for ev in case[2].as_array().unwrap() {
            let a = ev[1].as_u64().unwrap();
            match ev[0].as_u64().unwrap() {
                0 => {
                    if is_leader {
                        leader.update_commit_index(a).unwrap();
                    } else {
                        follower.update_commit_index(a).unwrap();
                    }
                }
                1 => {
                    if a > 0 {
                        // a writer never reuses an index at or below the purge boundary
                        let b = store.boundary.lock().unwrap().clone().map(|l| l.index).unwrap_or(0);
                        next = next.max(b + 1);
                        log.append_entries((0..a).map(|k| mk_entry(next + k, 1, next + k)).collect()).await.unwrap();
                        next += a;
                    }
                }
                _ => {
                    let meta = SnapshotMetadata { last_included: Some(LogId { index: a, term: 1 }), checksum: bytes::Bytes::new() };
                    let res = Ok((meta, std::path::PathBuf::from("/nonexistent/snapshot")));
                    if is_leader {
                        let _ = leader.handle_snapshot_created(res, &ctx, &tx).await;
                    } else {
                        let _ = follower.handle_snapshot_created(res, &ctx, &tx).await;
                    }
                    // the Raft loop would hand LogPurgeCompleted back to the role
                    while let Ok(e) = erx.try_recv() {
                        if let InternalEvent::LogPurgeCompleted(id) = e {
                            if is_leader {
                                let _ = leader.handle_log_purge_completed(id);
                            } else {
                                let _ = follower.handle_log_purge_completed(id);
                            }
                        }
                    }
                }
            }
            let b = store.boundary.lock().unwrap().clone().map(|l| l.index).unwrap_or(0);
            let (lp, sc, ci) = if is_leader { (oidx(leader.last_purged_index), oidx(leader.scheduled_purge_upto), leader.commit_index()) } else { (oidx(follower.last_purged_index), json!([]), follower.commit_index()) };
            outs.push(json!([log.first_entry_id(), log.last_entry_id(), b, lp, sc, ci]));
        }
    });
    rt.block_on(log.close());
    Value::Array(outs)
}

async fn route_on<E: StorageEngine + std::fmt::Debug + Send + Sync + 'static>(
    open: &dyn Fn() -> Arc<E>,
    terms: &[u64],
    p: u64,
    restart: bool,
    nexts: &[u64],
) -> std::result::Result<(u64, u64, Value, Vec<Value>), String> {
    let (log, rx) = BufferedRaftLog::<PTC<E>>::new(1, PersistenceConfig::default(), open());
    let mut log = log.start(rx, None);
    let es: Vec<_> = terms.iter().enumerate().map(|(i, t)| mk_entry(i as u64 + 1, *t, i as u64 + 1)).collect();
    if !es.is_empty() {
        log.append_entries(es).await.map_err(|e| format!("append: {e:?}"))?;
    }
    log.flush().await.map_err(|e| format!("flush: {e:?}"))?;
    if p > 0 {
        let t = terms.get(p as usize - 1).copied().unwrap_or(1);
        log.purge_logs_up_to(LogId { index: p, term: t }).await.map_err(|e| format!("purge: {e:?}"))?;
    }
    if restart {
        log.flush().await.map_err(|e| format!("flush: {e:?}"))?;
        log.close().await;
        drop(log);
        let (l2, rx2) = BufferedRaftLog::<PTC<E>>::new(1, PersistenceConfig::default(), open());
        log = l2.start(rx2, None);
    }
    let ctx = ctx_of::<E>(log.clone(), base_config());
    let mut routes = vec![];
    for n in nexts {
        let targets = vec![NodeMeta { id: 2, address: "127.0.0.1:9002".into(), role: 1, status: NodeStatus::Active as i32 }];
        let mut next_index = HashMap::new();
        next_index.insert(2u32, *n);
        let md = ClusterMetadata { single_voter: false, total_voters: 2, replication_targets: targets };
        let ss = StateSnapshot { role: 3, current_term: terms.last().copied().unwrap_or(1), voted_for: None, commit_index: log.last_entry_id() };
        let ls = LeaderStateSnapshot { next_index, match_index: HashMap::new(), noop_log_id: None };
        let r = ctx.replication_handler().prepare_batch_requests(vec![], ss, ls, &md, &ctx).await.map_err(|e| format!("prepare: {e:?}"))?;
        if r.snapshot_targets.contains(&2) {
            routes.push(json!([0]));
        } else if let Some((_, q)) = r.append_requests.first() {
            routes.push(json!([1, q.prev_log_index, q.prev_log_term, q.entries.iter().map(|e| e.index).collect::<Vec<_>>()]));
        } else {
            routes.push(json!([2]));
        }
    }
    let res = (log.first_entry_id(), log.last_entry_id(), opt_json(log.entry_term(p)), routes);
    log.close().await;
    Ok(res)
}

fn meta_survives(rt: &tokio::runtime::Runtime, engine: u64, dir: &Path, p: u64, t: u64, restart: bool) -> u64 {
    if p == 0 {
        return 0;
    }
    let meta = SnapshotMetadata { last_included: Some(LogId { index: p, term: t }), checksum: bytes::Bytes::from(vec![7u8; 32]) };
    let got = match engine {
        1 => {
            let d = dir.join("sm-file");
            let sm = rt.block_on(FileStateMachine::new(d.clone())).expect("FileStateMachine::new");
            sm.persist_last_snapshot_metadata(&meta).expect("persist_last_snapshot_metadata");
            if restart {
                let _ = sm.flush();
                let _ = sm.stop();
                drop(sm);
                let sm2 = rt.block_on(FileStateMachine::new(d)).expect("FileStateMachine::new (reopen)");
                sm2.snapshot_metadata()
            } else {
                sm.snapshot_metadata()
            }
        }
        2 => {
            let d = dir.join("sm-rocks");
            let sm = RocksDBStateMachine::new(&d).expect("RocksDBStateMachine::new");
            sm.persist_last_snapshot_metadata(&meta).expect("persist_last_snapshot_metadata");
            if restart {
                let _ = sm.flush();
                drop(sm);
                let sm2 = RocksDBStateMachine::new(&d).expect("RocksDBStateMachine::new (reopen)");
                sm2.snapshot_metadata()
            } else {
                sm.snapshot_metadata()
            }
        }
        _ => {
            // the in-memory engine has no state machine of its own: its objects stand for the disk and survive
            Some(meta.clone())
        }
    };
    match got {
        Some(m) if m.last_included.map(|l| l.index) == Some(p) => 1,
        _ => 0,
    }
}

pub fn route(rt: &tokio::runtime::Runtime, case: Value) -> Value {
    let engine = case[0].as_u64().unwrap();
    let terms = crate::ints(&case[1]);
    let p = case[2].as_u64().unwrap();
    let restart = case[3].as_u64().unwrap() != 0;
    let nexts = crate::ints(&case[4]);
    let dir = tempfile::Builder::new().prefix("dprobe-purge").tempdir().expect("tempdir");
    let r = match engine {
        1 => {
            let path = dir.path().join("log-file");
            rt.block_on(route_on::<FileStorageEngine>(&|| Arc::new(FileStorageEngine::new(path.clone()).expect("open file engine")), &terms, p, restart, &nexts))
        }
        2 => {
            let path = dir.path().join("log-rocks");
            rt.block_on(route_on::<RocksDBStorageEngine>(&|| Arc::new(RocksDBStorageEngine::new(path.clone()).expect("open rocksdb engine")), &terms, p, restart, &nexts))
        }
        _ => {
            // restart of the in-memory engine: the store object survives (it stands for the disk)
            let e = Arc::new(SimEngine::default());
            rt.block_on(route_on::<SimEngine>(&|| e.clone(), &terms, p, restart, &nexts))
        }
    };
    match r {
        Ok((first, last, bt, routes)) => {
            let t = if p > 0 { terms.get(p as usize - 1).copied().unwrap_or(1) } else { 0 };
            let meta = meta_survives(rt, engine, dir.path(), p, t, restart);
            json!([first, last, bt, meta, routes])
        }
        Err(e) => Value::String(format!("ERROR {e}")),
    }
}
