//! probe `merge`: the real Raft::merge_append_entries + follower AppendEntries workflow, through the
//! guarded hooks Raft::verif_merge / verif_process_inbound.
//! Input: [follower_entries, my_term, max_merge, [[term, leader_id, prev, pterm, entries, leader_commit]...]]
//! Output: [merged_run, sequential_run, merged_queue] where a run = [[response per request], commit, term, log entries]
//! and merged_queue = [[prev, n_entries, leader_commit, n_senders]...] as left by one merge step.
use crate::sim::*;
use d_engine_core::*;
use d_engine_proto::server::replication::{AppendEntriesRequest, AppendEntriesResponse};
use serde_json::{json, Value};
use std::sync::Arc;

type Rx = MaybeCloneOneshotReceiver<std::result::Result<AppendEntriesResponse, tonic::Status>>;

fn mk_raft(es: &[d_engine_proto::common::Entry], my_term: u64, max_merge: usize, rt: &tokio::runtime::Runtime) -> (Raft<SimTC>, Arc<BufferedRaftLog<SimTC>>) {
    let engine = Arc::new(SimEngine::default());
    let log = new_buflog(engine);
    if !es.is_empty() {
        rt.block_on(log.append_entries(es.to_vec())).unwrap();
    }
    let mut cfg = base_config();
    cfg.raft.batching.max_merge_entries = max_merge;
    let cfg = Arc::new(cfg);
    let hs = HardState { current_term: my_term, voted_for: None };
    let role = RaftRole::Follower(Box::new(follower_state::FollowerState::<SimTC>::new(2, cfg.clone(), Some(hs), None)));
    let (etx, erx) = tokio::sync::mpsc::channel(1024);
    let (ctx_, crx) = tokio::sync::mpsc::channel(1024);
    let (itx, irx) = tokio::sync::mpsc::unbounded_channel();
    let (_stx, srx) = tokio::sync::watch::channel(());
    std::mem::forget(_stx);
    let sp = SignalParams::new(itx, irx, etx, erx, ctx_, crx, srx);
    let storage = RaftStorageHandles { raft_log: log.clone(), state_machine: Arc::new(MockStateMachine::new()) };
    let handlers = RaftCoreHandlers {
        election_handler: ElectionHandler::new(2),
        replication_handler: ReplicationHandler::new(2),
        state_machine_handler: Arc::new(MockStateMachineHandler::new()),
        purge_executor: Arc::new(MockPurgeExecutor::new()),
    };
    let raft = Raft::<SimTC>::new(2, role, storage, MockTransport::new(), handlers, Arc::new(MockMembership::new()), sp, cfg);
    (raft, log)
}

fn mk_events(reqs: &Value) -> (Vec<InboundEvent>, Vec<Rx>) {
    let mut evs = vec![];
    let mut rxs = vec![];
    for rq in reqs.as_array().unwrap() {
        let req = AppendEntriesRequest {
            term: rq[0].as_u64().unwrap(),
            leader_id: rq[1].as_u64().unwrap() as u32,
            prev_log_index: rq[2].as_u64().unwrap(),
            prev_log_term: rq[3].as_u64().unwrap(),
            entries: entries_of(&rq[4]),
            leader_commit_index: rq[5].as_u64().unwrap(),
        };
        let (tx, rx) = <MaybeCloneOneshot as RaftOneshot<std::result::Result<AppendEntriesResponse, tonic::Status>>>::new();
        evs.push(InboundEvent::AppendEntries(req, vec![tx]));
        rxs.push(rx);
    }
    (evs, rxs)
}

fn resp_json(r: &AppendEntriesResponse) -> Value {
    use d_engine_proto::server::replication::append_entries_response::Result as R;
    match &r.result {
        Some(R::Success(s)) => json!([0, r.term, lid_json(s.last_match.clone())]),
        Some(R::Conflict(c)) => json!([1, r.term, opt_json(c.conflict_term), opt_json(c.conflict_index)]),
        Some(R::HigherTerm(t)) => json!([2, t]),
        None => json!([9]),
    }
}

fn finish(raft: &Raft<SimTC>, log: &BufferedRaftLog<SimTC>, rxs: &mut Vec<Rx>) -> Value {
    let resps: Vec<Value> = rxs
        .iter_mut()
        .map(|rx| match rx.try_recv() {
            Ok(Ok(r)) => resp_json(&r),
            Ok(Err(s)) => json!([8, s.code() as i32]),
            Err(_) => json!([7]),
        })
        .collect();
    let (_, term, commit, _) = raft.verif_view();
    let ents: Vec<Value> = log.get_entries_range(0..=log.last_entry_id()).unwrap().iter().map(entry_json).collect();
    json!([resps, commit, term, ents])
}

pub fn run(rt: &tokio::runtime::Runtime, case: Value) -> Value {
    let es = entries_of(&case[0]);
    let my_term = case[1].as_u64().unwrap();
    let max_merge = case[2].as_u64().unwrap() as usize;
    // merged: the whole queue at once
    let (mut raft, log) = mk_raft(&es, my_term, max_merge, rt);
    let (evs, mut rxs) = mk_events(&case[3]);
    let _ = rt.block_on(raft.verif_process_inbound(evs));
    let merged = finish(&raft, &log, &mut rxs);
    rt.block_on(log.close());
    // sequential: one request per loop iteration
    let (mut raft2, log2) = mk_raft(&es, my_term, max_merge, rt);
    let (evs2, mut rxs2) = mk_events(&case[3]);
    for ev in evs2 {
        let _ = rt.block_on(raft2.verif_process_inbound(vec![ev]));
    }
    let seq = finish(&raft2, &log2, &mut rxs2);
    rt.block_on(log2.close());
    // the queue after a single merge step
    let (mut raft3, log3) = mk_raft(&es, my_term, max_merge, rt);
    let (evs3, _rxs3) = mk_events(&case[3]);
    let q: Vec<Value> = raft3
        .verif_merge(evs3)
        .iter()
        .map(|e| match e {
            InboundEvent::AppendEntries(r, s) => json!([r.prev_log_index, r.entries.len(), r.leader_commit_index, s.len()]),
            _ => json!([]),
        })
        .collect();
    rt.block_on(log3.close());
    json!([merged, seq, q])
}
