//! probe `smckpt` (C15): a crash INSIDE the checkpoint that ends an apply batch of the real FileStateMachine.
//! Without touching the implementation, `state.data` and `metadata.bin` of the live directory are replaced by named
//! pipes: reading the state.data pipe to EOF captures what persist_data wrote while the state machine is parked in
//! open(metadata.bin); the WAL file as it is on disk at that moment is what a crash at that point leaves behind.
//! Input  [[first batch: [kind 0 put / 1 delete, key, value]...], [head of the second batch: same shape], crash_after (1 = after
//!         state.data, 2 = after state.data and metadata.bin)]; the second batch is padded with filler puts up to index 1000,
//!         so it ends with a checkpoint (WAL entry threshold).
//! Output [reported last_applied after the restart on the crash image, [[key, [value] | []] for every key of the two heads]]
use bytes::Bytes;
use d_engine_core::{ApplyEntry, Command, StateMachine};
use d_engine_server::FileStateMachine;
use serde_json::{json, Value};
use std::io::Read;
use std::path::{Path, PathBuf};
use std::sync::Arc;
use std::time::Duration;

fn entry(index: u64, v: &Value) -> ApplyEntry {
    let key = Bytes::from(format!("k{}", v[1].as_u64().unwrap_or(0)));
    let command = if v[0].as_u64().unwrap_or(0) == 1 {
        Command::Delete { key }
    } else {
        Command::Insert { key, value: Bytes::from(format!("v{}", v[2].as_u64().unwrap_or(0))), ttl_secs: None }
    };
    ApplyEntry { index, term: 1, command }
}

fn mkfifo(path: &Path) -> bool {
    let _ = std::fs::remove_file(path);
    std::process::Command::new("mkfifo").arg(path).status().map(|s| s.success()).unwrap_or(false)
}

async fn drain_fifo(path: PathBuf) -> Option<Vec<u8>> {
    let fut = tokio::task::spawn_blocking(move || {
        let mut f = std::fs::File::open(&path).ok()?;
        let mut buf = Vec::new();
        f.read_to_end(&mut buf).ok()?;
        Some(buf)
    });
    match tokio::time::timeout(Duration::from_secs(30), fut).await {
        Ok(Ok(r)) => r,
        _ => None,
    }
}

pub fn run(rt: &tokio::runtime::Runtime, case: Value) -> Value {
    rt.block_on(async move {
        let tmp = match tempfile::tempdir() {
            Ok(t) => t,
            Err(e) => return json!(format!("tempdir: {e}")),
        };
        let live = tmp.path().join("live");
        let crash = tmp.path().join("crash_image");
        let _ = std::fs::create_dir_all(&crash);
        let sm = match FileStateMachine::new(live.clone()).await {
            Ok(s) => Arc::new(s),
            Err(e) => return json!(format!("new: {e:?}")),
        };
        let b1: Vec<ApplyEntry> = case[0].as_array().cloned().unwrap_or_default().iter().enumerate().map(|(i, v)| entry(i as u64 + 1, v)).collect();
        let n1 = b1.len() as u64;
        if !b1.is_empty() && sm.apply_chunk(&b1).await.is_err() {
            return json!("first batch failed");
        }
        let mut b2: Vec<ApplyEntry> = case[1].as_array().cloned().unwrap_or_default().iter().enumerate().map(|(i, v)| entry(n1 + 1 + i as u64, v)).collect();
        let mut idx = n1 + b2.len() as u64;
        while idx < 1000 {
            idx += 1;
            b2.push(ApplyEntry { index: idx, term: 1, command: Command::Insert { key: Bytes::from(format!("filler{idx}")), value: Bytes::from_static(b"x"), ttl_secs: None } });
        }
        let crash_after = case[2].as_u64().unwrap_or(2);
        if !mkfifo(&live.join("state.data")) || !mkfifo(&live.join("metadata.bin")) {
            return json!("mkfifo failed");
        }
        let sm2 = sm.clone();
        let apply = tokio::spawn(async move { sm2.apply_chunk(&b2).await });
        let data_image = match drain_fifo(live.join("state.data")).await {
            Some(d) => d,
            None => return json!("the batch did not reach the checkpoint (state.data never written)"),
        };
        // parked in open(metadata.bin): this is the WAL a crash at this point leaves behind
        let wal_image = std::fs::read(live.join("wal.log")).unwrap_or_default();
        let old_meta = std::fs::read(crash.join("metadata.bin")).ok();
        let meta_image = match drain_fifo(live.join("metadata.bin")).await {
            Some(d) => d,
            None => return json!("metadata.bin never written"),
        };
        let _ = std::fs::write(crash.join("state.data"), &data_image);
        if crash_after >= 2 {
            let _ = std::fs::write(crash.join("metadata.bin"), &meta_image);
        } else if let Some(m) = old_meta {
            let _ = std::fs::write(crash.join("metadata.bin"), m);
        }
        let _ = std::fs::write(crash.join("wal.log"), &wal_image);
        let _ = tokio::time::timeout(Duration::from_secs(30), apply).await;
        let _ = std::fs::remove_file(live.join("state.data"));
        let _ = std::fs::remove_file(live.join("metadata.bin"));
        drop(sm);
        let restarted = match FileStateMachine::new(crash.clone()).await {
            Ok(s) => s,
            Err(e) => return json!(format!("restart: {e:?}")),
        };
        let reported = restarted.last_applied().index;
        let mut keys: Vec<u64> = case[0].as_array().cloned().unwrap_or_default().iter().chain(case[1].as_array().cloned().unwrap_or_default().iter()).map(|v| v[1].as_u64().unwrap_or(0)).collect();
        keys.sort();
        keys.dedup();
        let vals: Vec<Value> = keys
            .iter()
            .map(|k| {
                let got = restarted.get(format!("k{k}").as_bytes()).ok().flatten();
                json!([k, match got { Some(b) => json!([String::from_utf8_lossy(&b).trim_start_matches('v').parse::<u64>().unwrap_or(999_999)]), None => json!([]) }])
            })
            .collect();
        json!([reported, vals])
    })
}
