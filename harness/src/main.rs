//! dprobe — drives the real d-engine code (built from /repo's working tree) on cases read from stdin,
//! one JSON value per line, and prints one JSON value per line. The driver (dvlib) renders both sides
//! as Coq `val` terms and lets the Coq model decide agreement.
#![allow(clippy::all)]
#![allow(unexpected_cfgs)]
use serde_json::Value;
use std::io::{BufRead, Write};

mod p_config;
mod sim;
mod p_purge;
mod p_apply;
mod p_logcrash;
mod p_resetrace;
mod p_votetransport;
mod p_readactor;
mod p_smckpt;
mod p_membership;
mod p_c10;
mod p_snapxfer;
mod p_lease;
mod p_scan;
mod p_ttl;
mod p_watch;
mod p_leaderq;
mod p_cluster;
mod p_engine;
mod p_kv;
mod p_smcrash;
mod p_store;
mod p_buflog;
mod p_repl;
mod p_leader;
mod p_merge;

pub fn ints(v: &Value) -> Vec<u64> {
    v.as_array().map(|a| a.iter().map(|x| x.as_u64().unwrap_or(0)).collect()).unwrap_or_default()
}

fn dispatch(probe: &str, rt: &tokio::runtime::Runtime, case: Value) -> Value {
    match probe {
        "config" => p_config::run(case),
        "buflog" => p_buflog::run(rt, case),
        "repl_leader" => p_repl::leader(rt, case),
        "repl_follower" => p_repl::follower(rt, case),
        "leader_commit" => p_leader::commit(rt, case),
        "merge" => p_merge::run(rt, case),
        "store_log" => p_store::log(rt, case),
        "store_meta" => p_store::meta(rt, case),
        "smcrash" => p_smcrash::crash(rt, case),
        "snapreplay" => p_smcrash::snap(rt, case),
        "kv" => p_kv::run(rt, case),
        "codec" => p_engine::codec(rt, case),
        "multiget" => p_engine::multiget(rt, case),
        "cluster" => p_cluster::run(rt, case),
        "leaderq" => p_leaderq::run(rt, case),
        "readroute" => p_leaderq::readroute(rt, case),
        "readroute_embedded" => p_leaderq::readroute_embedded(rt, case),
        "watch" => p_watch::run(rt, case),
        "ttl" => p_ttl::run(rt, case),
        "ttl_sample" => p_ttl::sample(rt, case),
        "scan" => p_scan::run(rt, case),
        "scan_race" => p_scan::race(rt, case),
        "lease_ds" => p_lease::ds(case),
        "lease_cluster" => p_lease::cluster(rt, case),
        "snapxfer" => p_snapxfer::run(rt, case),
        "durability" => p_c10::run(rt, case),
        "membership" => p_membership::membership(rt, case),
        "learner" => p_membership::learner(rt, case),
        "join" => p_membership::join(rt, case),
        "node_restart" => p_membership::node_restart(rt, case),
        "promote" => p_membership::promote(rt, case),
        "logcrash" => p_logcrash::run(rt, case),
        "resetrace" => p_resetrace::run(rt, case),
        "vote_round" => p_votetransport::run(rt, case),
        "read_actor" => p_readactor::run(rt, case),
        "smckpt" => p_smckpt::run(rt, case),
        "commit_apply" => p_apply::run(rt, case),
        "purge_role" => p_purge::role(rt, case),
        "purge_route" => p_purge::route(rt, case),
        "majority" => p_buflog::majority(rt, case),
        _ => Value::String(format!("unknown probe {probe}")),
    }
}

fn main() {
    let args: Vec<String> = std::env::args().collect();
    if args.len() < 2 {
        eprintln!("usage: dprobe <probe> < cases.jsonl");
        std::process::exit(2);
    }
    let probe = args[1].clone();
    std::panic::set_hook(Box::new(|_| {}));
    let rt = tokio::runtime::Builder::new_current_thread().enable_all().start_paused(false).build().unwrap();
    let stdin = std::io::stdin();
    let stdout = std::io::stdout();
    let mut out = stdout.lock();
    for line in stdin.lock().lines() {
        let line = line.unwrap();
        if line.trim().is_empty() {
            continue;
        }
        let case: Value = match serde_json::from_str(&line) {
            Ok(v) => v,
            Err(e) => {
                writeln!(out, "{}", Value::String(format!("BADJSON {e}"))).unwrap();
                continue;
            }
        };
        let p = probe.clone();
        let r = std::panic::catch_unwind(std::panic::AssertUnwindSafe(|| dispatch(&p, &rt, case)));
        let v = match r {
            Ok(v) => v,
            Err(e) => {
                let msg = e.downcast_ref::<String>().cloned().or_else(|| e.downcast_ref::<&str>().map(|s| s.to_string())).unwrap_or_default();
                Value::String(format!("PANIC {msg}"))
            }
        };
        writeln!(out, "{}", v).unwrap();
    }
    drop(out);
    p_kv::shutdown();
    p_engine::shutdown(&rt);
}
