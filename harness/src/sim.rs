//! In-memory StorageEngine and the TypeConfig used by probes that drive real core components
//! (BufferedRaftLog, ReplicationHandler, ElectionHandler, role states) without disk or network.
use async_trait::async_trait;
use bytes::Bytes;
use d_engine_core::*;
use d_engine_proto::common::entry_payload::Payload;
use d_engine_proto::common::{Entry, EntryPayload, LogId};
use std::collections::BTreeMap;
use std::ops::RangeInclusive;
use std::sync::{Arc, Mutex};

#[derive(Debug, Default)]
pub struct SimLogStore {
    pub ents: Mutex<BTreeMap<u64, Entry>>,
    pub boundary: Mutex<Option<LogId>>,
    /// journal of store calls, for probes that look at the IO thread's behaviour
    pub journal: Mutex<Vec<String>>,
    /// one-shot gate: when armed, the next flush() (called on the log's IO thread) reports that it was entered and
    /// blocks until released, so that a probe can place Raft-thread steps inside the IO thread's persist-then-fsync window
    pub flush_gate: Mutex<Option<(std::sync::mpsc::Sender<()>, std::sync::mpsc::Receiver<()>)>>,
}

#[async_trait]
impl LogStore for SimLogStore {
    async fn persist_entries(&self, entries: Vec<Entry>) -> std::result::Result<(), Error> {
        let mut m = self.ents.lock().unwrap();
        self.journal.lock().unwrap().push(format!("persist {:?}", entries.iter().map(|e| e.index).collect::<Vec<_>>()));
        for e in entries {
            m.insert(e.index, e);
        }
        Ok(())
    }
    async fn entry(&self, index: u64) -> std::result::Result<Option<Entry>, Error> {
        Ok(self.ents.lock().unwrap().get(&index).cloned())
    }
    fn get_entries(&self, range: RangeInclusive<u64>) -> std::result::Result<Vec<Entry>, Error> {
        Ok(self.ents.lock().unwrap().range(range).map(|(_, e)| e.clone()).collect())
    }
    async fn purge(&self, cutoff_index: LogId) -> std::result::Result<(), Error> {
        let mut m = self.ents.lock().unwrap();
        self.journal.lock().unwrap().push(format!("purge {}", cutoff_index.index));
        m.retain(|k, _| *k > cutoff_index.index);
        *self.boundary.lock().unwrap() = Some(cutoff_index);
        Ok(())
    }
    async fn truncate(&self, from_index: u64) -> std::result::Result<(), Error> {
        let mut m = self.ents.lock().unwrap();
        self.journal.lock().unwrap().push(format!("truncate {}", from_index));
        m.retain(|k, _| *k < from_index);
        Ok(())
    }
    fn is_write_durable(&self) -> bool {
        false
    }
    fn flush(&self) -> std::result::Result<(), Error> {
        self.journal.lock().unwrap().push("flush".into());
        let gate = self.flush_gate.lock().unwrap().take();
        if let Some((entered, release)) = gate {
            let _ = entered.send(());
            let _ = release.recv_timeout(std::time::Duration::from_secs(5));
        }
        Ok(())
    }
    async fn reset(&self) -> std::result::Result<(), Error> {
        self.journal.lock().unwrap().push("reset".into());
        self.ents.lock().unwrap().clear();
        Ok(())
    }
    fn last_index(&self) -> u64 {
        self.ents.lock().unwrap().keys().next_back().copied().unwrap_or(0)
    }
    fn load_purge_boundary(&self) -> std::result::Result<Option<LogId>, Error> {
        Ok(self.boundary.lock().unwrap().clone())
    }
}

#[derive(Debug, Default)]
pub struct SimMetaStore {
    pub hs: Mutex<Option<HardState>>,
}
impl MetaStore for SimMetaStore {
    fn save_hard_state(&self, state: &HardState) -> std::result::Result<(), Error> {
        *self.hs.lock().unwrap() = Some(state.clone());
        Ok(())
    }
    fn load_hard_state(&self) -> std::result::Result<Option<HardState>, Error> {
        Ok(self.hs.lock().unwrap().clone())
    }
}

#[derive(Debug, Default)]
pub struct SimEngine {
    pub log: Arc<SimLogStore>,
    pub meta: Arc<SimMetaStore>,
}
impl StorageEngine for SimEngine {
    type LogStore = SimLogStore;
    type MetaStore = SimMetaStore;
    fn log_store(&self) -> Arc<SimLogStore> {
        self.log.clone()
    }
    fn meta_store(&self) -> Arc<SimMetaStore> {
        self.meta.clone()
    }
}

#[derive(Debug)]
pub struct SimTC;
impl TypeConfig for SimTC {
    type SE = SimEngine;
    type SM = MockStateMachine;
    type R = BufferedRaftLog<Self>;
    type M = MockMembership<Self>;
    type TR = MockTransport<Self>;
    type E = ElectionHandler<Self>;
    type REP = ReplicationHandler<Self>;
    type C = MockCommitHandler;
    type SMH = MockStateMachineHandler<Self>;
    type SNP = MockSnapshotPolicy;
    type PE = MockPurgeExecutor;
}

pub fn mk_entry(index: u64, term: u64, pl: u64) -> Entry {
    Entry { index, term, payload: Some(EntryPayload { payload: Some(Payload::Command(Bytes::from(pl.to_le_bytes().to_vec()))) }) }
}
pub fn pl_of(e: &Entry) -> u64 {
    match e.payload.as_ref().and_then(|p| p.payload.as_ref()) {
        Some(Payload::Command(b)) if b.len() == 8 => u64::from_le_bytes(b[..8].try_into().unwrap()),
        Some(Payload::Noop(_)) => 1_000_001,
        Some(Payload::Config(_)) => 1_000_002,
        Some(Payload::Command(b)) => 2_000_000 + crc32fast::hash(&b[..]) as u64,
        _ => 1_000_000,
    }
}
pub fn entries_of(v: &serde_json::Value) -> Vec<Entry> {
    v.as_array().map(|a| a.iter().map(|e| mk_entry(e[0].as_u64().unwrap(), e[1].as_u64().unwrap(), e[2].as_u64().unwrap_or(0))).collect()).unwrap_or_default()
}
pub fn entry_json(e: &Entry) -> serde_json::Value {
    serde_json::json!([e.index, e.term, pl_of(e)])
}
pub fn lid_json(l: Option<LogId>) -> serde_json::Value {
    match l {
        Some(l) => serde_json::json!([l.index, l.term]),
        None => serde_json::json!([]),
    }
}
pub fn opt_json(o: Option<u64>) -> serde_json::Value {
    match o {
        Some(x) => serde_json::json!([x]),
        None => serde_json::json!([]),
    }
}

/// the same for any TypeConfig over the SimEngine
pub fn new_buflog_tc<T: TypeConfig<SE = SimEngine>>(engine: Arc<SimEngine>) -> Arc<BufferedRaftLog<T>> {
    let (log, rx) = BufferedRaftLog::<T>::new(1, PersistenceConfig::default(), engine);
    log.start(rx, None)
}

pub fn new_buflog(engine: Arc<SimEngine>) -> Arc<BufferedRaftLog<SimTC>> {
    let (log, rx) = BufferedRaftLog::<SimTC>::new(1, PersistenceConfig::default(), engine);
    log.start(rx, None)
}

/// A RaftContext over the real BufferedRaftLog + real Replication/Election handlers and mocks elsewhere.
pub fn sim_context(node_id: u32, log: Arc<BufferedRaftLog<SimTC>>, cfg: RaftNodeConfig) -> RaftContext<SimTC> {
    RaftContext {
        node_id,
        storage: RaftStorageHandles { raft_log: log, state_machine: Arc::new(MockStateMachine::new()) },
        transport: Arc::new(MockTransport::new()),
        membership: Arc::new(MockMembership::new()),
        handlers: RaftCoreHandlers {
            election_handler: ElectionHandler::new(node_id),
            replication_handler: ReplicationHandler::new(node_id),
            state_machine_handler: Arc::new(MockStateMachineHandler::new()),
            purge_executor: Arc::new(MockPurgeExecutor::new()),
        },
        node_config: Arc::new(cfg),
    }
}

pub fn base_config() -> RaftNodeConfig {
    let mut c = RaftNodeConfig::new().expect("default config");
    c.cluster.db_root_dir = std::env::temp_dir().join("dprobe-unused");
    c
}
