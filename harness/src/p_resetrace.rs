//! probe `resetrace`: the real BufferedRaftLog (real IO task) over the in-memory SimEngine with a short safety-net
//! timer. Input [interval_ms, [step...]] with step = [0, prev, pterm, entries] filter_out_conflicts_and_append |
//! [1, yields] yield_now that many times | [2, ms] sleep | [3] flush | [4] arm the store's flush gate |
//! [5] wait until the IO thread is inside flush() (gate entered) | [6, prev, pterm, entries] start
//! filter_out_conflicts_and_append in the background and let it run up to its first suspension |
//! [7] release the gate | [8] wait for the background call.
//! Output [memory indexes, storage indexes after a final flush(), durable_index, journal of the store].
use crate::sim::*;
use d_engine_core::*;
use serde_json::{json, Value};
use std::sync::Arc;

pub fn run(rt: &tokio::runtime::Runtime, case: Value) -> Value {
    rt.block_on(async move {
        let interval = case[0].as_u64().unwrap_or(1000);
        let engine = Arc::new(SimEngine::default());
        let mut pc = PersistenceConfig::default();
        pc.flush_policy = FlushPolicy::Batch { idle_flush_interval_ms: interval };
        let (log0, rx) = BufferedRaftLog::<SimTC>::new(1, pc, engine.clone());
        let log = log0.start(rx, None);
        let mut entered_rx: Option<std::sync::mpsc::Receiver<()>> = None;
        let mut release_tx: Option<std::sync::mpsc::Sender<()>> = None;
        let mut bg: Option<tokio::task::JoinHandle<()>> = None;
        for st in case[1].as_array().cloned().unwrap_or_default() {
            match st[0].as_u64().unwrap_or(9) {
                0 => {
                    let _ = log.filter_out_conflicts_and_append(st[1].as_u64().unwrap(), st[2].as_u64().unwrap(), entries_of(&st[3])).await;
                    engine.log.journal.lock().unwrap().push(format!("-- after filter prev={} n={}: durable={} last={}", st[1], st[3].as_array().map(|a| a.len()).unwrap_or(0), log.durable_index(), log.last_entry_id()));
                }
                1 => {
                    for _ in 0..st[1].as_u64().unwrap_or(1) {
                        tokio::task::yield_now().await;
                    }
                }
                2 => tokio::time::sleep(std::time::Duration::from_millis(st[1].as_u64().unwrap_or(1))).await,
                3 => {
                    let _ = log.flush().await;
                }
                4 => {
                    let (etx, erx) = std::sync::mpsc::channel();
                    let (rtx, rrx) = std::sync::mpsc::channel();
                    *engine.log.flush_gate.lock().unwrap() = Some((etx, rrx));
                    entered_rx = Some(erx);
                    release_tx = Some(rtx);
                }
                5 => {
                    if let Some(rx) = entered_rx.take() {
                        let ok = rx.recv_timeout(std::time::Duration::from_secs(5)).is_ok();
                        engine.log.journal.lock().unwrap().push(format!("-- gate entered: {ok}"));
                    }
                }
                6 => {
                    let l = log.clone();
                    let (p, t, es) = (st[1].as_u64().unwrap(), st[2].as_u64().unwrap(), entries_of(&st[3]));
                    bg = Some(tokio::spawn(async move {
                        let _ = l.filter_out_conflicts_and_append(p, t, es).await;
                    }));
                    for _ in 0..4 {
                        tokio::task::yield_now().await;
                    }
                    engine.log.journal.lock().unwrap().push(format!("-- background filter suspended: durable={} last={}", log.durable_index(), log.last_entry_id()));
                }
                7 => {
                    if let Some(tx) = release_tx.take() {
                        let _ = tx.send(());
                    }
                }
                8 => {
                    if let Some(h) = bg.take() {
                        let _ = h.await;
                        engine.log.journal.lock().unwrap().push(format!("-- background filter done: durable={} last={}", log.durable_index(), log.last_entry_id()));
                    }
                }
                _ => {}
            }
        }
        let _ = log.flush().await;
        for _ in 0..8 {
            tokio::task::yield_now().await;
        }
        let last = log.last_entry_id();
        let mem: Vec<u64> = if last > 0 { log.get_entries_range(0..=last).unwrap().iter().map(|e| e.index).collect() } else { vec![] };
        let disk: Vec<u64> = engine.log.ents.lock().unwrap().keys().copied().collect();
        let j = engine.log.journal.lock().unwrap().clone();
        let d = log.durable_index();
        log.close().await;
        json!([mem, disk, d, j])
    })
}
