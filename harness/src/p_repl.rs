//! probe `repl_leader`: the real ReplicationHandler::prepare_batch_requests over a real BufferedRaftLog.
//! Input: [leader_entries, purge_upto (0 = none), cap, cur_term, commit, [[peer, next]...], n_new]
//! Output: [[ [peer, prev_idx, prev_term, [[idx,term]...], leader_commit] ...sorted by peer ], [snapshot targets sorted], last_index_after]
use crate::sim::*;
use d_engine_core::*;
use d_engine_proto::common::{EntryPayload, LogId, NodeStatus};
use d_engine_proto::common::entry_payload::Payload;
use d_engine_proto::server::cluster::NodeMeta;
use serde_json::{json, Value};
use std::collections::HashMap;
use std::sync::Arc;

pub fn leader(rt: &tokio::runtime::Runtime, case: Value) -> Value {
    let engine = Arc::new(SimEngine::default());
    let log = new_buflog(engine);
    let es = entries_of(&case[0]);
    let purge = case[1].as_u64().unwrap();
    let cap = case[2].as_u64().unwrap();
    let cur_term = case[3].as_u64().unwrap();
    let commit = case[4].as_u64().unwrap();
    let peers: Vec<(u32, u64)> = case[5].as_array().unwrap().iter().map(|p| (p[0].as_u64().unwrap() as u32, p[1].as_u64().unwrap())).collect();
    let n_new = case[6].as_u64().unwrap();
    let mut cfg = base_config();
    cfg.raft.replication.append_entries_max_entries_per_replication = cap;
    let ctx = sim_context(1, log.clone(), cfg);
    let out = rt.block_on(async {
        if !es.is_empty() {
            log.append_entries(es.clone()).await.unwrap();
        }
        if purge > 0 {
            let t = es.iter().find(|e| e.index == purge).map(|e| e.term).unwrap_or(1);
            log.purge_logs_up_to(LogId { index: purge, term: t }).await.unwrap();
        }
        let payloads: Vec<EntryPayload> = (0..n_new)
            .map(|i| EntryPayload { payload: Some(Payload::Command(bytes::Bytes::from((5000 + i).to_le_bytes().to_vec()))) })
            .collect();
        let targets: Vec<NodeMeta> = peers
            .iter()
            .map(|(id, _)| NodeMeta { id: *id, address: format!("127.0.0.1:{}", 9000 + id), role: 1, status: NodeStatus::Active as i32 })
            .collect();
        let next_index: HashMap<u32, u64> = peers.iter().cloned().collect();
        let md = ClusterMetadata { single_voter: false, total_voters: peers.len() + 1, replication_targets: targets };
        let ss = StateSnapshot { role: 3, current_term: cur_term, voted_for: None, commit_index: commit };
        let ls = LeaderStateSnapshot { next_index, match_index: HashMap::new(), noop_log_id: None };
        ctx.replication_handler().prepare_batch_requests(payloads, ss, ls, &md, &ctx).await
    });
    let res = match out {
        Ok(r) => {
            let mut reqs: Vec<(u32, Value)> = r
                .append_requests
                .iter()
                .map(|(p, q)| {
                    let ents: Vec<Value> = q.entries.iter().map(|e| json!([e.index, e.term])).collect();
                    (*p, json!([p, q.prev_log_index, q.prev_log_term, ents, q.leader_commit_index]))
                })
                .collect();
            reqs.sort_by_key(|x| x.0);
            let mut snaps = r.snapshot_targets.clone();
            snaps.sort();
            json!([reqs.into_iter().map(|x| x.1).collect::<Vec<_>>(), snaps, log.last_entry_id()])
        }
        Err(e) => Value::String(format!("ERR {e:?}")),
    };
    rt.block_on(log.close());
    res
}

pub fn resp_json(r: &d_engine_proto::server::replication::AppendEntriesResponse) -> Value {
    use d_engine_proto::server::replication::append_entries_response::Result as R;
    match &r.result {
        Some(R::Success(s)) => json!([0, r.term, lid_json(s.last_match.clone())]),
        Some(R::Conflict(c)) => json!([1, r.term, opt_json(c.conflict_term), opt_json(c.conflict_index)]),
        Some(R::HigherTerm(t)) => json!([2, t]),
        None => json!([9]),
    }
}

/// probe `repl_follower`: real ReplicationHandler::handle_append_entries over a real BufferedRaftLog.
/// Input: [entries, purge, my_term, my_commit, [[term, prev, pterm, entries, leader_commit]...], qmax, tmax]
pub fn follower(rt: &tokio::runtime::Runtime, case: Value) -> Value {
    use d_engine_proto::server::replication::AppendEntriesRequest;
    let engine = Arc::new(SimEngine::default());
    let log = new_buflog(engine);
    let es = entries_of(&case[0]);
    let purge = case[1].as_u64().unwrap();
    let my_term = case[2].as_u64().unwrap();
    let mut commit = case[3].as_u64().unwrap();
    let qmax = case[5].as_u64().unwrap();
    let tmax = case[6].as_u64().unwrap();
    let h = ReplicationHandler::<SimTC>::new(2);
    let mut outs = vec![];
    rt.block_on(async {
        if !es.is_empty() {
            log.append_entries(es.clone()).await.unwrap();
        }
        if purge > 0 {
            let t = es.iter().find(|e| e.index == purge).map(|e| e.term).unwrap_or(1);
            log.purge_logs_up_to(LogId { index: purge, term: t }).await.unwrap();
        }
        for rq in case[4].as_array().unwrap() {
            let req = AppendEntriesRequest {
                term: rq[0].as_u64().unwrap(),
                leader_id: 1,
                prev_log_index: rq[1].as_u64().unwrap(),
                prev_log_term: rq[2].as_u64().unwrap(),
                entries: entries_of(&rq[3]),
                leader_commit_index: rq[4].as_u64().unwrap(),
            };
            let ss = StateSnapshot { role: 1, current_term: my_term, voted_for: None, commit_index: commit };
            match h.handle_append_entries(req, &ss, &log).await {
                Ok(r) => {
                    if let Some(c) = r.commit_index_update {
                        commit = c;
                    }
                    outs.push(json!([resp_json(&r.response), opt_json(r.commit_index_update), crate::p_buflog::observe(&log, qmax, tmax)]));
                }
                Err(e) => outs.push(Value::String(format!("ERR {e:?}"))),
            }
        }
    });
    rt.block_on(log.close());
    Value::Array(outs)
}
