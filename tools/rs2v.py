#!/usr/bin/env python3
"""rs2v — translate a whitelisted, *restricted* subset of Rust functions of /repo into Gallina.

The output (coq/theories/Gen/*.v) is regenerated from /repo's working tree on every run, so the
theorems that mention the generated definitions are re-checked against what the code says now.

Supported subset (everything else is a TranslationError, reported by the driver as a broken tie):
  statements : `if C { return Err(..); }`, `if C { return E; }`, `if C { <only macros> }` (dropped),
               `let x = E;`, `let Path::Variant { a, b } = E;`, `E.validate(args)?;`,
               `validate_directory(&E, "..")?;`, tail `Ok(())` / tail expression, `if C {E} else {E}`
  expressions: integer literals, field paths (self.a.b), locals/params, `! && || == != < <= > >=`,
               `+ - * / %`, `saturating_add/saturating_sub/min/max`, `is_empty()`,
               `(a..=b).contains(&x)`, `as` casts (erased), `&`/`*` borrows (erased)
Semantics of the generated Gallina:
  * every integer is an `N`; a struct value is an environment `g : list string -> N` from field
    paths to values (a nested `self.f.validate()` gets `fun p => g ("f" :: p)`).
  * `Result<()>`-returning functions become `bool` (true = Ok, false = Err; the message is dropped).
  * `a.saturating_add(b)` = `N.min (a + b) (2^64-1)`; plain `+`/`*` are unbounded (the repo builds with
    overflow-checks, a wrap would be a panic, i.e. not an `Ok`), `-` is truncated (`N.sub`).
  * `s.is_empty()` reads the pseudo-field `s.is_empty` (non-zero = empty); `validate_directory(&p,..)?`
    reads the pseudo-field `p.valid_dir` (zero = Err).
"""
import re, sys, os, json

class TranslationError(Exception):
    pass

# ---------------------------------------------------------------- tokenizer
TOK = re.compile(r'''
  (?P<ws>\s+|//[^\n]*|/\*.*?\*/)
 |(?P<str>b?"(?:\\.|[^"\\])*")
 |(?P<num>\d[\d_]*(?:u64|u32|usize|i64|i32|u8|u16)?)
 |(?P<id>[A-Za-z_][A-Za-z0-9_]*!?)
 |(?P<op>\.\.=|\.\.|::|->|=>|==|!=|<=|>=|&&|\|\||[-+*/%<>=!&|.,;:(){}\[\]?#])
''', re.S | re.X)

def tokenize(src):
    out, i = [], 0
    while i < len(src):
        m = TOK.match(src, i)
        if not m:
            raise TranslationError("cannot tokenize at: %r" % src[i:i+40])
        i = m.end()
        k = m.lastgroup
        if k == 'ws':
            continue
        out.append((k, m.group(k)))
    return out

def find_fn_body(src, impl_ty, fn_name):
    """Return (params_text, body_text) of `fn fn_name` inside `impl impl_ty {` (or top level if impl_ty is None)."""
    scope = src
    if impl_ty:
        m = re.search(r'\bimpl(?:<[^>]*>)?\s+' + re.escape(impl_ty) + r'\b[^{;]*\{', src)
        if not m:
            raise TranslationError("impl %s not found" % impl_ty)
        start = m.end() - 1
        end = match_brace(src, start)
        scope = src[start:end + 1]
    m = re.search(r'\bfn\s+' + re.escape(fn_name) + r'\s*(?:<[^>]*>)?\s*\(', scope)
    if not m:
        raise TranslationError("fn %s not found in %s" % (fn_name, impl_ty))
    p0 = m.end() - 1
    p1 = match_paren(scope, p0)
    b0 = scope.index('{', p1)
    b1 = match_brace(scope, b0)
    return scope[p0 + 1:p1], scope[b0 + 1:b1]

def _match(src, i, o, c):
    depth, j, n = 0, i, len(src)
    while j < n:
        ch = src[j]
        if ch == '"':
            j += 1
            while j < n and src[j] != '"':
                j += 2 if src[j] == '\\' else 1
        elif src.startswith('//', j):
            j = src.index('\n', j)
        elif ch == o:
            depth += 1
        elif ch == c:
            depth -= 1
            if depth == 0:
                return j
        j += 1
    raise TranslationError("unbalanced %s" % o)

def match_brace(src, i): return _match(src, i, '{', '}')
def match_paren(src, i): return _match(src, i, '(', ')')

def struct_fields(src, ty):
    m = re.search(r'\bpub\s+struct\s+' + re.escape(ty) + r'\s*\{', src)
    if not m:
        return {}
    b0 = m.end() - 1
    body = src[b0 + 1:match_brace(src, b0)]
    body = re.sub(r'//[^\n]*', '', body)
    body = re.sub(r'#\[[^\]]*\]', '', body, flags=re.S)
    return {f: t.strip() for f, t in re.findall(r'pub(?:\([a-z]+\))?\s+([a-z_0-9]+)\s*:\s*([^,\n]+)', body)}

# ---------------------------------------------------------------- parser
class P:
    def __init__(self, toks):
        self.t, self.i = toks, 0
    def peek(self, k=0):
        return self.t[self.i + k] if self.i + k < len(self.t) else ('eof', '')
    def next(self):
        x = self.peek(); self.i += 1; return x
    def accept(self, v):
        if self.peek()[1] == v:
            self.i += 1; return True
        return False
    def expect(self, v):
        if not self.accept(v):
            raise TranslationError("expected %r, got %r (context: %s)" % (v, self.peek()[1], ' '.join(x[1] for x in self.t[max(0, self.i-6):self.i+4])))
    def skip_balanced(self, o, c):
        self.expect(o); d = 1
        while d:
            k, v = self.next()
            if k == 'eof': raise TranslationError("unbalanced")
            if v == o: d += 1
            elif v == c: d -= 1

    # block := stmt* [tail]
    def block(self):
        stmts = []
        while self.peek()[0] != 'eof' and self.peek()[1] != '}':
            stmts.append(self.stmt())
        return stmts

    def stmt(self):
        k, v = self.peek()
        if v == 'let':
            self.next()
            if self.peek(1)[1] == '::' or self.peek(1)[1] == '{':
                # let Path::Variant { a, b } = E;
                while self.peek()[1] != '{': self.next()
                self.expect('{'); names = []
                while not self.accept('}'):
                    names.append(self.next()[1]); self.accept(',')
                self.expect('='); e = self.expr(); self.expect(';')
                return ('letfields', names, e)
            self.accept('mut')
            name = self.next()[1]
            if self.accept(':'):
                while self.peek()[1] != '=': self.next()
            self.expect('='); e = self.expr(); self.expect(';')
            return ('let', name, e)
        if v == 'if':
            self.next(); c = self.expr(nostruct=True); self.expect('{')
            body = self.block(); self.expect('}')
            if self.accept('else'):
                if self.peek()[1] == 'if':
                    els = [self.stmt()]
                else:
                    self.expect('{'); els = self.block(); self.expect('}')
                return ('ifelse', c, body, els)
            return ('if', c, body)
        if v == 'return':
            self.next(); e = self.expr(); self.accept(';')
            return ('return', e)
        if k == 'id' and v.endswith('!'):
            self.next()
            o = self.peek()[1]; self.skip_balanced(o, {'(': ')', '[': ']', '{': '}'}[o]); self.accept(';')
            return ('nop',)
        e = self.expr()
        if self.accept(';'):
            return ('expr', e)
        return ('tail', e)

    def expr(self, nostruct=False): return self.p_or()
    def p_or(self):
        a = self.p_and()
        while self.accept('||'): a = ('or', a, self.p_and())
        return a
    def p_and(self):
        a = self.p_cmp()
        while self.accept('&&'): a = ('and', a, self.p_cmp())
        return a
    def p_cmp(self):
        a = self.p_add()
        v = self.peek()[1]
        if v in ('==', '!=', '<', '<=', '>', '>='):
            self.next(); return ('cmp', v, a, self.p_add())
        return a
    def p_add(self):
        a = self.p_mul()
        while self.peek()[1] in ('+', '-'):
            op = self.next()[1]; a = ('bin', op, a, self.p_mul())
        return a
    def p_mul(self):
        a = self.p_unary()
        while self.peek()[1] in ('*', '/', '%'):
            op = self.next()[1]; a = ('bin', op, a, self.p_unary())
        return a
    def p_unary(self):
        if self.accept('!'): return ('not', self.p_unary())
        if self.accept('&'): self.accept('mut'); return self.p_unary()
        if self.accept('*'): return self.p_unary()
        return self.p_post()
    def p_post(self):
        a = self.p_atom()
        while True:
            if self.accept('.'):
                name = self.next()[1]
                if self.peek()[1] == '(':
                    args = self.args(); a = ('call', a, name, args)
                else:
                    a = ('field', a, name)
            elif self.accept('?'):
                a = ('try', a)
            elif self.peek()[1] == 'as':
                self.next(); self.next()
            else:
                return a
    def args(self):
        self.expect('('); out = []
        while not self.accept(')'):
            out.append(self.expr()); self.accept(',')
        return out
    def p_atom(self):
        k, v = self.next()
        if k == 'num':
            return ('num', int(re.sub(r'[_a-z].*$', '', v.replace('_', '')) if False else re.match(r'[\d_]+', v).group(0).replace('_', '')))
        if k == 'str': return ('str', v)
        if v == '(':
            if self.accept(')'): return ('unit',)
            e = self.expr()
            if self.accept('..='):
                hi = self.expr(); self.expect(')'); return ('range', e, hi)
            self.expect(')'); return e
        if k == 'id':
            path = [v]
            while self.accept('::'): path.append(self.next()[1])
            if v.endswith('!'):
                o = self.peek()[1]; self.skip_balanced(o, {'(': ')', '[': ']', '{': '}'}[o])
                return ('macro', v)
            if self.peek()[1] == '(':
                args = self.args(); return ('fcall', path, args)
            if len(path) > 1: return ('path', path)
            return ('var', v)
        raise TranslationError("unexpected token %r" % v)

# ---------------------------------------------------------------- printer
U64MAX = "18446744073709551615"

class Tr:
    """Translate one function; `self` is an environment g."""
    def __init__(self, ctx, self_ty, params):
        self.ctx, self.self_ty, self.params = ctx, self_ty, params
        self.locals = {}
        self.notes = []

    def path_of(self, e):
        """field path rooted at self -> list of names, else None"""
        if e[0] == 'var' and e[1] == 'self': return []
        if e[0] == 'field':
            p = self.path_of(e[1])
            if p is not None: return p + [e[2]]
        return None

    def gpath(self, p):
        return '(g [%s])' % '; '.join('"%s"' % x for x in p)

    def num(self, e):
        k = e[0]
        if k == 'num': return str(e[1])
        if k == 'var':
            if e[1] in self.locals: return self.locals[e[1]]
            if e[1] in self.params: return e[1]
            raise TranslationError("unknown variable %s" % e[1])
        if k == 'field':
            p = self.path_of(e)
            if p is None: raise TranslationError("field access on non-self value")
            return self.gpath(p)
        if k == 'bin':
            op = {'+': 'N.add', '-': 'N.sub', '*': 'N.mul', '/': 'N.div', '%': 'N.modulo'}[e[1]]
            if e[1] in '+*-': self.notes.append("plain `%s` translated without overflow/underflow check" % e[1])
            return '(%s %s %s)' % (op, self.num(e[2]), self.num(e[3]))
        if k == 'call':
            recv, name, args = e[1], e[2], e[3]
            if name == 'saturating_add': return '(N.min (N.add %s %s) %s)' % (self.num(recv), self.num(args[0]), U64MAX)
            if name == 'saturating_sub': return '(N.sub %s %s)' % (self.num(recv), self.num(args[0]))
            if name == 'min': return '(N.min %s %s)' % (self.num(recv), self.num(args[0]))
            if name == 'max': return '(N.max %s %s)' % (self.num(recv), self.num(args[0]))
            if name in ('len',):
                p = self.path_of(recv)
                if p is not None: return self.gpath(p + ['len'])
            raise TranslationError("unsupported numeric method %s" % name)
        raise TranslationError("unsupported numeric expression %r" % (e,))

    def boolean(self, e):
        k = e[0]
        if k == 'cmp':
            op, a, b = e[1], self.num(e[2]), self.num(e[3])
            return {'==': '(N.eqb %s %s)', '!=': '(negb (N.eqb %s %s))', '<': '(N.ltb %s %s)',
                    '<=': '(N.leb %s %s)', '>': '(N.ltb %s %s)', '>=': '(N.leb %s %s)'}[op] % ((b, a) if op in ('>', '>=') else (a, b))
        if k == 'not': return '(negb %s)' % self.boolean(e[1])
        if k == 'and': return '(andb %s %s)' % (self.boolean(e[1]), self.boolean(e[2]))
        if k == 'or': return '(orb %s %s)' % (self.boolean(e[1]), self.boolean(e[2]))
        if k == 'call':
            recv, name, args = e[1], e[2], e[3]
            if name == 'is_empty':
                p = self.path_of(recv)
                if p is None: raise TranslationError("is_empty on non-field")
                return '(negb (N.eqb %s 0))' % self.gpath(p + ['is_empty'])
            if name == 'contains' and recv[0] == 'range':
                x = self.num(args[0])
                return '(andb (N.leb %s %s) (N.leb %s %s))' % (self.num(recv[1]), x, x, self.num(recv[2]))
            if name == 'is_multiple_of':
                return '(N.eqb (N.modulo %s %s) 0)' % (self.num(recv), self.num(args[0]))
        if k == 'var' and e[1] in ('true', 'false'): return e[1]
        raise TranslationError("unsupported boolean expression %r" % (e,))

    def is_err(self, e):
        return (e[0] == 'fcall' and e[1][-1] == 'Err')

    def only_nops(self, body):
        return all(s[0] == 'nop' for s in body)

    def result_block(self, stmts):
        """Result<()> function body -> Gallina bool expression (true = Ok)."""
        if not stmts:
            raise TranslationError("function falls off the end without Ok(())")
        s, rest = stmts[0], stmts[1:]
        k = s[0]
        if k == 'nop': return self.result_block(rest)
        if k == 'let':
            v = self.num(s[2]); name = 'v_' + s[1]
            self.locals[s[1]] = name
            return 'let %s := %s in\n  %s' % (name, v, self.result_block(rest))
        if k == 'letfields':
            p = self.path_of(s[2])
            if p is None: raise TranslationError("destructuring let of a non-field")
            for n in s[1]: self.locals[n] = self.gpath(p + [n])
            return self.result_block(rest)
        if k == 'if':
            if self.only_nops(s[2]): return self.result_block(rest)
            if len(s[2]) == 1 and s[2][0][0] == 'return' and self.is_err(s[2][0][1]):
                return 'if %s then false else\n  %s' % (self.boolean(s[1]), self.result_block(rest))
            raise TranslationError("unsupported if-body in Result function")
        if k == 'expr':
            e = s[1]
            if e[0] == 'try':
                return 'if negb %s then false else\n  %s' % (self.result_call(e[1]), self.result_block(rest))
            raise TranslationError("unsupported expression statement")
        if k == 'tail':
            e = s[1]
            if e[0] == 'fcall' and e[1] == ['Ok'] : return 'true'
            if self.is_err(e): return 'false'
            return self.result_call(e)
        if k == 'return':
            if self.is_err(s[1]): return 'false'
            if s[1][0] == 'fcall' and s[1][1] == ['Ok']: return 'true'
        raise TranslationError("unsupported statement %r" % (s,))

    def result_call(self, e):
        if e[0] == 'call' and e[2] == 'validate':
            p = self.path_of(e[1])
            if p is None: raise TranslationError("validate() on non-field")
            ty = self.ctx.type_of(self.self_ty, p)
            fn = self.ctx.require(ty, 'validate')
            args = ' '.join(self.num(a) for a in e[3])
            env = 'g' if not p else '(fun p => g (%s p))' % ''.join('"%s" :: ' % x for x in p).rstrip()
            if p: env = '(fun p => g (%s))' % (' :: '.join('"%s"' % x for x in p) + ' :: p')
            return '(%s %s%s)' % (fn, env, (' ' + args) if args else '')
        if e[0] == 'fcall' and e[1] == ['validate_directory']:
            p = self.path_of(e[2][0])
            if p is None: raise TranslationError("validate_directory on non-field")
            return '(negb (N.eqb %s 0))' % self.gpath(p + ['valid_dir'])
        raise TranslationError("unsupported Result call %r" % (e,))

    def value_block(self, stmts, kind):
        """function returning bool or integer: lets, early returns, tail expression"""
        if not stmts: raise TranslationError("missing tail expression")
        s, rest = stmts[0], stmts[1:]
        k = s[0]
        ex = self.boolean if kind == 'bool' else self.num
        if k == 'nop': return self.value_block(rest, kind)
        if k == 'let':
            try: v = self.num(s[2])
            except TranslationError: v = self.boolean(s[2])
            name = 'v_' + s[1]; self.locals[s[1]] = name
            return 'let %s := %s in\n  %s' % (name, v, self.value_block(rest, kind))
        if k == 'if':
            if self.only_nops(s[2]): return self.value_block(rest, kind)
            return 'if %s then %s else\n  %s' % (self.boolean(s[1]), self.value_block(s[2], kind), self.value_block(rest, kind))
        if k == 'ifelse':
            return '(if %s then %s else %s)' % (self.boolean(s[1]), self.value_block(s[2], kind), self.value_block(s[3], kind))
        if k in ('tail', 'return'): return ex(s[1])
        raise TranslationError("unsupported statement %r" % (s,))

class Ctx:
    def __init__(self, repo):
        self.repo = repo
        self.srcs = {}
        self.defs = []      # (name, text)
        self.done = {}
        self.where = {}     # type -> file
        self.notes = []
    def src(self, rel):
        if rel not in self.srcs:
            self.srcs[rel] = open(os.path.join(self.repo, rel)).read()
        return self.srcs[rel]
    def register(self, ty, rel): self.where[ty] = rel
    def type_of(self, ty, path):
        for f in path:
            fields = struct_fields(self.src(self.where[ty]), ty)
            if f not in fields: raise TranslationError("no field %s in %s" % (f, ty))
            ty = fields[f]
        return ty
    def require(self, ty, fn):
        key = (ty, fn)
        if key in self.done: return self.done[key]
        if ty not in self.where: raise TranslationError("type %s not whitelisted" % ty)
        name = '%s_%s' % (ty, fn)
        self.done[key] = name
        params_txt, body = find_fn_body(self.src(self.where[ty]), ty, fn)
        params = [p.split(':')[0].strip() for p in params_txt.split(',') if ':' in p and 'self' not in p.split(':')[0]]
        tr = Tr(self, ty, params)
        stmts = P(tokenize(body)).block()
        text = tr.result_block(stmts)
        self.notes += ['%s: %s' % (name, n) for n in sorted(set(tr.notes))]
        self.defs.append((name, 'Definition %s (g : list string -> N)%s : bool :=\n  %s.' % (
            name, ''.join(' (%s : N)' % p for p in params), text)))
        return name
    def pure_fn(self, rel, impl_ty, fn, kind, name=None):
        params_txt, body = find_fn_body(self.src(rel), impl_ty, fn)
        params = [p.split(':')[0].strip() for p in params_txt.split(',') if ':' in p and 'self' not in p.split(':')[0]]
        tr = Tr(self, impl_ty, params)
        stmts = P(tokenize(body)).block()
        text = tr.value_block(stmts, kind)
        name = name or fn
        uses_g = '(g [' in text
        self.notes += ['%s: %s' % (name, n) for n in sorted(set(tr.notes))]
        self.defs.append((name, 'Definition %s%s%s : %s :=\n  %s.' % (
            name, ' (g : list string -> N)' if uses_g else '', ''.join(' (%s : N)' % p for p in params),
            'bool' if kind == 'bool' else 'N', text)))
        return name

HEADER = """(* GENERATED by /verif/tools/rs2v.py from /repo's working tree — do not edit. *)
From Coq Require Import NArith List String Bool.
Import ListNotations.
Open Scope string_scope.
Open Scope N_scope.
"""

def gen_config(repo):
    c = Ctx(repo)
    raft = 'd-engine-core/src/config/raft.rs'
    for ty in ['RaftConfig', 'ReadActorConfig', 'ReplicationConfig', 'BatchingConfig', 'ElectionConfig',
               'MembershipConfig', 'StateMachineConfig', 'SnapshotConfig', 'PersistenceConfig',
               'ReadConsistencyConfig', 'WatchConfig']:
        c.register(ty, raft)
    c.register('LeaseConfig', 'd-engine-core/src/config/lease.rs')
    c.require('RaftConfig', 'validate')
    return HEADER + '\n' + '\n\n'.join(t for _, t in c.defs) + '\n', c.notes

def write_if_changed(path, text):
    old = open(path).read() if os.path.exists(path) else None
    if old != text:
        os.makedirs(os.path.dirname(path), exist_ok=True)
        open(path, 'w').write(text)
        return True
    return False

def main():
    repo = sys.argv[1] if len(sys.argv) > 1 else '/repo'
    out = sys.argv[2] if len(sys.argv) > 2 else '/verif/coq/theories/Gen'
    status = {}
    for fname, gen in [('Config.v', gen_config)]:
        try:
            text, notes = gen(repo)
            status[fname] = {'ok': True, 'changed': write_if_changed(os.path.join(out, fname), text), 'notes': notes}
        except (TranslationError, OSError, KeyError, IndexError) as ex:
            status[fname] = {'ok': False, 'error': '%s: %s' % (type(ex).__name__, ex)}
    print(json.dumps(status))
    return 0 if all(s['ok'] for s in status.values()) else 2

if __name__ == '__main__':
    sys.exit(main())
