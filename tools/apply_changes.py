#!/usr/bin/env python3
"""apply_changes.py <block> <commit> — copy files of incoming/<block> into place and merge known_findings.change.json
(entries replace the existing (property, class) entries; '<commit>' placeholders get the given hash)."""
import sys, os, shutil, json
blk, commit = sys.argv[1], sys.argv[2]
src = '/verif/incoming/' + blk
for sub in ('coq', 'harness', 'props', 'dvlib'):
    for root, _, files in os.walk(os.path.join(src, sub)):
        for f in files:
            s = os.path.join(root, f); d = os.path.join('/verif', os.path.relpath(s, src))
            if os.path.basename(d) in ('main.rs', '_CoqProject', 'Makefile', 'Makefile.conf', 'core.py', 'Cargo.toml'): continue
            os.makedirs(os.path.dirname(d), exist_ok=True); shutil.copy2(s, d); print('copied', d)
kf = os.path.join(src, 'known_findings.change.json')
if os.path.exists(kf):
    ch = json.load(open(kf))
    if isinstance(ch, dict): ch = ch.get('entries') or ch.get('fixed') or [ch]
    k = json.load(open('/verif/known_findings.json'))
    for e in ch:
        if not isinstance(e, dict) or 'property' not in e: continue
        e = json.loads(json.dumps(e).replace('<commit>', commit))
        k = [x for x in k if not (x['property'] == e['property'] and x['class'] == e['class'])]
        k.append(e)
    json.dump(k, open('/verif/known_findings.json', 'w'), indent=1); print('known findings:', len(k))
