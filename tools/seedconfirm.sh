#!/bin/bash
mkdir -p /tmp/seed   # lock files of the helper scripts live here (not used by any registered command)
# seedconfirm.sh <Cxx> — in the scratch worktree /tmp/seed/<Cxx> (patch applied by its author): run the demonstration with
# the change (must fail) and without it (must pass), then restore the change. Prints WITH=<rc> WITHOUT=<rc>.
ID=$1; WT=/tmp/seed/$ID
cd $WT || exit 2
export CARGO_TARGET_DIR=${SEEDTARGET:-/tmp/seedtarget} CARGO_NET_OFFLINE=true
git diff -- . ':!SEED' > /tmp/seed/$ID.current.diff
sh SEED/demo/run.sh > SEED/confirm_with.log 2>&1; W=$?
git apply -R SEED/patch.diff || { echo "cannot revert patch"; exit 3; }
git diff --name-only | xargs -r touch; git ls-files -m | xargs -r touch
sh SEED/demo/run.sh > SEED/confirm_without.log 2>&1; WO=$?
git apply SEED/patch.diff
git ls-files -m | xargs -r touch
echo "$ID WITH=$W WITHOUT=$WO"
