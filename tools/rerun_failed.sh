#!/bin/bash
mkdir -p /tmp/seed   # lock files of the helper scripts live here (not used by any registered command)
# rerun_failed.sh <log> [tries] — re-run every RETRY-FAIL test of a tools/baseline.sh log alone, up to <tries> times
# (default 3); prints STILL-FAIL <name> for the ones that never pass. Run in the tree given by BASEDIR (default /repo).
LOG=$1; N=${2:-3}
cd ${BASEDIR:-/repo}
grep '^RETRY-FAIL' "$LOG.retry" | while read -r _ bin name; do
  ok=0
  for i in $(seq $N); do
    if flock /tmp/seed/suite.lock timeout 900 cargo nextest run --workspace --tool-config-file pb:/w/lib/nextest.toml --profile pb --offline -E "test(=$name)" >> "$LOG.rerun" 2>&1; then ok=1; break; fi
  done
  [ $ok = 1 ] && echo "PASS-ON-RERUN($i) $name" || echo "STILL-FAIL $name"
done
