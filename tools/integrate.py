#!/usr/bin/env python3
"""integrate.py <block> --coq f1.v f2.v ... --mods p_x ... --arms '"name" => p_x::f(rt, case)' ...
Copies /verif/incoming/<block>/{coq,harness,props} into place and registers files."""
import sys, os, shutil, json, re
blk = sys.argv[1]; args = sys.argv[2:]
sec = None; coq = []; mods = []; arms = []
for a in args:
    if a in ('--coq', '--mods', '--arms'): sec = a; continue
    {'--coq': coq, '--mods': mods, '--arms': arms}[sec].append(a)
src = '/verif/incoming/' + blk
for sub in ('coq', 'harness', 'props', 'dvlib'):
    for root, _, files in os.walk(os.path.join(src, sub)):
        for f in files:
            s = os.path.join(root, f); d = os.path.join('/verif', os.path.relpath(s, src))
            if os.path.basename(d) in ('main.rs', '_CoqProject', 'Makefile', 'Makefile.conf'): continue
            os.makedirs(os.path.dirname(d), exist_ok=True); shutil.copy2(s, d); print('copied', d)
p = '/verif/coq/_CoqProject'; s = open(p).read()
for f in coq:
    if f not in s: s += f + '\n'
open(p, 'w').write(s)
p = '/verif/harness/src/main.rs'; s = open(p).read()
for m in mods:
    if 'mod %s;' % m not in s: s = s.replace('mod sim;', 'mod sim;\nmod %s;' % m)
for a in arms:
    if a not in s: s = s.replace('        "majority" =>', '        %s,\n        "majority" =>' % a)
open(p, 'w').write(s)
kf = os.path.join(src, 'known_findings.add.json')
if os.path.exists(kf):
    k = json.load(open('/verif/known_findings.json')); add = json.load(open(kf))
    have = {(x['property'], x['class']) for x in k}
    k += [x for x in add if (x['property'], x['class']) not in have]
    json.dump(k, open('/verif/known_findings.json', 'w'), indent=1); print('known findings now', len(k))
