#!/usr/bin/env python3
"""seedstore.py <Cxx> <needs> <ran> <caught-by json> — copy a confirmed seeded change into /verif/seeded/<id>/."""
import sys, os, shutil, json
pid, needs, ran, caught = sys.argv[1], sys.argv[2], sys.argv[3], json.loads(sys.argv[4])
src = '/tmp/seed/%s/SEED' % pid; dst = '/verif/seeded/%s' % pid
os.makedirs(dst, exist_ok=True)
shutil.copy2(os.path.join(src, 'patch.diff'), os.path.join(dst, 'patch.diff'))
if os.path.exists(os.path.join(dst, 'demo')): shutil.rmtree(os.path.join(dst, 'demo'))
shutil.copytree(os.path.join(src, 'demo'), os.path.join(dst, 'demo'))
for f in ('NOTES.md', 'confirm_with.log', 'confirm_without.log'):
    if os.path.exists(os.path.join(src, f)):
        data = open(os.path.join(src, f), errors='replace').read()
        open(os.path.join(dst, f), 'w').write(data[-6000:] if f.endswith('.log') else data)
json.dump({'property': pid, 'breaks': pid, 'needs_to_manifest': needs, 'what_was_run': ran, 'caught_by': caught,
           'written_by': 'independent sub-agent given only the property text and a scratch worktree of /repo'},
          open(os.path.join(dst, 'meta.json'), 'w'), indent=1)
print('stored', dst)
