#!/bin/bash
mkdir -p /tmp/seed   # lock files of the helper scripts live here (not used by any registered command)
# Run the repository's pinned baseline (guard off) and re-run failures once, alone, to separate
# load-induced flakiness from real regressions. Usage: tools/baseline.sh <logfile>
LOG=${1:-/verif/build/baseline.log}
cd ${BASEDIR:-/repo}
flock /tmp/seed/suite.lock timeout 3000 cargo nextest run --workspace --no-fail-fast --tool-config-file pb:/w/lib/nextest.toml --profile pb --test-threads 8 --offline > "$LOG" 2>&1
grep -E '^\s+(FAIL|SIGABRT|SIGSEGV|TIMEOUT)' "$LOG" | sed -E 's/.*\) //' | sort -u > "$LOG.failed"
grep -E 'Summary' "$LOG" >> "$LOG.summary"
: > "$LOG.retry"
while read -r bin name; do
  case "$name" in *test_create_parent_dir_fails_when_permission_denied|*test_delete_permission_denied) continue;; esac
  t=${name##*::}
  if flock /tmp/seed/suite.lock timeout 600 cargo nextest run --workspace --tool-config-file pb:/w/lib/nextest.toml --profile pb --offline -E "test(=$name)" >> "$LOG.retrylog" 2>&1; then
    echo "RETRY-PASS $bin $name" >> "$LOG.retry"
  else
    echo "RETRY-FAIL $bin $name" >> "$LOG.retry"
  fi
done < "$LOG.failed"
echo "DONE" >> "$LOG.retry"
