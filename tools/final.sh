#!/bin/bash
# final.sh — regenerate every evidence file from the unchanged /repo with the default seed, validate, regenerate
# MANIFEST.json and DESIGN.md. Prints one line per check.
cd /verif
if [ -n "$(git -C /repo status --short | grep -v '^??')" ]; then echo "/repo is not clean"; exit 2; fi
unset VERIF_SEED VERIF_TIER
for i in $(seq -w 1 37); do p=C$i
  out=$(./dv check $p 2>&1); rc=$?
  echo "$p rc=$rc $(echo "$out" | grep -c '^KNOWN-FINDING') known $(echo "$out" | grep -m1 -E '^(VIOLATION|UNREPRODUCED)' | cut -c1-160)"
done
./dv manifest > /dev/null && python3 tools/gen_design.py | tail -1
python3-vt - <<'PY'
import json, jsonschema, glob
m=json.load(open('/verif/MANIFEST.json')); jsonschema.validate(m, json.load(open('/root/.vp/MANIFEST.schema.json')))
es=json.load(open('/root/.vp/EVIDENCE.schema.json')); cat={c['property_id']:c['level_claimed']['category'] for c in m['checks']}
bad=0
for f in sorted(glob.glob('/verif/evidence/C*.json')):
    e=json.load(open(f)); jsonschema.validate(e, es); c=e['coverage']
    if e['level']!=cat[e['property_id']] or e.get('violations') or e.get('seed')!=1 or c.get('obligations',0)<1 or c.get('discharged',0)<1 or not c.get('checker_cmd'): print('BAD', f); bad+=1
print('manifest+evidence ok' if not bad else 'PROBLEMS')
PY
