#!/bin/bash
mkdir -p /tmp/seed   # lock files of the helper scripts live here (not used by any registered command)
# seedcheck.sh <patch.diff> <Cxx> [Cyy ...] — apply a seeded change to /repo, run the named quick checks, undo it.
# Prints one line per check: <id> exit=<code> <first VIOLATION / KNOWN line>
PATCH=$(readlink -f "$1"); shift
# /repo is shared: hold the lock while a seeded change is applied
exec 9>/tmp/seed/repo.lock; flock 9
cd /repo || exit 2
if ! git apply --check "$PATCH" 2>/dev/null; then
  if ! git apply -3 --check "$PATCH" 2>/dev/null; then echo "PATCH-DOES-NOT-APPLY $PATCH"; exit 3; fi
  git apply -3 "$PATCH"
else
  git apply "$PATCH"
fi
# make sure cargo notices the change (mtime)
git diff --name-only | xargs -r touch
cd /verif
# evidence written while a seeded change is applied must not survive: keep the real files aside
rm -rf /verif/build/evidence.keep; cp -r /verif/evidence /verif/build/evidence.keep
for p in "$@"; do
  out=$(./dv check "$p" 2>&1); code=$?
  echo "$p exit=$code $(echo "$out" | grep -m1 '^VIOLATION' | cut -c1-200)"
  for f in $(echo "$out" | grep '^VIOLATION' | sed -E 's/.*replay=([^ ]+).*/\1/' | head -2); do
     python3 -c "import json,sys; r=json.load(open('$f')); print('   ', r.get('kind'), r.get('class'), (r.get('why') or str([b['name'] for b in r.get('broken',[])]))[:260])"
  done
done
rm -rf /verif/evidence; mv /verif/build/evidence.keep /verif/evidence
cd /repo && git checkout -- . && git status --short | grep -v '^??' | head -3
git diff --name-only HEAD | xargs -r touch
