"""C04 — log matching."""
import os
from dvlib import cluster, core

ID = 'C04'
PROPS_FILE = 'theories/props/Properties_C04.v'
CONE = ['theories/AbstractRaft.v', 'theories/proofs/AR_election.v', 'theories/proofs/AR_logs.v']
ORACLES = [cluster.log_matching]
HAVE = os.path.exists(os.path.join(core.COQ, PROPS_FILE))

def check(run):
    if not HAVE: run.level = 'exploration'
    run.cov['trusted_base'] += [
        "refinement check (dvlib/refine.py + DE.ARExec): every simulated execution is replayed inside Coq, label by label, as an execution of DE.AbstractRaft from ainit (aexec, proved sound w.r.t. astep: Refine_exec_sound / Refine_trace_reaches) and the abstract state is compared with the observed terms (concrete = abstract + 1), logs and commit indexes of all nodes after every step; trusted: the observation function (obs_matches, highest-commit-index-held for a restarted node) and the probe; the label reconstruction is only a proposal that Coq accepts or refuses; steps without abstract counterpart are counted per documented class in evidence.outside_abstract_system",
        "abstract system DE.AbstractRaft (log matching proved there for every reachable state); the concrete handlers meet its guards by the node-level theorems C08 (contiguous requests cut from the leader's log), C19 (buffered log = plain log), C07 (follower step) — the refinement cluster -> abstract system is validated on simulated executions, not proved",
        "cluster simulator: real Raft objects and BufferedRaftLog; payload identity = CRC32 of the command bytes",
    ]
    run.assumptions += ["static membership; snapshot install / purge not exercised in the simulator (see C33)"]
    return cluster.check_cluster_property(run, PROPS_FILE if HAVE else None, CONE, ORACLES, kills=False, node_level=False, quick=(200, 60), thorough=(2000, 90), refine=True)

def replay(path): return cluster.replay_cluster(path, ORACLES)

META = {
    'title': 'Log matching',
    'level': 'proof' if HAVE else 'exploration',
    'technique': 'Rocq: log matching invariant of the abstract Raft system (entries of a term come from that term\'s leader log, which is append-only) + safety oracle on simulated clusters of real Raft nodes',
    'text': "Rocq (AR log_matching): in every reachable state of DE.AbstractRaft, two logs holding an entry of the same index and term are identical up to that index. The concrete code meets the system's guards by C08/C19/C07 (node level). On every run 3-/5-node clusters of real Raft objects are driven through seeded fault schedules and directed scenarios (isolated leader with uncommitted entries rejoining, lagging follower with a small per-request cap, duplicated and delayed requests), and log matching + gap-freeness are evaluated on all node logs after every step.",
    'note': "Trusted: Coq kernel; the mapping from the concrete cluster to AbstractRaft is argued, not proved. Snapshot install and restart-from-disk are not part of the simulated executions.",
    'design_ref': 'DESIGN.md §4 C04',
}
