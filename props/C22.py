"""C22 — key-value commands have the documented semantics on every engine."""
import json, itertools
from dvlib import core, flow
from dvlib.core import Broken

ID = 'C22'
PROPS_FILE = 'theories/props/Properties_C22.v'
CONE = ['theories/KV.v', 'theories/proofs/C22.v']
IMPORTS = 'From DE Require Import KV.'

KEYS = [[1], [1, 2], [], [2], [1, 255], [255], [255, 255], [1, 2, 3]]
VALS = [[7], [], [0], [1, 2]]
PREFIXES = [[], [1], [1, 2], [255], [255, 255], [1, 255], [3], [1, 2, 3, 4]]

def all_chunkings(n):
    """every split of n commands into non-empty consecutive chunks"""
    if n == 0: return [[]]
    res = []
    for mask in range(1 << (n - 1)):
        sizes = []; cur = 1
        for i in range(n - 1):
            if mask >> i & 1: sizes.append(cur); cur = 1
            else: cur += 1
        sizes.append(cur); res.append(sizes)
    return res

def alphabet(keys, vals):
    cs = []
    for k in keys:
        for v in vals: cs.append([0, k, v])
        cs.append([1, k])
        for e in [[]] + [[v] for v in vals]:
            for v in vals: cs.append([2, k, e, v])
    cs.append([3])
    return cs

def gen_cases(run, thorough):
    r = run.rng('kv'); cases = []; dist = {}
    def tag(t, n=1): dist[t] = dist.get(t, 0) + n
    def add(cmds, chunkings, keys, prefixes, fresh, t):
        cases.append([cmds, chunkings, keys, prefixes, fresh]); tag(t); tag('runs(chunkings x 2 engines)', 2 * len(chunkings))
        for c in cmds: tag('cmd-' + ['put', 'delete', 'cas', 'noop'][c[0]])
    small_k = [[1], [1, 2]]; small_v = [[7], []]
    alpha = alphabet(small_k, small_v)
    obs_k = [[1], [1, 2], [2], [1], []]                  # duplicates and a missing key in get_multi
    obs_p = [[1], [1, 2], [2], []]
    # exhaustive small scope: every sequence over 2 keys x 2 values (one of them the empty value) of length <= 2, every chunking
    for n in (0, 1, 2):
        for seq in itertools.product(alpha, repeat=n):
            add(list(seq), all_chunkings(n), obs_k, obs_p, 0, 'exhaustive-len<=2')
    # length 3 (thorough: all 6859; quick: a seeded sample), every chunking
    seqs3 = list(itertools.product(alpha, repeat=3))
    if not thorough: seqs3 = [seqs3[r.below(len(seqs3))] for _ in range(500)]
    for seq in seqs3: add(list(seq), all_chunkings(3), obs_k, obs_p, 0, 'small-alphabet-len3')
    # CAS-heavy sequences of length 4..6 over the small alphabet, every chunking (<= 32)
    casa = [c for c in alpha if c[0] == 2]
    for _ in range(4000 if thorough else 400):
        n = r.range(4, 6)
        seq = [r.choice(casa) if r.chance(1, 2) else r.choice(alpha) for _ in range(n)]
        add(seq, all_chunkings(n), obs_k, obs_p, 0, 'cas-heavy-len4-6')
    # long sequences over the wide alphabet (empty key, 0xFF bytes, empty value), a few chunkings incl. empty chunks
    wide = alphabet(KEYS, VALS)
    for i in range(1500 if thorough else 150):
        n = r.range(7, 30)
        ks = r.shuffle(KEYS)[:r.range(2, 5)]
        sub = [c for c in wide if c[0] == 3 or c[1] in ks]
        seq = [r.choice(sub) for _ in range(n)]
        chunkings = [[n], [1] * n]
        for _ in range(3):
            sizes = []; left = n
            while left > 0:
                s = r.range(0, min(left, 6)); sizes.append(s); left -= s
            chunkings.append(sizes)
        obs = [r.choice(KEYS) for _ in range(r.range(0, 6))]
        add(seq, chunkings, obs, r.shuffle(PREFIXES)[:5] + [[]], 1 if i % 10 == 0 else 0, 'wide-alphabet-long')
    return cases, dist

# ---- the property, evaluated on the implementation's outputs ----
def reference(cmds):
    st = {}; flags = []
    for c in cmds:
        if c[0] == 0: st[tuple(c[1])] = c[2]; flags.append(1)
        elif c[0] == 1: st.pop(tuple(c[1]), None); flags.append(1)
        elif c[0] == 2:
            cur = st.get(tuple(c[1])); exp = c[2][0] if c[2] else None
            if cur == exp: st[tuple(c[1])] = c[3]; flags.append(1)
            else: flags.append(0)
        else: flags.append(1)
    return st, flags

def oracle(case, out):
    """returns (class, why) or None"""
    cmds, chunkings, keys, prefixes, _ = case
    st, flags = reference(cmds)
    opt = lambda k: [st[tuple(k)]] if tuple(k) in st else []
    gets = [opt(k) for k in keys]
    scans = [sorted([[list(k), v] for k, v in st.items() if list(k[:len(p)]) == p]) for p in prefixes]
    if len(out) != len(chunkings): return ('shape', 'one observation per chunking expected')
    for sizes, obs in zip(chunkings, out):
        for eng, o in zip(('file', 'rocksdb'), obs):
            f, g, m, s = o
            where = '%s engine, chunk sizes %s' % (eng, sizes)
            if f != flags: return ('apply-result-flags', '%s: success flags %s, reference %s' % (where, f, flags))
            if g != gets: return ('contents', '%s: get returns %s, reference %s' % (where, g, gets))
            if m != gets: return ('get-multi', '%s: get_multi returns %s for keys %s, reference %s' % (where, m, keys, gets))
            for p, got, want in zip(prefixes, s, scans):
                if p == []:
                    # the empty prefix: the trait documents "all pairs whose key starts with prefix" (= everything), the RocksDB
                    # engine deliberately returns nothing; either convention is accepted here, the engines must agree (below)
                    if got != want and got != []:
                        return ('scan-prefix', '%s: scan_prefix("") returns %s, the store holds %s' % (where, got, want))
                elif got != want:
                    return ('scan-prefix', '%s: scan_prefix(%s) returns %s, reference %s' % (where, p, got, want))
        for i, p in enumerate(prefixes):
            if p == [] and obs[0][3][i] != obs[1][3][i]:
                return ('scan-empty-prefix-engines-differ', 'chunk sizes %s: scan_prefix("") returns %d entries on the File engine and %d on the RocksDB engine (store holds %d)' % (sizes, len(obs[0][3][i]), len(obs[1][3][i]), len(scans[i])))
    return None

def oracle_all(case, out):
    """all distinct violation classes of a case (so that a known class does not mask another one)"""
    res = []
    first = oracle(case, out)
    if first is None: return res
    res.append(first)
    if first[0] == 'scan-empty-prefix-engines-differ':
        # re-evaluate without the empty prefix
        cmds, chunkings, keys, prefixes, fresh = case
        idx = [i for i, p in enumerate(prefixes) if p != []]
        case2 = [cmds, chunkings, keys, [prefixes[i] for i in idx], fresh]
        out2 = [[[o[0], o[1], o[2], [o[3][i] for i in idx]] for o in obs] for obs in out]
        second = oracle(case2, out2)
        if second: res.append(second)
    return res

def check(run):
    thorough = run.tier == 'thorough'
    run.cov['trusted_base'] += [
        "hand-written model DE.KV of FileStateMachine::apply_chunk (base/delta overlay, pass 3 replay) and RocksDBStateMachine::apply_chunk (WriteBatchWithIndex read-through, write_wbwi), get, get_multi, scan_prefix; tied to the code by the kv probe",
        "not modelled: the WAL append between the File engine's passes, the (value, term) pairing, TTL registration (C23), RocksDB's iterator bounds (prefix_successor) — the latter exercised by the probe with 0xFF keys/prefixes",
        "harness: real FileStateMachine / RocksDBStateMachine in a temp directory, ApplyEntry built directly (decode is C37); one instance per process reset() between runs, every 10th long case on fresh instances",
    ]
    run.assumptions += ["commands carry no TTL (TTL behaviour is property C23)",
                        "scan results are compared as sets ordered by key (the File engine iterates a HashMap)"]
    broken = flow.proof_step(run, PROPS_FILE, CONE)
    violations = []
    try:
        core.harness_build()
        cases, dist = gen_cases(run, thorough)
        outs = core.probe_parallel('kv', cases, jobs=8)
        pairs = []
        for c, o in zip(cases, outs):
            if isinstance(o, str):
                broken.append(('correspondence', 'kv probe error', o[:300] + ' on ' + json.dumps(c)[:300])); continue
            pairs.append((c, o))
            for cls, why in oracle_all(c, o):
                violations.append({'class': cls, 'probe': 'kv', 'input': c, 'output': o, 'why': why})
        mism = core.coq_index_list(IMPORTS, '', 'kv_probe', pairs, tag='C22', shard=200)
        if mism:
            i = mism[0]
            broken.append(('correspondence', 'DE.KV.file_apply_chunk / rocks_apply_chunk vs the real state machines (probe kv)',
                           '%d disagreements; first on %s -> impl %s' % (len(mism), json.dumps(pairs[i][0]), json.dumps(pairs[i][1]))))
        run.cov['disagreements'] = len(mism)
        run.add_cases(len(pairs), len({json.dumps(c) for c, _ in pairs}), [{'case': pairs[j][0], 'impl': pairs[j][1]} for j in (len(pairs) // 2, len(pairs) - 1)], dist,
                      'exhaustive: all sequences of length <= 2 over {put,delete,CAS(absent/each value),noop} x 2 keys x 2 values with every chunking; seeded: length 3 (all in thorough), CAS-heavy length 4-6 with every chunking, long sequences over a wide alphabet (empty key, 0xFF bytes, empty value) with 5 chunkings incl. empty chunks; both engines each; distinct = distinct cases')
    except Broken as b:
        broken.append(('harness', b.what, b.detail))
    return flow.conclude(run, broken, violations)

def replay(path):
    r = json.load(open(path))
    if r.get('kind') != 'counterexample':
        print('broken obligation:', [b['name'] for b in r.get('broken', [])]); return 1
    core.harness_build()
    out = core.probe('kv', [r['input']])[0]
    print('implementation output:', json.dumps(out))
    if isinstance(out, str): print('VIOLATES: probe error'); return 1
    why = oracle_all(r['input'], out)
    for cls, w in why: print('VIOLATES (%s): %s' % (cls, w))
    if not why: print('ok')
    return 1 if why else 0

META = {
    'title': 'Key-value commands have the documented semantics on every engine',
    'level': 'proof',
    'technique': 'Rocq theorems on executable models of both engines\' apply_chunk (File: base/delta CAS overlay + replay; RocksDB: indexed write batch read-through) against the reference semantics, by induction over the command list and the chunk list; differential check of the models against the real FileStateMachine and RocksDBStateMachine on every chunking of exhaustive small and seeded long sequences; the property itself evaluated on the implementation outputs',
    'text': "Rocq: C22_engines_equal_reference_for_every_chunking — for every start store, command sequence and every (per-engine) split into apply batches, both engine models return exactly the store and per-entry success flags of the reference semantics; C22_cas_succeeds_iff_current_equals_expected (absent matches only absent), C22_cas_effect, C22_put_effect, C22_delete_effect; C22_reads_of_any_run — get = reference lookup, get_multi positionally aligned, scan_prefix = exactly the bindings under the prefix, each key once; C22_scan_engines_agree_on_nonempty_prefix; C22_scan_empty_prefix_refuted — the engines differ on scan_prefix(\"\") (known finding, reproduced on the real code by the probe). The models are replayed against the real state machines and the reference semantics is evaluated on the implementation's outputs on every run.",
    'note': "Trusted: Coq kernel, hand model DE.KV (validated by the kv probe on every check), the python reference used as search oracle. Known finding on the unchanged tree: RocksDBStateMachine::scan_prefix(\"\") returns no entries (deliberate short-circuit, pinned by a unit test) while FileStateMachine::scan_prefix(\"\") returns every entry, so the engines disagree on that read.",
    'design_ref': 'DESIGN.md §4 C22',
}
