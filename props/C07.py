"""C07 — followers only mark leader-matching entries as committed."""
import json
from dvlib import core, flow
from dvlib.core import Broken
from props import C08

ID = 'C07'
PROPS_FILE = 'theories/props/Properties_C07.v'
CONE = ['theories/BufLog.v', 'theories/PLog.v', 'theories/Repl.v', 'theories/proofs/C07.v', 'theories/AbstractRaft.v', 'theories/proofs/AR_election.v', 'theories/proofs/AR_logs.v', 'theories/proofs/AR_complete.v', 'theories/proofs/AR_sms.v']
IMPORTS = C08.IMPORTS

def gen_cases(run, thorough):
    """follower = prefix of the leader's log + optional stale tail of an older term; requests are capped
    slices of the leader's log at arbitrary next indexes with a leader_commit up to the leader's last index
    (so the request often covers less than the follower's stale tail and less than leader_commit)."""
    r = run.rng('c07'); cases = []; dist = {}
    n = 3000 if thorough else 600
    for k in range(n):
        L = r.range(1, 9)
        leader = C08.mk_log(r, L)
        keep = r.range(0, L)
        fol = [list(e) for e in leader[:keep]]
        kind = 'prefix'
        if r.chance(2, 3):
            kind = 'stale-tail'
            t = fol[-1][1] if fol else 1
            for j in range(r.range(1, 4)):
                fol.append([keep + 1 + j, t, 900 + j])
            for e in leader[keep:]:
                e[1] = max(e[1], t + 1)
            for j in range(1, len(leader)):
                leader[j][1] = max(leader[j][1], leader[j - 1][1])
        lterm = max(e[1] for e in leader)
        reqs = []
        for _ in range(r.range(1, 3)):
            # next index at or below the point up to which follower and leader agree (the leader's
            # match-based restart), or anywhere
            nx = r.range(1, keep + 1) if r.chance(2, 3) else r.range(1, len(leader) + 1)
            cap = r.range(0, 3)
            ents = [list(e) for e in leader[nx - 1: nx - 1 + cap]]
            prev = nx - 1
            pterm = leader[prev - 1][1] if prev >= 1 else 0
            lc = r.range(0, len(leader))
            reqs.append([lterm, prev, pterm, ents, lc])
            covered = prev + len(ents)
            tag = kind + ('/commit>covered' if lc > covered else '/commit<=covered') + ('/tail>covered' if len(fol) > covered else '')
            dist[tag] = dist.get(tag, 0) + 1
        cases.append([fol, 0, lterm, 0, reqs, C08.QMAX, C08.TMAX, leader])
    return cases, dist

def oracle(case, out):
    leader = {e[0]: tuple(e) for e in case[7]}
    commit = case[3]
    for rq, o in zip(case[4], out):
        if isinstance(o, str): return 'follower error ' + o
        resp, cu, obs = o
        if cu:
            c = cu[0]
            if c < commit: return 'commit index moved backwards from %d to %d on request %s' % (commit, c, rq)
            commit = c
        log = {e[0]: tuple(e) for e in obs[6]}
        for i in range(1, commit + 1):
            if i in log and log[i] != leader.get(i):
                return 'follower commit index %d covers its entry %s but the leader holds %s at that index (request %s)' % (commit, list(log[i]), leader.get(i), rq)
    return None

def check(run):
    thorough = run.tier == 'thorough'
    run.cov['trusted_base'] += [
        "hand-written models DE.Repl.follower_handle / DE.BufLog (validated by the repl_follower probe) and the refinement BufLog ⊑ PLog of C19 through which the plain-log theorem applies to the buffered log",
    ]
    run.assumptions += ["Log Matching at prev (agree_upto F L prev, same_term_same_entry) is a hypothesis of the step theorem; it is the global invariant C04",
                        "the request was built by the current leader from its log (built_from)"]
    broken = flow.proof_step(run, PROPS_FILE, CONE)
    violations = []
    try:
        core.harness_build()
        cases, dist = gen_cases(run, thorough)
        outs = core.probe_parallel('repl_follower', cases)
        pairs = []
        for c, o in zip(cases, outs):
            if isinstance(o, str):
                broken.append(('correspondence', 'repl_follower probe error', o[:300])); continue
            pairs.append((c, o))
            why = oracle(c, o)
            if why:
                violations.append({'class': 'follower-commits-unmatched-entry', 'probe': 'repl_follower', 'input': c, 'output': o, 'why': why})
        mism = core.coq_index_list(IMPORTS, '', 'follower_probe', pairs, tag='C07')
        if mism:
            broken.append(('correspondence', 'DE.Repl.follower_handle vs ReplicationHandler::handle_append_entries',
                           '%d disagreements; first on input %s' % (len(mism), json.dumps(pairs[mism[0]][0]))))
        run.cov['disagreements'] = len(mism)
        dist['commit-updates'] = sum(1 for _, o in pairs for x in o if x[1])
        run.add_cases(len(pairs), len({json.dumps(c) for c, _ in pairs}), [{'case': pairs[0][0]}], dist,
                      'seeded: follower = prefix of leader log (+ stale tail of an older term, 2/3 of cases) x 1-3 capped requests (cap 0-3, next at or below the agreement point 2/3 of the time) with leader_commit anywhere up to the leader\'s last index')
    except Broken as b:
        broken.append(('harness', b.what, b.detail))
    return flow.conclude(run, broken, violations)

def replay(path):
    r = json.load(open(path))
    if r.get('kind') != 'counterexample':
        print('broken obligation:', [b['name'] for b in r.get('broken', [])]); return 1
    core.harness_build()
    out = core.probe('repl_follower', [r['input']])[0]
    print('implementation output:', json.dumps(out)); why = oracle(r['input'], out)
    print('VIOLATES: ' + why if why else 'ok'); return 1 if why else 0

META = {
    'title': 'Followers only mark leader-matching entries as committed',
    'level': 'proof',
    'technique': 'Rocq theorem on the plain-log follower step (agreement with the leader up to the covered range; commit bound within it) + refutation witness of the old rule + differential check against handle_append_entries',
    'text': "Rocq: C07_follower_agrees_upto_covered and C07_follower_commit_matches — for every follower log F (any stale tail), leader log L, and request built from L whose prev matches, after the follower's conflict-aware append F agrees with L at every index <= prev + |entries|, and the commit index the follower computes (min(leader_commit, min(own last, prev+|entries|)), forward only) only covers indexes holding the leader's identical entry; C07_old_rule_refuted gives the witness for the rule of the unchanged tree. The follower model is replayed against the real ReplicationHandler::handle_append_entries over a real BufferedRaftLog, and the property is evaluated on the implementation's outputs against the generating leader log.",
    'note': "Trusted: Coq kernel, models Repl/BufLog/PLog (probe-validated). Hypotheses: Log Matching at prev and same-term-same-entry between the two logs (C04), request built by the leader. The unchanged tree violated the property (commit bounded by the follower's own last index); repaired by a fix: commit.",
    'design_ref': 'DESIGN.md §4 C07',
}
