"""C16 — snapshot install plus log replay reproduces the state (File and RocksDB state machines)."""
import json, os, concurrent.futures
from dvlib import core, flow
from dvlib.core import Broken

ID = 'C16'
PROPS_FILE = 'theories/props/Properties_C16.v'
CONE = ['theories/SMCrash.v', 'theories/SnapReplay.v', 'theories/proofs/C15.v', 'theories/proofs/C16.v']
IMPORTS = 'From DE Require Import SMCrash SnapReplay.'
KEYS = [1, 2, 3]

# ---------------------------------------------------------------- reference KV semantics (the property's yardstick)
def ref_apply(s, c):
    t = c[0]
    if t in (0, 3): s[c[1]] = c[2]
    elif t == 1: s.pop(c[1], None)
    elif t == 2:
        exp = c[2][0] if c[2] else None
        if s.get(c[1]) == exp: s[c[1]] = c[3]
    return s

def ref_state(cmds):
    s = {}
    for c in cmds: ref_apply(s, c)
    return [[s[k]] if k in s else [] for k in KEYS]

# ---------------------------------------------------------------- generator
def gen_cmd(r, s):
    k = r.choice(KEYS[:2] if r.chance(3, 4) else KEYS); x = r.below(100)
    if x < 30: c = [0, k, r.range(1, 4)]
    elif x < 40: c = [1, k]
    elif x < 84:
        cur = s.get(k); y = r.below(10)
        if y < 5: exp = [cur] if cur is not None else []
        elif y < 8: exp = [r.range(1, 4)]
        else: exp = []
        c = [2, k, exp, r.range(1, 4)]
    elif x < 94: c = [3, k, r.range(1, 4), r.choice([3600, 7200])]
    else: c = [4]
    ref_apply(s, c)
    return c

def gen_cases(run, thorough):
    r = run.rng('snapreplay'); cases = []; dist = {}
    def tag(t, n=1): dist[t] = dist.get(t, 0) + n
    def add(engine, cmds, p, ret, c, mode, chunk, what):
        cases.append([engine, KEYS, cmds, p, ret, c, mode, chunk]); tag(what)
        tag('engine=' + ('file' if engine == 0 else 'rocksdb')); tag('retained=%d' % ret)
        tag('mode=' + ('create_snapshot' if mode == 0 else 'interleaved(c=%d)' % c))
    n = 600 if thorough else 150
    for i in range(n):
        s = {}; cmds = [gen_cmd(r, s) for _ in range(r.range(2, 9))]
        p = r.range(0, len(cmds)) if r.chance(1, 5) else r.range(max(1, len(cmds) // 2), len(cmds))
        ret = r.choice([1, 1, 1, 2, 2, 3, 5, 0])
        if r.chance(1, 3):
            # plant a CAS chain [CAS(k, b->c); CAS(k, a->b)] (a = the value at that point) just below the snapshot point
            at = r.range(0, len(cmds)); st = {}
            for x in cmds[:at]: ref_apply(st, x)
            k = r.choice(KEYS[:2]); a = st.get(k); b = r.choice([v for v in (1, 2, 3, 4) if v != a]); c3 = r.choice([v for v in (1, 2, 3, 4) if v != b])
            cmds = cmds[:at] + [[2, k, [b], c3], [2, k, [a] if a is not None else [], b]] + cmds[at:]
            p = min(len(cmds), at + 2 + r.below(2)); ret = r.choice([1, 2, 2, 3]); tag('planted-cas-chain')
        mode = 1 if r.chance(1, 3) else 0
        c = r.range(0, 2) if mode == 1 else 0
        chunk = r.choice([1, 2, 3, 8])
        add(0, cmds, p, ret, c, mode, chunk, 'random')
        if thorough or i % 2 == 0: add(1, cmds, p, ret, c, mode, chunk, 'random')
    # structured: CAS chain inside the retained window / across the concurrent apply
    for a, b, c3 in ((1, 2, 3), (3, 1, 2)):
        chain = [[0, 1, a], [2, 1, [b], c3], [2, 1, [a], b], [0, 2, 5]]
        for e in (0, 1):
            add(e, chain, 3, 2, 0, 0, 3, 'cas-chain-retained-2')
            add(e, chain, 3, 1, 0, 0, 3, 'cas-chain-retained-1')
            add(e, chain, 2, 1, 1, 1, 3, 'cas-chain-concurrent-apply')
            add(e, chain, 4, 3, 0, 0, 1, 'cas-chain-retained-3')
    # boundaries: empty snapshot, snapshot at the end, retention larger than the log, only noops, retention 0
    for e in (0, 1):
        add(e, [[0, 1, 1], [0, 2, 2]], 0, 1, 0, 0, 3, 'boundary')
        add(e, [[0, 1, 1], [1, 1], [0, 2, 2]], 3, 1, 0, 0, 3, 'boundary')
        add(e, [[0, 1, 1], [2, 1, [1], 2]], 2, 7, 0, 0, 3, 'boundary')
        add(e, [[4], [4]], 1, 1, 0, 0, 3, 'boundary')
        add(e, [[0, 1, 1], [2, 1, [2], 3], [2, 1, [1], 2]], 3, 0, 0, 0, 3, 'boundary')
    return cases, dist

# ---------------------------------------------------------------- running the probe
def _probe(cases):
    """like core.probe, but create_snapshot prints '[SNAPHSOT] ...' lines on stdout that have to be dropped"""
    inp = '\n'.join(json.dumps(c, separators=(',', ':')) for c in cases) + '\n'
    rc, out, err = core.sh([core.DPROBE, 'snapreplay'], inp=inp, timeout=1500, env={'RUST_BACKTRACE': '0'})
    lines = [l for l in out.splitlines() if (l.startswith('[') and not l.startswith('[SNAPHSOT]')) or l.startswith('"')]
    if rc != 0 or len(lines) != len(cases):
        raise Broken('dprobe snapreplay failed (rc=%s, %d/%d outputs)' % (rc, len(lines), len(cases)), (out[-1500:] + err[-2500:]))
    return [json.loads(l) for l in lines]

def _probe_parallel(cases, jobs=6):
    if len(cases) < 12: return _probe(cases)
    n = (len(cases) + jobs - 1) // jobs
    chunks = [cases[i:i + n] for i in range(0, len(cases), n)]
    with concurrent.futures.ThreadPoolExecutor(max_workers=jobs) as ex:
        outs = list(ex.map(_probe, chunks))
    return [o for ch in outs for o in ch]

def run_cases(cases):
    """the probe works in $TMPDIR; a tmpfs (/dev/shm) makes the RocksDB opens cheap; fall back to the default"""
    if os.environ.get('TMPDIR') is None and os.path.isdir('/dev/shm') and os.access('/dev/shm', os.W_OK):
        os.environ['TMPDIR'] = '/dev/shm'
        try:
            outs = _probe_parallel(cases)
            if not any(isinstance(o, str) for o in outs): return outs
        except Broken:
            pass
        finally:
            del os.environ['TMPDIR']
    return _probe_parallel(cases)

# ---------------------------------------------------------------- oracle: the property on the implementation's outputs
def oracle(case, out):
    engine, keys, cmds, p, ret, c, mode, chunk = case
    label, la, content, final = out
    res = []
    want = ref_state(cmds)
    if final != want:
        cls = 'replay-of-entries-already-in-the-snapshot-changes-state' if mode == 0 else 'concurrent-apply-during-snapshot-changes-state'
        res.append((cls, 'snapshot labelled %d holds %s; the installing node reports last_applied=%d, applies entries %d..%d and ends with %s; a node applying the whole log holds %s'
                    % (label, content, la, la + 1, len(cmds), final, want)))
    if content != ref_state(cmds[:label]):
        res.append(('snapshot-boundary-behind-content', 'snapshot labelled last_included=%d contains %s, the state after %d entries is %s (retained_log_entries=%d)'
                    % (label, content, label, ref_state(cmds[:label]), ret)))
    return res

def check(run):
    thorough = run.tier == 'thorough'
    run.cov['trusted_base'] += [
        "hand-written model DE.SnapReplay of DefaultStateMachineHandler::create_snapshot (label = last_applied - retained_log_entries, capture of the current state), StateMachine::apply_snapshot_from_file (state := content, last_applied := label) and the replay of the entries above the reported index; KV semantics DE.SMCrash.apply; tied to the code by the snapreplay probe on both engines",
        "probe mode 0 drives the real create_snapshot -> load_snapshot_data -> apply_snapshot_stream_from_leader path; mode 1 emulates an apply that lands between create_snapshot's read of last_applied and generate_snapshot_data by making the same two calls by hand (create_snapshot runs in a spawned task and takes no lock the commit handler respects)",
    ]
    run.assumptions += ["after the install the node applies exactly the log entries above the last_applied its state machine reports",
                        "TTL puts use long TTLs (expiry is C23)", "values are non-empty byte strings"]
    broken = flow.proof_step(run, PROPS_FILE, CONE)
    violations = []
    try:
        core.harness_build()
        cases, dist = gen_cases(run, thorough)
        outs = run_cases(cases)
        pairs = []
        for c, o in zip(cases, outs):
            if isinstance(o, str):
                broken.append(('correspondence', 'snapreplay probe error', o[:300] + ' on ' + json.dumps(c))); continue
            pairs.append((c, o))
            for cls, why in oracle(c, o):
                violations.append({'class': cls, 'probe': 'snapreplay', 'input': c, 'output': o, 'why': why})
        mism = core.coq_index_list(IMPORTS, '', 'snap_probe', pairs, tag='C16', shard=80)
        if mism:
            i = mism[0]
            broken.append(('correspondence', 'DE.SnapReplay.snap_probe vs create_snapshot/apply_snapshot (probe snapreplay)',
                           '%d disagreements; first on %s -> impl %s' % (len(mism), json.dumps(pairs[i][0]), json.dumps(pairs[i][1]))))
        run.cov['disagreements'] = len(mism)
        for v in violations: dist['violating:' + v['class']] = dist.get('violating:' + v['class'], 0) + 1
        run.add_cases(len(pairs), len({json.dumps(c) for c, _ in pairs}), [{'case': pairs[j][0], 'impl': pairs[j][1]} for j in (0, len(pairs) - 1)] if pairs else [], dist,
                      'seeded command lists (2-9 put/delete/CAS/TTL-put/noop over 3 keys, 4 values), snapshot point anywhere, retained_log_entries in {0,1,2,3,5}, 0-2 entries applied between label and capture, apply chunk sizes 1-8, both engines; CAS chains in the retained window; boundaries; distinct = distinct cases')
    except Broken as b:
        broken.append(('harness', b.what, b.detail))
    return flow.conclude(run, broken, violations)

def replay(path):
    r = json.load(open(path))
    if r.get('kind') != 'counterexample':
        print('broken obligation:', [b['name'] for b in r.get('broken', [])]); return 1
    core.harness_build()
    out = _probe([r['input']])[0]
    print('implementation output:', json.dumps(out)); why = oracle(r['input'], out)
    for cls, w in why: print('VIOLATES [%s]: %s' % (cls, w))
    if not why: print('ok')
    return 1 if why else 0

META = {
    'title': 'Snapshot install plus log replay reproduces the state',
    'level': 'proof',
    'technique': 'Rocq theorems on a model of create_snapshot / apply_snapshot / replay quantified over all command sequences, snapshot points, retention settings and numbers of concurrently applied entries; the full statement is refuted by vm_compute witnesses that the probe replays on both real engines through the real DefaultStateMachineHandler; differential check against the real code',
    'text': "Rocq: the property as stated is refuted (C16_boundary_matches_content_refuted: with retained_log_entries >= 1, which config validation enforces, the snapshot is labelled last_applied - retained but contains the state at last_applied; C16_replay_refuted_retention: with retained_log_entries = 2 a CAS chain in the retained window makes install + replay end in a different state; C16_replay_refuted_concurrent_apply: with the default retention one entry applied between the label computation and the capture suffices). Proved for all inputs: the label is never ahead of the content and the content is the state at capture time (C16_boundary_never_ahead_partial); install + replay equals the full apply whenever the entries between label and capture contain no CAS (C16_replay_cas_free_overlap_partial) or are at most one (C16_replay_single_overlap_partial, hence C16_replay_default_retention_partial for retained_log_entries = 1 without a concurrent apply); with retention 0 and no concurrent apply both parts of the property hold (C16_exact_without_retention_partial). The snapreplay probe creates the snapshot with the real handler on the real File and RocksDB state machines, streams it into a fresh node, replays the log and the property is evaluated on those outputs.",
    'note': "The unchanged tree violates the property (classes in known_findings.json). Trusted: Coq kernel, hand model SnapReplay + SMCrash.apply (validated against both engines on every run), the hand-split create_snapshot of probe mode 1.",
    'design_ref': 'DESIGN.md §4 C16',
}
