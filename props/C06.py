"""C06 — state machine safety: every node applies the same commands in order (commit -> apply pipeline)."""
import json
from dvlib import core, flow
from dvlib.core import Broken

ID = 'C06'
PROPS_FILE = 'theories/props/Properties_C06_apply.v'
CONE = ['theories/Apply.v', 'theories/proofs/C06.v']
IMPORTS = 'From DE Require Import Apply.'

# directed cases: the witnesses of the C06_history_* theorems (they violated the property before the fix 'last_sent')
# and their serialised counterparts
PUTS7 = [[1, 0, i, i, 0] for i in range(1, 8)]
CAS3 = [[1, 2, 1, 2, 9], [1, 2, 1, 0, 1], [1, 0, 2, 2, 0]]
DIRECTED = [
    ('two-notifications-before-apply', [PUTS7, 100, [[0, [5]], [0, [7]], [1], [1]]]),
    ('two-notifications-before-apply-cas', [CAS3, 100, [[0, [2]], [0, [3]], [1], [1]]]),
    ('serialised', [PUTS7, 100, [[0, [5]], [1], [0, [7]], [1]]]),
    ('serialised-cas', [CAS3, 100, [[0, [2]], [1], [0, [3]], [1]]]),
    ('one-round-two-notifications', [PUTS7, 100, [[0, [5, 7]], [1], [1]]]),
    ('drain-limit-1', [PUTS7, 1, [[0, [5, 7]], [1], [1], [1]]]),
    ('restart-with-queued-chunk', [PUTS7, 100, [[0, [3]], [1], [0, [6]], [2], [0, [6]], [1], [1]]]),
    ('noop-config-split', [[[1, 0, 1, 1, 0], [1, 3, 0, 0, 0], [1, 0, 3, 3, 0], [2, 4, 0, 0, 0], [2, 1, 1, 0, 0]], 1,
                           [[0, [2, 5]], [1], [1], [2], [0, [5]], [1], [1], [1]]]),
    ('config-entry-two-notifications', [[[1, 0, 1, 1, 0], [1, 4, 0, 0, 0], [1, 0, 3, 3, 0], [1, 4, 0, 0, 0], [1, 1, 1, 0, 0]], 100,
                                        [[0, [2]], [0, [5]], [1], [1], [1], [1]]]),
]

def gen_cases(run, thorough):
    r = run.rng('commit_apply'); cases = []; dist = {}
    def tag(t): dist[t] = dist.get(t, 0) + 1
    for name, c in DIRECTED:
        cases.append(c); tag('directed')
    n = 2500 if thorough else 420
    for k in range(n):
        L = r.range(1, 8); t = 1; lg = []
        for i in range(L):
            if r.chance(1, 4): t += 1
            x = r.below(100)
            if x < 35: lg.append([t, 0, r.range(1, 3), r.range(1, 9), r.choice([0, 0, 0, 5])])
            elif x < 50: lg.append([t, 1, r.range(1, 3), 0, 0])
            elif x < 80: lg.append([t, 2, r.range(1, 3), r.choice([0, r.range(1, 4) + 1]), r.range(1, 9)])
            elif x < 90: lg.append([t, 3, 0, 0, 0])
            else: lg.append([t, 4, 0, 0, 0])
        mb = r.choice([1, 2, 3, 100])
        style = r.choice(['serial', 'serial', 'racing', 'racing', 'racing'])
        labels = []; commit = 0; queued = 0
        for _ in range(r.range(2, 9)):
            x = r.below(100)
            if style == 'serial':
                if queued: labels.append([1]); queued = max(0, queued - 1); continue
                if x < 10: labels.append([2]); commit = 0; continue
                cs = []
                for _ in range(r.choice([1, 1, 2, 3])):
                    commit = min(L + r.choice([0, 0, 0, 1]), commit + r.range(0, 3)); cs.append(commit)
                labels.append([0, cs]); queued = 4   # at most 4 chunks per round here are drained before the next round
            else:
                if x < 50:
                    cs = []
                    for _ in range(r.choice([1, 1, 2, 3])):
                        commit = min(L + r.choice([0, 0, 0, 1]), commit + r.range(0, 3)); cs.append(commit)
                    if r.chance(1, 12): cs.append(r.range(0, L))       # a stale notification
                    labels.append([0, cs])
                elif x < 92: labels.append([1])
                else: labels.append([2])
        # let the worker finish, so that every case ends in a quiescent state
        labels += [[1]] * 6
        tag(style); tag('mb=%d' % mb)
        cases.append([lg, mb, labels])
    return cases, dist

def decode(e):
    t, k, a, b, c = e
    if k == 0: return [0, a, b, c]
    if k == 1: return [1, a]
    if k == 2: return [2, a, b, c]
    return [3]

def kv_fold(lg, n):
    m = {}
    for e in lg[:n]:
        d = decode(e)
        if d[0] == 0: m[d[1]] = d[2]
        elif d[0] == 1: m.pop(d[1], None)
        elif d[0] == 2:
            cur = m.get(d[1]); exp = None if d[2] == 0 else d[2] - 1
            if cur == exp: m[d[1]] = d[3]
    return [[k, m[k]] for k in sorted(m)]

def oracle(case, out):
    """The statement of C06 on one node's real pipeline: returns the list of violated clauses as (class, why)."""
    lg, mb, labels = case
    steps, calls, cfgs = out
    flat = [e for c in calls for e in c]
    bad = []
    # every index carries the command every other node would apply there: the committed log's own entry
    for idx, term, cmd in flat:
        if idx < 1 or idx > len(lg) or [lg[idx - 1][0], decode(lg[idx - 1])] != [term, cmd]:
            bad.append(('applied-wrong-command', 'apply_chunk received (%d, %d, %s) but the log holds %s at that index' % (idx, term, cmd, lg[idx - 1] if 1 <= idx <= len(lg) else None))); break
    # increasing order, no gaps, never twice
    prev = 0
    for idx, term, cmd in flat:
        if idx <= prev:
            bad.append(('index-applied-twice', 'apply_chunk received index %d after index %d (sequence %s)' % (idx, prev, [e[0] for e in flat]))); break
        if idx != prev + 1:
            bad.append(('apply-gap', 'apply_chunk received index %d after index %d' % (idx, prev))); break
        prev = idx
    # the key-value state equals the fold of the applied prefix, after every step
    for st in steps:
        la, rng, kv = st
        if kv != kv_fold(lg, la):
            bad.append(('state-not-fold-of-prefix', 'last_applied=%d, state %s, but applying entries 1..%d to an empty store gives %s' % (la, kv, la, kv_fold(lg, la)))); break
    return bad

def check(run):
    thorough = run.tier == 'thorough'
    run.cov['trusted_base'] += [
        "hand-written model DE.Apply (variant fx = true: range starts after max(last_applied, last_sent)) of DefaultCommitHandler::run/process_batch, DefaultStateMachineHandler::{update_pending,pending_range,apply_chunk}, StateMachineWorker::run, decode_entries; tied to the code by the commit_apply probe",
        "harness: real DefaultCommitHandler + StateMachineWorker (tokio tasks on a current-thread runtime) + DefaultStateMachineHandler over a real BufferedRaftLog; a recording key-value StateMachine whose apply_chunk waits for a permit; MockMembership accepts config changes and records notify_config_applied(index)",
    ]
    run.assumptions += ["cross-node agreement is reduced to: every node applies at index i the entry its committed log holds at i (agreement of committed logs is C05)",
                        "TTL expiry is outside this check (C23); a TTL put is applied like a put",
                        "crash-restart keeps the state machine contents and its last applied index (crash-consistency of the engines is C15); snapshot installation is not part of the model"]
    # the agreement half (every node applies the same command at an index) is the abstract-Raft theorem
    # C06_committed_agree pinned in Properties_C06.v; build it too
    broken = flow.proof_step(run, PROPS_FILE, CONE + ['theories/AbstractRaft.v', 'theories/proofs/AR_election.v', 'theories/proofs/AR_logs.v', 'theories/proofs/AR_complete.v', 'theories/proofs/AR_sms.v', 'theories/props/Properties_C06.v'], extra_targets=['theories/props/Properties_C06.vo'])
    violations = []
    try:
        core.harness_build()
        cases, dist = gen_cases(run, thorough)
        outs = core.probe_parallel('commit_apply', cases)
        pairs = []
        for c, o in zip(cases, outs):
            if isinstance(o, str):
                broken.append(('correspondence', 'commit_apply probe error', o[:300])); continue
            pairs.append((c, o))
            for v in oracle(c, o):
                violations.append({'class': v[0], 'probe': 'commit_apply', 'input': c, 'output': o, 'why': v[1]}); dist['viol:' + v[0]] = dist.get('viol:' + v[0], 0) + 1
        # smallest witnesses first
        violations.sort(key=lambda v: len(json.dumps(v['input'])))
        mism = core.coq_index_list(IMPORTS, '', 'apply_probe', pairs, tag='C06')
        if mism:
            i = mism[0]
            broken.append(('correspondence', 'DE.Apply.step vs commit handler + SM worker (probe commit_apply)',
                           '%d disagreements; first on %s -> impl %s' % (len(mism), json.dumps(pairs[i][0]), json.dumps(pairs[i][1]))))
        run.cov['disagreements'] = len(mism)
        # replicas batch the same committed log differently (a leader applies entry by entry, a follower that catches up applies
        # its backlog in one chunk): on the REAL state machines (File and RocksDB) the per-entry results and the resulting
        # store must not depend on the split into apply chunks (probe kv; cases of the kind C22 uses, every chunking)
        from props import C22
        kcases, _ = C22.gen_cases(run, False)
        kcases = [c for c in kcases if len(c[1]) >= 2 and len(c[0]) >= 3]   # a delete and a CAS behind a put need 3 commands
        def del_then_cas(c):   # a CAS on a key deleted earlier in the sequence: the case in which the batch overlay matters most
            return any(a[0] == 1 and b[0] == 2 and a[1] == b[1] for i, a in enumerate(c[0]) for b in c[0][i + 1:])
        hot = [c for c in kcases if del_then_cas(c)]; rest = [c for c in kcases if not del_then_cas(c)]
        lim = 1200 if thorough else 360
        hot = hot[:lim * 2 // 3]; step = max(1, len(rest) // max(1, lim - len(hot)))
        kcases = hot + rest[::step][:lim - len(hot)]
        dist['replica-batching-delete-then-cas'] = len(hot)
        kouts = core.probe_parallel('kv', kcases, jobs=8)
        kok = 0
        for c, o in zip(kcases, kouts):
            if isinstance(o, str):
                broken.append(('harness', 'kv probe error', (json.dumps(c) + ' -> ' + o)[:300])); continue
            kok += 1
            for eng, name in ((0, 'File'), (1, 'RocksDB')):
                ref = o[0][eng]
                for sizes, obs in zip(c[1], o):
                    if obs[eng][:3] != ref[:3]:
                        violations.append({'class': 'state-depends-on-apply-batching', 'probe': 'kv', 'input': c, 'output': o,
                                           'why': '%s state machine: the same commands %s give results/contents %s when applied in chunks %s but %s in chunks %s' % (name, json.dumps(c[0]), json.dumps(obs[eng][:2]), sizes, json.dumps(ref[:2]), c[1][0])})
                        break
        dist['replica-batching-cases(kv)'] = kok; dist['replica-batching-runs'] = sum(2 * len(c[1]) for c in kcases)
        violations.sort(key=lambda v: len(json.dumps(v['input'])))
        dist['chunks-applied'] = sum(len(o[1]) for _, o in pairs)
        dist['config-entries-applied'] = sum(len(o[2]) for _, o in pairs)
        run.add_cases(len(pairs), len({json.dumps(c) for c, _ in pairs}), [{'case': pairs[j][0], 'impl': pairs[j][1]} for j in (0, len(pairs) - 1)], dist,
                      'directed witnesses + seeded: logs of 1-8 entries (put/TTL put/delete/CAS/Noop/Config), drain limit 1/2/3/100, 2-9 labels (commit rounds with 1-4 notifications incl. stale and beyond-the-log, worker steps, crash-restarts), serialised and racing schedules')
    except Broken as b:
        broken.append(('harness', b.what, b.detail))
    return flow.conclude(run, broken, violations)

def replay(path):
    r = json.load(open(path))
    if r.get('kind') != 'counterexample':
        print('broken obligation:', [b['name'] for b in r.get('broken', [])]); return 1
    core.harness_build()
    if r.get('probe') == 'kv':
        c = r['input']; o = core.probe('kv', [c])[0]; bad = 0
        for eng, name in ((0, 'File'), (1, 'RocksDB')):
            for sizes, obs in zip(c[1], o):
                if obs[eng][:3] != o[0][eng][:3]:
                    print('VIOLATES (state-depends-on-apply-batching): %s, chunks %s vs %s: %s vs %s' % (name, sizes, c[1][0], json.dumps(obs[eng][:2]), json.dumps(o[0][eng][:2]))); bad = 1; break
        if not bad: print('ok')
        return bad
    out = core.probe('commit_apply', [r['input']])[0]
    print('implementation output:', json.dumps(out)); vs = oracle(r['input'], out)
    for v in vs: print('VIOLATES: %s — %s' % v)
    if not vs: print('ok')
    return 1 if vs else 0

META = {
    'title': 'State machine safety: every node applies the same commands in order',
    'level': 'proof',
    'technique': 'Rocq invariant proof over all interleavings of commit rounds, worker steps and crash-restarts on the commit->apply pipeline model (stream applied ++ queued = log prefix) + differential check against the real DefaultCommitHandler/StateMachineWorker/DefaultStateMachineHandler; cross-node agreement of committed logs on the abstract Raft model',
    'text': "Rocq: C06_exactly_once — for the pipeline as coded (the commit handler starts each range after max(last_applied, last_sent)) and every schedule of commit rounds (1..n notifications, stale or beyond the log), worker steps and crash-restarts, the concatenated inputs of StateMachine::apply_chunk are exactly the log prefix 1..last_applied: increasing order, no gap, no index twice, the log's own entries, and the key-value store equals the fold of that prefix over the empty store. C06_applies_log_entries + C06_log_entry_unique_per_index: what is applied at index i is the log's entry at i; with Properties_C06.v (C06_committed_agree on the abstract Raft model: committed logs agree) every node applies the same command at each index. C06_config_applied_once: between restarts every Config entry is handed to the membership once. The C06_history_* theorems record the schedules that broke the pipeline before the fix 'last_sent' (double application 1..5,1..7; CAS state divergence; Config entry applied twice). The model is replayed against the real pipeline with a permit-gated recording state machine on every run (last_applied, pending range, store contents per step, all apply_chunk inputs, all notify_config_applied indexes) and the property is evaluated on the implementation's own outputs.",
    'note': "Trusted: Coq kernel, hand model Apply (validated by the probe on every run), the recording state machine of the probe. The tree violated this property until the fix 'last_sent' in DefaultCommitHandler (DESIGN S12; known_findings.json status fixed; the old witnesses are directed cases of every run). Snapshot installation (the handler's last_applied is not raised by apply_snapshot_stream_from_leader), graceful-shutdown drain, apply_chunk errors and TTL expiry (C23) are not modelled here.",
    'design_ref': 'DESIGN.md §4 C06',
}
