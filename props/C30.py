"""C30 — no accepted request is silently dropped."""
import os, re
from dvlib import core, flow
from props import leaderq_common as L

ID = 'C30'
PROPS_FILE = 'theories/props/Properties_C30.v'
CONE = L.CONE_BASE + ['theories/proofs/C30.v']

def deadline_of(h, rid):
    cfg = h.case[0]
    return cfg[4] if h.kind_of[rid] == 'join' else cfg[2]

def oracle(h, dist):
    """Core-layer reading of the statement on the implementation's outputs: (a) once the node has left leadership (step-down or
    fatal error) no request issued before is still pending - it has a message or its sender is gone, so the API-layer wait ends;
    (b) while the leader lives, a request whose deadline has passed at a tick is answered, unless it is a write already committed
    and waiting for its apply result (that queue has no deadline by design; the API-layer wait is under a timeout) - counted."""
    def tag(t): dist[t] = dist.get(t, 0) + 1
    ops = h.case[2]
    if h.left_at is not None:
        for rid in range(h.nreq):
            if h.issued_at[rid] < h.left_at and not [x for x in h.resps.get(rid, []) if x[0] <= h.left_at]:
                return 'request %d (%s) still pending after the node left leadership at op %d' % (rid, h.kind_of[rid], h.left_at)
            if h.issued_at[rid] < h.left_at and [x for x in h.resps.get(rid, []) if x[1] == L.K_DROPPED]:
                tag('resolved-by-sender-drop')
        end = h.left_at
    else:
        end = len(ops)
    # requests registered at op p (the flush that took them, or the join itself) with deadline D: the first tick at time >= t(p)+D must answer
    reg = {}
    for rid in range(h.nreq):
        p = h.issued_at[rid]
        if h.kind_of[rid] == 'join': reg[rid] = p; continue
        if h.kind_of[rid] == 'write':
            idx = h.index_of(rid)      # registered in pending_client_writes by the op that appended its entry
            if idx and h.log_pos[idx[0]] < end: reg[rid] = h.log_pos[idx[0]]
            continue
        q = next((j for j in range(p + 1, end) if ops[j][0] == 4), None)
        if q is not None: reg[rid] = q
    for rid, p in reg.items():
        if h.resps.get(rid) and h.resps[rid][0][0] <= p: continue
        D = deadline_of(h, rid)
        for j in range(p + 1, end):
            if ops[j][0] == 8 and h.time_at[j] >= h.time_at[p] + D:
                answered = [x for x in h.resps.get(rid, []) if x[0] <= j]
                if not answered:
                    idx = h.index_of(rid)
                    if h.kind_of[rid] == 'write' and idx and h.commit_at[j] >= idx[0]:
                        tag('committed-unapplied-write-past-deadline (no core deadline; API timeout answers)')
                    else:
                        return 'request %d (%s) registered at op %d (t=%d, deadline %d ms) is still unanswered after the tick at op %d (t=%d)' % (
                            rid, h.kind_of[rid], p, h.time_at[p], D, j, h.time_at[j])
                break
    return None

def classify(why): return 'pending-after-leaving' if 'left leadership' in why else 'missed-deadline-sweep'

API_FILES = {
    'd-engine-server/src/api/embedded_client.rs': None,
    'd-engine-server/src/api/embedded_read_handle.rs': None,
    'd-engine-server/src/api/standalone_read_handle.rs': None,
    'd-engine-server/src/network/grpc/grpc_raft_service.rs': ['handle_client_write', 'handle_client_read', 'handle_client_scan', 'join_cluster'],
}

def api_untimed_waits():
    """Every response receiver created for a client request in the API layer must be awaited under a timeout."""
    bad = []; n = 0
    for rel, fns in API_FILES.items():
        src = open(os.path.join(core.REPO, rel)).read()
        parts = re.split(r'(?m)^(?=\s*(?:pub(?:\([a-z]+\))?\s+)?(?:async\s+)?fn\s+\w+)', src)
        for part in parts:
            m = re.match(r'\s*(?:pub(?:\([a-z]+\))?\s+)?(?:async\s+)?fn\s+(\w+)', part)
            name = m.group(1) if m else ''
            if fns is not None and name not in fns: continue
            for rx in re.findall(r'let\s*\(\s*\w+\s*,\s*(?:mut\s+)?(\w+)\s*\)\s*=\s*(?:MaybeCloneOneshot::new|oneshot::channel)', part):
                n += 1
                if not re.search(r'(?:timeout|handle_rpc_timeout)\(\s*(?:[\w.]+\s*,\s*)?%s\b' % re.escape(rx), part):
                    bad.append('%s: fn %s awaits %s without a timeout' % (rel, name, rx))
    return n, bad

def extra(run, broken, violations, dist):
    n, bad = api_untimed_waits()
    dist['api-response-waits-under-timeout'] = n - len(bad)
    run.cov['api_waits_checked'] = n
    if n < 13:
        broken.append(('structural', 'API-layer wait scan', 'only %d response receivers recognised in the API sources (expected >= 13): the scan no longer matches the code' % n))
    for b in bad:
        violations.append({'class': 'untimed-client-wait', 'probe': 'source-scan', 'input': b, 'output': None, 'why': b})

def check(run):
    run.assumptions += ["'accepted' = the command reached the role object (push_client_cmd / handle_inbound_event); a request blocked earlier in cmd_tx.send().await / event_tx.send().await on a stalled Raft loop has not been accepted (observation, not a violation)",
                        "'gets a response within its deadline' is decided at the API layer: every wait on a response receiver there is under tokio::time::timeout (checked on the sources at every run), and a dropped sender ends the wait with an error response at once",
                        "the tick that runs the deadline sweeps fires when the replication timer expires; process_batch resets that timer, so under a steady stream of write batches arriving faster than rpc_append_entries_clock_in_ms the core sweeps are postponed (the API-layer timeout still answers)"]
    return L.standard_check(run, ID, PROPS_FILE, CONE, oracle, classify, L.RULE, extra=extra)

def replay(path):
    return L.standard_replay(path, oracle)

META = {
    'title': 'No accepted request is silently dropped',
    'level': 'proof',
    'technique': "Rocq theorems on the leader's client-bookkeeping model for the step-down drain, the FatalError arm, the tick sweeps and the queue without deadline + differential check against the real LeaderState/FollowerState on a paused clock + source scan of the API layer (every response wait under a timeout)",
    'text': "Rocq (core layer, any state): C30_step_down_resolves_all / C30_fatal_resolves_all — when the leader steps down or handles a fatal error, every request it still holds (propose buffer, read buffers, pending_client_writes, pending_write_apply, pending_reads, pending_lease_reads, pending_commit_actions) is resolved at that moment (message or sender dropped) and nothing remains; C30_step_down_drops_apply_waiters_and_joins, C30_fatal_drops_unflushed_uncommitted_lease_and_joins — exactly which queues are resolved only by the drop of their sender; C30_sweep_answers_expired + C30_tick_ends_with_sweep — every expired entry of pending_client_writes, pending_reads, pending_lease_reads and pending_commit_actions is answered deadline_exceeded by the leader's tick; C30_apply_waiters_have_no_deadline — no number of ticks answers a committed write whose apply result never arrives (pending_write_apply has neither deadline nor drain). API layer: all response waits of embedded client, read handles and the gRPC client handlers are under tokio::time::timeout (scanned at every run), which turns 'dropped sender' and 'no core deadline' into an error response within general_raft_timeout_duration_in_ms.",
    'note': "Trusted: Coq kernel, hand model LeaderQ (validated by the leaderq probe), the regex scan of the API sources. Missing in Rocq: the reachable-state conservation law 'every issued id is held or answered' (needs the multiset invariant, see C29); it is evaluated on the implementation's outputs on every run. Observations, not violations: pending_write_apply and pending_commit_actions senders are dropped, not answered, on step-down; the FatalError arm skips propose_buffer, pending_client_writes, pending_lease_reads, pending_commit_actions; tick sweeps are postponed while write batches keep resetting the replication timer.",
    'design_ref': 'DESIGN.md §4 C30',
}
