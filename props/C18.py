"""C18 — the Raft log recovers a durable, gap-free prefix after a crash."""
import json
from dvlib import core, flow
from dvlib.core import Broken

ID = 'C18'
PROPS_FILE = 'theories/props/Properties_C18.v'
CONE = ['theories/BufLog.v', 'theories/LogCrash.v', 'theories/proofs/C18.v']
IMPORTS = 'From DE Require Import BufLog LogCrash.'
PROBE = 'logcrash'
SUFFIX = '-after-truncation-below-durable-index'

# ------------------------------------------------------------------ generator
class Ref:
    """Plain reference log used only to generate Raft-shaped operations (not an oracle)."""
    def __init__(self):
        self.pg = (0, 0); self.es = []; self.term = 1; self.pl = 0
    def last(self): return self.es[-1][0] if self.es else self.pg[0]
    def last_term(self): return self.es[-1][1] if self.es else self.pg[1]
    def term_at(self, i):
        for e in self.es:
            if e[0] == i: return e[1]
        return self.pg[1] if i == self.pg[0] and i > 0 else None
    def fresh(self, i, t):
        self.pl += 1; return [i, t, 1000 * self.pl + i]
    def apply_filter(self, prev, pterm, es):
        if prev == 0 and pterm == 0:
            self.es = [list(e) for e in es]; return
        if self.term_at(prev) != pterm: return
        last = self.last()
        for j, e in enumerate(es):
            if e[0] > last or self.term_at(e[0]) != e[1]:
                self.es = [x for x in self.es if x[0] < e[0]] + [list(x) for x in es[j:]]; return

def gen_ops(r, n, tag):
    ref = Ref(); ops = []
    for _ in range(n):
        x = r.below(100)
        if x < 38 or not ref.es and x < 70:
            if r.chance(1, 4): ref.term += 1
            t = max(ref.term, ref.last_term(), 1); ref.term = t
            es = [ref.fresh(ref.last() + 1 + j, t) for j in range(r.range(1, 4))]
            ref.es += es; ops.append([0, es]); tag('append')
        elif x < 70:
            lo = ref.pg[0]; last = ref.last()
            prev = r.range(max(lo, last - 5), last)
            if prev == 0:
                prev = 0 if not ref.es else ref.es[0][0]
            pterm = ref.term_at(prev) if prev > 0 else 0
            if pterm is None: continue
            wrong = r.chance(1, 12)
            es = []; i = prev + 1
            keep = r.range(0, 3)
            while keep > 0 and ref.term_at(i) is not None and i <= last:
                e = [x for x in ref.es if x[0] == i][0]; es.append(list(e)); i += 1; keep -= 1
            kind = r.below(3)
            if kind > 0:
                base = max(es[-1][1] if es else (pterm or 1), 1)
                nt = max(ref.term + 1, base + 1) if (i <= last or r.chance(1, 2)) else max(base, ref.last_term(), 1)
                for j in range(r.range(1, 4)):
                    es.append(ref.fresh(i + j, nt))
                ref.term = max(ref.term, nt)
            if prev == 0 and pterm == 0:
                if ref.pg[0] != 0: continue
                es = [ref.fresh(1 + j, max(ref.term, 1)) for j in range(r.range(1, 4))]; tag('filter-from-scratch')
            elif wrong:
                pterm += 1; tag('filter-prev-mismatch')
            elif es and es[0][0] <= last and any(ref.term_at(e[0]) not in (None, e[1]) for e in es):
                tag('filter-conflict')
            else:
                tag('filter-no-conflict')
            ops.append([1, prev, pterm, es])
            ref.apply_filter(prev, pterm, es)
        elif x < 82 and ref.es:
            c = r.range(ref.es[0][0], ref.last()); t = ref.term_at(c)
            ref.es = [e for e in ref.es if e[0] > c]; ref.pg = (c, t)
            ops.append([2, c, t]); tag('purge')
        elif x < 85:
            ref.es = []; ops.append([3]); tag('reset')
            if ref.pg[0] != 0: break   # appends after a reset above a purge boundary are not Raft-shaped
        else:
            ops.append([4]); tag('flush')
    if r.chance(1, 2):
        ops.append([4]); tag('flush')
    if r.chance(1, 3):
        ops.append([5]); tag('close')
    return ops

def gen_cases(run, thorough):
    r = run.rng('logcrash'); dist = {}
    def tag(t): dist[t] = dist.get(t, 0) + 1
    cases = []
    mult = 8 if thorough else 1
    for kind, n in ((0, 420 * mult), (1, 70 * mult), (2, 36 * mult)):
        for _ in range(n):
            cases.append([kind, gen_ops(r, r.range(2, 9), tag)]); tag('engine=%s' % ('mem', 'file', 'rocksdb')[kind])
    E = lambda i, t: [i, t, 100 * t + i]
    # boundary / directed cases (S6: truncation at or below the durable index), for each engine
    for kind in (0, 1, 2):
        cases.append([kind, [[0, [E(i, 1) for i in range(1, 11)]], [1, 5, 1, [E(6, 2)]], [0, [E(7, 2), E(8, 2)]], [4], [5]]]); tag('directed-s6-close')
        cases.append([kind, [[0, [E(i, 1) for i in range(1, 5)]], [1, 2, 1, [E(3, 2)]], [0, [E(4, 2), E(5, 2), E(6, 2)]], [4]]]); tag('directed-s6-gap')
        cases.append([kind, [[0, [E(1, 1), E(2, 1)]], [4], [2, 1, 1], [0, [E(3, 1)]], [4], [5]]]); tag('directed-purge')
        cases.append([kind, [[0, [E(1, 1), E(2, 1)]], [1, 0, 0, [E(1, 2), E(2, 2), E(3, 2)]], [4], [3], [0, [E(1, 3)]], [4]]]); tag('directed-reset')
        cases.append([kind, [[4], [0, [E(1, 1)]], [1, 1, 1, []], [1, 1, 1, [E(2, 1)]], [1, 0, 0, []]]]); tag('directed-empty')
    return cases, dist

# ------------------------------------------------------------------ oracle (property as stated, on implementation outputs)
def gapfree(es):
    return all(b[0] == a[0] + 1 for a, b in zip(es, es[1:]))

def oracle(case, out):
    """Returns the list of (class, why), at most one per class. `reported`: entries the log has reported durable
    (index <= durable_index(), or every entry when flush() returned Ok) and has not removed since. `replaced`: entries
    removed by filter_out_conflicts_and_append and not re-added."""
    kind, ops = case
    reported = {}; replaced = set(); replaced_at_flush = set(); prev_mem = []; prev_dur = 0; below = False
    found = {}
    for k, (op, o) in enumerate(zip(ops, out)):
        dur, mx, mem, rec_w, rec_s = o
        memset = {tuple(e) for e in mem}
        removed = [e for e in prev_mem if tuple(e) not in memset]
        if op[0] == 1 and removed:
            replaced |= {tuple(e) for e in removed}
            if min(e[0] for e in removed) <= prev_dur: below = True
        replaced -= memset
        reported = {i: e for i, e in reported.items() if tuple(e) in memset}
        for e in mem:
            if e[0] <= dur or op[0] == 4: reported[e[0]] = e
        if op[0] == 4: replaced_at_flush = set(replaced)
        replaced_at_flush &= replaced
        sfx = SUFFIX if below else ''
        for mode, rec in (('process crash', rec_w),) + ((('power loss', rec_s),) if kind == 0 else ()):
            recset = {tuple(e) for e in rec}
            where = 'after op %d %s, %s: ' % (k, json.dumps(op), mode)
            lost = [e for e in reported.values() if tuple(e) not in recset]
            if lost:
                found.setdefault('durable-entry-lost' + sfx, where + 'durable_index()=%d, entries %s were reported durable but the recovered log is %s' % (dur, json.dumps(sorted(lost)), json.dumps(rec)))
            if not gapfree(rec):
                found.setdefault('gap-in-recovered-log' + sfx, where + 'recovered log has an index gap: %s' % json.dumps([e[0] for e in rec]))
            back = recset & (replaced if mode == 'process crash' else replaced_at_flush)
            if back and mode == 'power loss' and not mem:
                # the live log is empty (purged or reset completely): flush() returns at once (max_index == 0) without asking
                # the store to sync, so the truncation / purge / reset before it is not durable although flush() said Ok
                found.setdefault('replaced-entry-came-back-after-flush-of-emptied-log', where + 'the log had been emptied by a purge or reset, flush() returned Ok without syncing the store (max_index = 0), and entries %s that a conflict truncation had replaced earlier are in the log recovered after power loss' % json.dumps(sorted(back)))
            elif back and kind == 1:
                # FileLogStore truncates log.data by file position (C20 known finding file-entries-after-reopen): once the IO
                # thread has re-persisted a replacement tail (it does since 50a24e0), records are no longer in index order in
                # the file and a later truncation cuts at the wrong place
                found.setdefault('replaced-entry-came-back-file-store-positional-truncate', where + 'FileStorageEngine: entries %s had been replaced by a conflict truncation and are in the recovered log (the file holds re-written records; FileLogStore::replace_range cut it by position)' % json.dumps(sorted(back)))
            elif back:
                found.setdefault('replaced-entry-came-back' + sfx, where + 'entries %s had been replaced by a conflict truncation%s and are in the recovered log' % (json.dumps(sorted(back)), '' if mode == 'process crash' else ' before the last successful flush()'))
        prev_mem = mem; prev_dur = dur
    return sorted(found.items())

# ------------------------------------------------------------------ Raft-thread steps placed inside the IO thread's window
def gated_cases(r, n):
    """probe `resetrace`: the store's flush() is gated so that a second AppendEntries with prev_log_index = 0 (a duplicated
    or retried first request) runs its reset while the IO thread is between persist_entries() and the advance of
    durable_index for the first one; plus the same sequences without a gate under random yields/sleeps."""
    E = lambda i, t: [i, t, 100 * t + i]
    cases = []
    for k in range(n):
        t = r.range(1, 4); k1 = r.range(1, 4); k2 = r.range(1, 5)
        first = [E(i, t) for i in range(1, k1 + 1)]; second = [E(i, t) for i in range(1, k2 + 1)]
        more = [E(k2 + 1 + j, t) for j in range(r.range(1, 3))]
        if k % 3 == 0:
            steps = [[0, 0, 0, first], [1, r.range(0, 6)], [0, 0, 0, second], [2, r.range(1, 3)], [0, k2, t, more], [3]]
        else:
            steps = [[4], [0, 0, 0, first], [5], [6, 0, 0, second], [7], [8], [0, k2, t, more], [3]]
        cases.append([r.choice([1, 1000]), steps])
    return cases

def gated_oracle(case, out):
    mem, disk, dur, journal = out
    if mem != disk:
        return ('reset-races-with-inflight-fsync', 'after flush() returned the log holds indexes %s but the store holds %s (durable_index()=%d); store journal: %s' % (mem, disk, dur, ' | '.join(journal)))
    return None

def run_cases(cases):
    outs = core.probe_parallel(PROBE, cases, jobs=8)
    return outs

def check(run):
    thorough = run.tier == 'thorough'
    run.cov['trusted_base'] += [
        "hand-written model DE.LogCrash (IO task batch_processor as one step per select! arm, two-layer store, caller side of append/filter/purge/reset/flush/close) over DE.BufLog, tied to the code by the logcrash probe",
        "harness: real BufferedRaftLog with its real IO thread; the probe lets the IO thread go idle after every call (caller op -> IO idle -> crash point), idle safety timer disabled; process crash = clone of the written map (in-memory store) or copy of the data directory (File, RocksDB) reopened through BufferedRaftLog::new; power loss only on the in-memory two-layer store",
    ]
    run.assumptions += ["crash points of the correspondence are the points where the IO thread is idle; crash points inside an IO arm and interleavings of IO arms with a blocked caller are covered only by the model (they need the proposed step-wise hook hooks/buffered_raft_log_stepwise.diff)",
                        "the stores' own contract (C20) is used in-class: BufferedRaftLog writes indexes in increasing order between truncations"]
    broken = flow.proof_step(run, PROPS_FILE, CONE)
    violations = []
    try:
        core.harness_build()
        cases, dist = gen_cases(run, thorough)
        outs = run_cases(cases)
        pairs = []; idx = []
        for i, (c, o) in enumerate(zip(cases, outs)):
            if isinstance(o, str):
                broken.append(('correspondence', 'logcrash probe error', (json.dumps(c) + ' -> ' + o)[:400])); continue
            res = oracle(c, o)
            # the model assumes the store contract (C20); a case in which FileLogStore's positional truncation (C20 known
            # finding) shows is a known finding here and is left out of the model comparison
            if not any(cls == 'replaced-entry-came-back-file-store-positional-truncate' for cls, _ in res):
                pairs.append((c, o)); idx.append(i)
            else:
                dist['left-out-of-model-comparison (file store contract broken, C20)'] = dist.get('left-out-of-model-comparison (file store contract broken, C20)', 0) + 1
            for cls, why in res:
                dist['violating:' + cls] = dist.get('violating:' + cls, 0) + 1
                violations.append({'class': cls, 'probe': PROBE, 'input': c, 'output': o, 'why': why})
        mism = core.coq_index_list(IMPORTS, '', 'crash_probe', pairs, tag='C18', shard=120)
        if mism:
            # the IO thread is a real OS thread: a late wake-up shifts the schedule; run the disagreeing cases once more
            again = [pairs[i][0] for i in mism]
            outs2 = core.probe(PROBE, again)
            pairs2 = [(c, o) for c, o in zip(again, outs2) if not isinstance(o, str)]
            m2 = core.coq_index_list(IMPORTS, '', 'crash_probe', pairs2, tag='C18r', shard=120)
            run.cov['rescheduled'] = len(mism)
            mism = m2
            if m2:
                c, o = pairs2[m2[0]]
                broken.append(('correspondence', 'DE.LogCrash (crash_probe) vs BufferedRaftLog + IO thread (probe logcrash)',
                               '%d disagreements; first on %s -> impl %s' % (len(m2), json.dumps(c), json.dumps(o))))
        run.cov['disagreements'] = len(mism)
        gc = gated_cases(run.rng('gated'), 240 if thorough else 60)
        gouts = core.probe_parallel('resetrace', gc, jobs=8)
        gok = 0
        for c, o in zip(gc, gouts):
            if isinstance(o, str):
                broken.append(('harness', 'resetrace probe error', (json.dumps(c) + ' -> ' + o)[:400])); continue
            gok += 1
            v = gated_oracle(c, o)
            if v:
                dist['violating:' + v[0]] = dist.get('violating:' + v[0], 0) + 1
                violations.append({'class': v[0], 'probe': 'resetrace', 'input': c, 'output': o, 'why': v[1]})
        dist['gated-reset-inside-fsync-window'] = sum(1 for c in gc if c[1][0] == [4]); dist['ungated-reset-sequences'] = len(gc) - dist['gated-reset-inside-fsync-window']
        run.cov['gated_interleavings'] = gok
        run.add_cases(len(pairs), len({json.dumps(c) for c, _ in pairs}), [{'case': pairs[j][0], 'impl': pairs[j][1]} for j in (0, len(pairs) - 1)], dist,
                      'seeded: Raft-shaped sequences of 2-10 calls (append, filter with overlap/conflict/mismatching prev/from-scratch, purge, reset, flush, close) on the in-memory two-layer store, FileStorageEngine and RocksDBStorageEngine; a crash point after every call; directed boundary cases per engine; distinct = distinct cases')
    except Broken as b:
        broken.append(('harness', b.what, b.detail))
    return flow.conclude(run, broken, violations)

def replay(path):
    r = json.load(open(path))
    if r.get('kind') != 'counterexample':
        print('broken obligation:', [b['name'] for b in r.get('broken', [])]); return 1
    core.harness_build()
    if r.get('probe') == 'resetrace':
        out = core.probe('resetrace', [r['input']])[0]
        print('implementation output:', json.dumps(out)); v = gated_oracle(r['input'], out)
        print('VIOLATES (%s): %s' % v if v else 'ok'); return 1 if v else 0
    out = core.probe(PROBE, [r['input']])[0]
    print('implementation output:', json.dumps(out)); v = oracle(r['input'], out)
    for cls, why in v: print('VIOLATES (%s): %s' % (cls, why))
    if not v: print('ok')
    return 1 if v else 0

META = {
    'title': 'The Raft log recovers a durable, gap-free prefix after a crash',
    'level': 'proof',
    'technique': 'Rocq: executable model of the IO task (one step per select! arm, handle_non_write_cmd as coded after 50a24e0/14795f4) over a two-layer store; the property is PROVED for every Raft-shaped call sequence (C19.shaped) under the schedule "call, then IO thread idle" by an invariant of the idle states (induction over the run, reusing the refinement BufLog -> PLog of C19); the code before the fixes is kept as run_old with the old refutations as history theorems; differential check of the model against the real BufferedRaftLog + IO thread over the in-memory, File and RocksDB stores with a crash point after every call; the property itself is evaluated on the implementation outputs at every crash point; gated interleavings (probe resetrace) for the reset / in-flight fsync window',
    'text': "Rocq, for ALL Raft-shaped runs (lshaped_run: every call satisfies C19.shaped in the state it is issued; each call followed by the IO thread going idle = the crash points of the probe): C18_process_crash_recovers_log (the log recovered after a process crash IS the live log: every entry reported durable is there, no gap, nothing replaced comes back), C18_power_loss_keeps_durable (after power loss: no gap, every live entry at or below durable_index() is recovered, durable_index() <= last index), C18_flush_makes_log_durable (after flush() = Ok: durable_index() >= last index, every live entry recovered in both modes, no replaced entry at a live index comes back after power loss), C18_close_persists_log (after close() both store layers hold exactly the live log), C18_idle_invariant_step (the invariant Q, one step), C18_hypotheses_satisfiable (non-vacuity: a run with a conflict truncation below durable_index), C18_filter_act_memory_effect (the caller-side branch function of the model has the memory effect of BufLog.b_filter_append). For ALL states: C18_truncation_lowers_durable (the ReplaceRange arm lowers durable_index and pending_max to truncate_from-1), C18_flush_short_circuit_partial, C18_io_never_writes_at_or_below_durable_partial. History (code before 50a24e0 / 14795f4, run_old): C18_history_unrepaired_durable_lost / _gap / _resurrection_power_loss / _truncation_keeps_durable / _reset_stale_durable. NOT proved: crash points inside an IO arm and IO arms interleaved with a blocked caller (model-only windows purge_race_gap, replace_race_window in proofs/C18.v); runs that are not Raft-shaped.",
    'note': "Trusted: Coq kernel, hand model LogCrash/BufLog (validated by the probe on every run, 0 disagreements), the probe's idle detection (the oracle does not depend on it: what the log reports is read before the crash copy is taken). The three violation classes '...-after-truncation-below-durable-index' were repaired by 50a24e0 and 'reset-races-with-inflight-fsync' by 14795f4 (known_findings.json, status fixed); the oracle is unchanged and still reports them if they reappear. The theorems cover the schedule of the probe (IO thread idle between calls); two windows exist in the model only (purge_race_gap, replace_race_window: an IO arm running while the caller is blocked on a done channel) and need the proposed step-wise hook to be replayed.",
    'design_ref': 'DESIGN.md §4 C18',
}
