"""C01 — election safety: at most one leader per term."""
from dvlib import cluster

ID = 'C01'
PROPS_FILE = 'theories/props/Properties_C01.v'
CONE = ['theories/Election.v', 'theories/AbstractRaft.v', 'theories/proofs/C02.v', 'theories/proofs/C01.v', 'theories/proofs/AR_election.v']
ORACLES = [cluster.election_safety]

def check(run):
    run.cov['trusted_base'] += [
        "refinement check (dvlib/refine.py + DE.ARExec): every simulated execution is replayed inside Coq, label by label, as an execution of DE.AbstractRaft from ainit (aexec, proved sound w.r.t. astep: Refine_exec_sound / Refine_trace_reaches) and the abstract state is compared with the observed terms (concrete = abstract + 1), logs and commit indexes of all nodes after every step; trusted: the observation function (obs_matches, highest-commit-index-held for a restarted node) and the probe; the label reconstruction is only a proposal that Coq accepts or refuses; steps without abstract counterpart are counted per documented class in evidence.outside_abstract_system",
        "hand-written node model DE.Election (vote/term/role handling of the role states, ElectionHandler and Raft::handle_internal_event), tied to the code by the node-level correspondence of the `cluster` probe (hooks Raft::verif_*)",
        "abstract system DE.AbstractRaft: its guards (vote once per term, leader backed by a strict majority of grants, up-to-date check) are the obligations the node model is proved to meet; the refinement concrete cluster -> abstract system is argued in DESIGN.md and validated on the simulated executions, not proved",
        "harness cluster simulator: real Raft objects, real BufferedRaftLog, MockMembership with a static voter set, simulated transport; real-time election timers (5-10 ms)",
    ]
    run.assumptions += ["static membership (membership changes: C26)", "persistent state survives restarts (state loss on kill: C02/C21 known findings)"]
    return cluster.check_cluster_property(run, PROPS_FILE, CONE, ORACLES, kills=False, histories=True, refine=True)

def replay(path): return cluster.replay_cluster(path, ORACLES)

META = {
    'title': 'Election safety: at most one leader per term',
    'level': 'proof',
    'technique': 'Rocq: election safety of the abstract Raft system (quorum intersection over vote-once, majority-backed leaders) + node-level theorems on the election model (vote once, leader backed) + differential check of the node model and safety oracle on simulated clusters of real Raft nodes',
    'text': "Rocq: (1) AR election_safety — in every reachable state of DE.AbstractRaft two leaders of one term are the same node; (2) the guards it relies on are proved on the node model DE.Election for every event sequence: vote_once_run (no two unflagged grants in one term), leader_backed (a node turns leader only with grants of a strict majority of voters or as the only voter), term_monotone_run; (3) the node model is replayed against one real Raft node (vote requests, AppendEntries, timeouts with canned rounds, same-term step-downs, restarts), and 3-/5-node clusters of real Raft objects are run under seeded fault schedules with the safety oracle evaluated on every execution.",
    'note': "Trusted: Coq kernel; node model Election (probe-validated); the mapping cluster -> AbstractRaft is not proved (stated in DESIGN.md). Static membership only; crash = graceful restart here (kill loses the hard state: C02). The unchanged tree violated the property (same-term step-down erased the vote); repaired by a fix: commit.",
    'design_ref': 'DESIGN.md §4 C01',
}
