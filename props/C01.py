"""C01 — election safety: at most one leader per term."""
import json
from dvlib import cluster, core

ID = 'C01'
PROPS_FILE = 'theories/props/Properties_C01.v'
CONE = ['theories/Election.v', 'theories/AbstractRaft.v', 'theories/proofs/C02.v', 'theories/proofs/C01.v', 'theories/proofs/AR_election.v']
ORACLES = [cluster.election_safety]

# ---- one election round of the real ElectionHandler over the real GrpcTransport (probe vote_round) ----
def vote_round_cases(r, n):
    cases = []
    for k in range(n):
        size = r.range(1, 6); me = r.range(1, 7)
        ids = r.shuffle([i for i in range(1, 9)])[:size]
        if r.chance(1, 4): ids.append(me)                       # the membership lists the candidate itself
        if r.chance(1, 5) and ids: ids.append(r.choice(ids))    # a duplicate
        style = r.below(4)
        vs = []
        for i in ids:
            if style == 0: kind = r.choice([0, 0, 1, 2])
            elif style == 1: kind = r.choice([0, 1, 1, 1])      # a partition: most peers cannot be reached at all
            elif style == 2: kind = r.choice([0, 0, 0, 3, 1])
            else: kind = r.choice([0, 1, 2, 3])
            vs.append([i, kind])
        cases.append([me, r.range(1, 9), r.shuffle(vs)])
    # directed: the minority side of a partition (no channel to the far side), 4 and 5 voters
    cases += [[1, 2, [[2, 0], [3, 1], [4, 1], [5, 1]]], [1, 2, [[2, 0], [3, 1], [4, 1]]], [1, 2, [[2, 0], [3, 0], [4, 1], [5, 1]]],
              [2, 3, [[1, 1], [3, 1]]], [1, 2, [[2, 0], [3, 2], [4, 2], [5, 2]]], [1, 2, [[1, 0], [2, 0], [3, 1], [4, 1], [5, 1], [6, 1]]]]
    return cases

def vote_round_oracle(case, out):
    """C01 at the level of one round: a candidate that wins holds, with its own vote, grants of a strict majority of
    ALL voters the membership lists (itself included) - reachable or not."""
    me, term, vs = case; won, code, ids, nresp, ngrant = out
    voters = {v[0] for v in vs if v[0] != me}
    first = {}
    for v in vs: first.setdefault(v[0], v[1])
    can_grant = sum(1 for i in voters if first[i] == 0)    # only these voters grant at all in this case
    if won and 2 * (can_grant + 1) <= len(voters) + 1:
        return ('round-won-without-majority-of-all-voters', 'candidate %d won term %d although at most %d voter(s) grant: with its own vote that is %d out of %d voters (the transport reported the electorate %s; voters listed %s)' % (me, term, can_grant, can_grant + 1, len(voters) + 1, ids, sorted(voters)))
    return None

def vote_rounds(run, broken, violations, thorough):
    r = run.rng('vote_round'); cases = vote_round_cases(r, 240 if thorough else 70)
    outs = core.probe_parallel('vote_round', cases, jobs=8, timeout=900)
    pairs = []; dist = {}
    for c, o in zip(cases, outs):
        if isinstance(o, str): broken.append(('harness', 'vote_round probe error', (json.dumps(c) + ' -> ' + o)[:300])); continue
        v = vote_round_oracle(c, o)
        if v: violations.append({'class': v[0], 'probe': 'vote_round', 'input': c, 'output': o, 'why': v[1]})
        # canonical form for the correspondence: [won, electorate in order of first occurrence in the case]
        order = []
        for x in c[2]:
            if x[0] in o[2] and x[0] not in order: order.append(x[0])
        extra_ids = [i for i in o[2] if i not in order]
        pairs.append((c, [o[0], order + extra_ids]))
        dist['won' if o[0] else ('quorum-failure', 'quorum-failure', 'higher-term', 'denied-or-other')[o[1]]] = dist.get('won' if o[0] else ('quorum-failure', 'quorum-failure', 'higher-term', 'denied-or-other')[o[1]], 0) + 1
    mism = core.coq_index_list('From DE Require Import Election.', '', 'vote_round_probe', pairs, tag='C01vr')
    if mism:
        # real sockets: on a loaded machine an RPC to a reachable voter can still fail; run the disagreeing rounds once more
        again = [pairs[i][0] for i in mism]; outs2 = core.probe('vote_round', again); p2 = []
        for c, o in zip(again, outs2):
            if isinstance(o, str): continue
            order = [x[0] for k, x in enumerate(c[2]) if x[0] in o[2] and x[0] not in [y[0] for y in c[2][:k]]]
            p2.append((c, [o[0], order + [i for i in o[2] if i not in order]]))
        m2 = core.coq_index_list('From DE Require Import Election.', '', 'vote_round_probe', p2, tag='C01vr2')
        run.cov['vote_rounds_rerun'] = len(mism); pairs_m = p2; mism = m2
    else:
        pairs_m = pairs
    if mism:
        c, o = pairs_m[mism[0]]
        broken.append(('correspondence', 'DE.Election.vote_round_probe vs ElectionHandler::broadcast_vote_requests over GrpcTransport::send_vote_requests (probe vote_round)',
                       '%d disagreements; first on %s -> impl [won, electorate] = %s' % (len(mism), json.dumps(c), json.dumps(o))))
    run.cov['vote_rounds'] = len(pairs); run.cov['vote_round_outcomes'] = dist

def check(run):
    run.cov['trusted_base'] += [
        "refinement check (dvlib/refine.py + DE.ARExec): every simulated execution is replayed inside Coq, label by label, as an execution of DE.AbstractRaft from ainit (aexec, proved sound w.r.t. astep: Refine_exec_sound / Refine_trace_reaches) and the abstract state is compared with the observed terms (concrete = abstract + 1), logs and commit indexes of all nodes after every step; trusted: the observation function (obs_matches, highest-commit-index-held for a restarted node) and the probe; the label reconstruction is only a proposal that Coq accepts or refuses; steps without abstract counterpart are counted per documented class in evidence.outside_abstract_system",
        "hand-written node model DE.Election (vote/term/role handling of the role states, ElectionHandler and Raft::handle_internal_event), tied to the code by the node-level correspondence of the `cluster` probe (hooks Raft::verif_*)",
        "abstract system DE.AbstractRaft: its guards (vote once per term, leader backed by a strict majority of grants, up-to-date check) are the obligations the node model is proved to meet; the refinement concrete cluster -> abstract system is argued in DESIGN.md and validated on the simulated executions, not proved",
        "harness cluster simulator: real Raft objects, real BufferedRaftLog, MockMembership with a static voter set, simulated transport; real-time election timers (5-10 ms)",
    ]
    run.assumptions += ["static membership (membership changes: C26)", "persistent state survives restarts (state loss on kill: C02/C21 known findings)"]
    return cluster.check_cluster_property(run, PROPS_FILE, CONE, ORACLES, kills=False, histories=True, refine=True, extra=vote_rounds)

def replay(path):
    r = json.load(open(path))
    if r.get('probe') == 'vote_round':
        core.harness_build()
        out = core.probe('vote_round', [r['input']])[0]
        print('implementation output [won, code, electorate, responses, grants]:', json.dumps(out)); v = vote_round_oracle(r['input'], out)
        print('VIOLATES (%s): %s' % v if v else 'ok'); return 1 if v else 0
    return cluster.replay_cluster(path, ORACLES)

META = {
    'title': 'Election safety: at most one leader per term',
    'level': 'proof',
    'technique': 'Rocq: election safety of the abstract Raft system (quorum intersection over vote-once, majority-backed leaders) + node-level theorems on the election model (vote once, leader backed) + differential check of the node model and safety oracle on simulated clusters of real Raft nodes',
    'text': "Rocq: (1) AR election_safety — in every reachable state of DE.AbstractRaft two leaders of one term are the same node; (2) the guards it relies on are proved on the node model DE.Election for every event sequence: vote_once_run (no two unflagged grants in one term), leader_backed (a node turns leader only with grants of a strict majority of voters or as the only voter), term_monotone_run; (3) the node model is replayed against one real Raft node (vote requests, AppendEntries, timeouts with canned rounds, same-term step-downs, restarts), and 3-/5-node clusters of real Raft objects are run under seeded fault schedules with the safety oracle evaluated on every execution.",
    'note': "Trusted: Coq kernel; node model Election (probe-validated); the mapping cluster -> AbstractRaft is not proved (stated in DESIGN.md). Static membership only; crash = graceful restart here (kill loses the hard state: C02). The unchanged tree violated the property (same-term step-down erased the vote); repaired by a fix: commit.",
    'design_ref': 'DESIGN.md §4 C01',
}
