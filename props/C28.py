"""C28 — membership survives restart."""
import json
from dvlib import core, flow
from dvlib.core import Broken
from props import mgen

ID = 'C28'
PROPS_FILE = 'theories/props/Properties_C28.v'
CONE = mgen.CONE + ['theories/proofs/C28.v']

def gen_cases(run, thorough):
    r = run.rng('hist'); dist = {}; cases = [mgen.expansion_case()]
    n = 4000 if thorough else 500
    for k in range(n):
        c = mgen.history(r, dist, want=('change', 'restart', 'elect'))
        if k % 2 == 0:                     # restart of the node at the end of the history, then changes committed after the restart
            c[2].append([5]); c[2].append([6, []])
            c[2] += mgen.history(r, {}, want=('change',), nsteps=r.range(0, 3))[2]
        cases.append(c)
    # boundary: restart with nothing applied; restart right after one change of every kind
    for n0 in range(1, 6):
        init = [[i, mgen.FOLLOWER, mgen.ACTIVE] for i in range(1, n0 + 1)]
        cases.append([1, init, [[5]]])
        for ch in ([0, 9, 1], [1, n0], [2, n0], [3, [n0], 3], [4, [n0]], [0, 9, 3]):
            cases.append([n0, init, [ch, [5], [5]]])
    return cases, dist

def oracle(case, out):
    """After a restart the node's members / voters / replication peers must be what they were before it
    (= initial configuration + every change the node itself had applied, as reported by the implementation)."""
    vs = mgen.views(out)
    for k, step in enumerate(case[2]):
        if step[0] != 5: continue
        before, after = vs[k], vs[k + 1]
        if before[1] != after[1] or before[2] != after[2] or before[3] != after[3]:
            return ('restart-falls-back-to-initial-config',
                    'before the restart members=%s voters=%s, after it members=%s voters=%s (initial configuration %s)' % (before[1], before[2], after[1], after[2], case[1]))
    return None

def node_cases(run, thorough):
    """a REAL node (NodeBuilder + FileStorageEngine + FileStateMachine) restarted gracefully (mode 1) or from a crash image (mode 0)"""
    r = run.rng('node'); cases = [[[2, 3], 1], [[], 1], [[2], 0], [[1, 2], 1]]
    for _ in range(20 if thorough else 4):
        ids = r.shuffle([2, 3, 4, 5, 6])[:r.range(1, 3)]
        cases.append([ids, 1 if r.chance(2, 3) else 0])
    return cases

def run_node_cases(cases):
    """the real node prints banners on stdout; take the one line that is the probe's JSON answer"""
    import concurrent.futures
    def one(c):
        rc, out, err = core.sh([core.DPROBE, 'node_restart'], inp=json.dumps(c) + '\n', timeout=120, env={'RUST_BACKTRACE': '0'})
        for l in out.splitlines():
            if l.startswith('[[') or l.startswith('"'):
                try: return json.loads(l)
                except ValueError: pass
        return 'no answer (rc=%s) %s' % (rc, (out + err)[-300:])
    with concurrent.futures.ThreadPoolExecutor(max_workers=4) as ex:
        return list(ex.map(one, cases))

def oracle_node(case, out):
    jres, before, after, _ = out
    if before != after:
        return ('restart-falls-back-to-initial-config',
                'real node (%s restart): GetClusterMetadata before the restart %s, after it %s' % ('graceful' if case[1] == 1 else 'crash-image', before, after))
    return None

def check(run):
    thorough = run.tier == 'thorough'
    run.cov['trusted_base'] += [
        "hand-written model DE.Membership (member map, apply_config_change, restart = RaftMembership::new(self, initial_cluster)), tied to the code by the membership probe",
        "harness: the restart step constructs a fresh RaftMembership from the same initial_cluster through RaftMembership::verif_new (= RaftMembership::new), which is what NodeBuilder::build does; the structural facts about builder.rs are re-checked on every run (mgen.builder_facts)",
        "config entries at or below the state machine's applied index are not processed again after a restart (DefaultStateMachineHandler::pending_range starts at last_applied + 1; FollowerState::new starts the commit index at the applied index) — read from the source, re-checked as text facts",
    ]
    run.assumptions += ["the node restarts with the same configuration file (initial_cluster) it was started with, as in the documented procedures"]
    broken = flow.proof_step(run, PROPS_FILE, CONE)
    for f in mgen.builder_facts(core.REPO):
        broken.append(('structural-fact', 'builder.rs / raft_membership.rs', f))
    violations = []
    try:
        core.harness_build()
        cases, dist = gen_cases(run, thorough)
        outs = core.probe_parallel('membership', cases)
        pairs = []
        for c, o in zip(cases, outs):
            if isinstance(o, str):
                broken.append(('correspondence', 'membership probe error', o[:300])); continue
            pairs.append((c, o))
            why = oracle(c, o)
            if why:
                violations.append({'class': why[0], 'probe': 'membership', 'input': c, 'output': o, 'why': why[1]})
        mgen.correspondence(broken, run, 'memb_probe', pairs, 'C28', 'DE.Membership vs RaftMembership (probe membership)')
        dist['restarts'] = sum(1 for c, _ in pairs for s in c[2] if s[0] == 5)
        # the same question asked to a real node through the public API only
        nc = node_cases(run, thorough); nouts = run_node_cases(nc); npairs = []
        for c, o in zip(nc, nouts):
            if isinstance(o, str) or not (isinstance(o, list) and len(o) == 4 and isinstance(o[1], list) and isinstance(o[2], list)):
                broken.append(('correspondence', 'node_restart probe error', json.dumps(o)[:300])); continue
            npairs.append((c, o))
            why = oracle_node(c, o)
            if why:
                violations.append({'class': why[0], 'probe': 'node_restart', 'input': c, 'output': o, 'why': why[1]})
        # graceful restarts are deterministic and compared with the model; a crash image depends on what the state
        # machine had persisted (entries above its persisted applied index are re-applied), only the oracle judges it
        mgen.correspondence(broken, run, 'node_restart_probe', [p for p in npairs if p[0][1] == 1], 'C28node', 'DE.Membership.restart vs a real Node restarted through NodeBuilder (probe node_restart)')
        dist['real-node-restarts'] = len(npairs); dist['real-node-crash-image'] = sum(1 for c, _ in npairs if c[1] == 0)
        dist['real-node-view-kept'] = sum(1 for c, o in npairs if o[1] == o[2])
        run.cov['evaluations'] += len(npairs); run.cov['traces_validated_against_impl'] += len(npairs)
        run.add_cases(len(pairs), len({json.dumps(c) for c, _ in pairs}), [{'case': pairs[j][0], 'impl': pairs[j][1]} for j in (0, len(pairs) - 1)], dist,
                      'seeded membership histories with restarts at arbitrary points (also twice in a row, with nothing applied, right after one change of every kind) and changes committed after the restart; the view after each restart is compared with the view the implementation itself reported before it')
    except Broken as b:
        broken.append(('harness', b.what, b.detail))
    return flow.conclude(run, broken, violations)

def replay(path):
    r = json.load(open(path))
    if r.get('kind') != 'counterexample':
        print('broken obligation:', [b['name'] for b in r.get('broken', [])]); return 1
    core.harness_build()
    if r.get('probe') == 'node_restart':
        out = run_node_cases([r['input']])[0]
        print('implementation output:', json.dumps(out)); why = None if isinstance(out, str) else oracle_node(r['input'], out)
    else:
        out = core.probe('membership', [r['input']])[0]
        print('implementation output:', json.dumps(out)); why = oracle(r['input'], out)
    print('VIOLATES: %s — %s' % why if why else 'ok'); return 1 if why else 0

META = {
    'title': 'Membership survives restart',
    'level': 'proof',
    'technique': 'Rocq theorems on the membership model (the restarted view is the initial configuration; refutation witness; exact class where the property holds) + differential check of the real RaftMembership rebuilt the way NodeBuilder::build does + text facts on builder.rs',
    'text': "Rocq: C28_restart_falls_back_to_initial — for every initial configuration and every applied change history, the view after a restart equals RaftMembership::new(initial_cluster); C28_changes_after_restart_start_from_initial; C28_restart_refuted — node 1 booted alone, node 2 joined and was promoted, after the restart node 1 has no voter left and (C03) wins an election alone; C28_restart_view_partial — the property holds exactly for histories whose applied changes left the member map as configured. The model is replayed against the real RaftMembership, and the view after each restart is compared with the view the implementation reported just before.",
    'note': "The full statement is false on the code (known finding restart-falls-back-to-initial-config): nothing persists or replays applied membership changes. Trusted: Coq kernel, hand model, the probe's restart step mirrors builder.rs (facts re-checked textually on each run). Needs the add-only hook RaftMembership::verif_new.",
    'design_ref': 'DESIGN.md §4 C28',
}
