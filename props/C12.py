"""C12 — lease reads are served only under a valid leader lease."""
import json
from dvlib import core, flow
from dvlib.core import Broken
from props import lease_common as lc

ID = 'C12'
PROPS_FILE = 'theories/props/Properties_C12.v'
CONE = ['theories/Lease.v', 'theories/LeaderRead.v', 'theories/proofs/C12.v', 'theories/ReadActor.v', 'theories/proofs/C12actor.v']
IMPORTS = 'From DE Require Import BufLog LeaderRead Lease.'
M48 = (1 << 48) - 1

def gen_ds(run, thorough):
    r = run.rng('ds'); cases = []
    for _ in range(3000 if thorough else 400):
        ops = []; terms = [r.range(0, 5), r.range(65530, 65540), r.range(1 << 16, 1 << 20), (1 << 64) - 1]
        dls = [0, 1, r.range(2, 5000), M48, M48 + 1, M48 - 1, (1 << 64) - 1, r.range(1, M48)]
        for _ in range(r.range(3, 12)):
            x = r.below(10); t = r.choice(terms); d = r.choice(dls)
            if x < 3: ops.append([0, t, d])
            elif x < 4: ops.append([1])
            elif x < 5: ops.append([2, t])
            elif x < 7: ops.append([3, r.choice([0, d, max(d, 1) - 1, d + 1 if d < (1 << 64) - 1 else d])])
            else: ops.append([4, r.choice([t, t + 65536 if t < (1 << 63) else t, t ^ 1]), r.choice([0, max(d, 1) - 1, d])])
        cases.append(ops)
    return cases

def oracle_ds(ops, out):
    """the data-structure clauses as stated: revoke/invalidate => invalid until the next renew; validity only before the deadline"""
    dl = 0
    for o, r in zip(ops, out):
        if o[0] == 0 and r == 2: dl = o[2]
        elif o[0] in (1, 2) and r == 2: dl = 0
        elif o[0] == 3 and r == 1 and not o[1] < dl: return 'is_valid(%d) is true with deadline %d' % (o[1], dl)
        elif o[0] == 4 and r == 1 and not o[2] < dl: return 'is_valid_for_leader(now=%d) is true with deadline %d' % (o[2], dl)
    return None

def oracle_cluster(case, out):
    """lease reads answered (node, time, term) vs votes granted / acks delivered / step-down decisions"""
    for e in lc.timeline(case, out):
        for j in e['served']:
            if e['kinds'][j] != 0: continue
            t, n, lease = e['t1'], e['n'], e['lease']
            if e['stepdown_at'] is not None:
                return ('lease-read-served-after-stepdown-decision',
                        'lease read %d answered at %d ms after the leader handled a higher-term message at %d ms' % (j, t, e['stepdown_at']))
            nv = sum(1 for f, tv in e['votes'].items() if tv <= t)
            if 2 * (nv + 1) > n:
                return ('lease-read-after-other-node-won',
                        'lease read %d answered by node 1 (term 3) at %d ms; voters %s had granted their vote for term 4 to node %d before (with its own vote: %d of %d)'
                        % (j, t, sorted(e['votes']), n, nv + 1, n))
            fresh = {f for (ta, f, g) in e['acks'] if ta + lease > t}
            if 2 * (len(fresh) + 1) <= n:
                return ('lease-read-without-fresh-majority',
                        'lease read %d answered at %d ms; voters that acknowledged within the last %d ms: %s (+leader) of %d' % (j, t, lease, sorted(fresh), n))
    return None

def check(run):
    thorough = run.tier == 'thorough'
    run.cov['trusted_base'] += [
        "hand-written models DE.Lease (ReadLease cell; timed protocol with the code's three design decisions as flags) and DE.LeaderRead (leader read paths as coded), tied to the code by probes lease_ds and lease_cluster",
        "harness lease_cluster: real Raft<SimTC> leader (through BecomeCandidate/BecomeLeader) and real follower nodes; the network is the case (messages are delivered by events); real monotonic clock now_ms(), cases where an event straddled two milliseconds are left out of the model comparison (counted)",
        "config part: DE.Gen.Config regenerated from config/raft.rs (C34)",
    ]
    run.assumptions += ["one global clock without drift (timed model)", "message delay is unbounded; acks carry no request identity (bidi stream), as in the code",
                        "the challenger is a voter that never received the leader's AppendEntries"]
    broken = flow.proof_step(run, PROPS_FILE, CONE)
    violations = []
    try:
        core.harness_build()
        # 1. ReadLease cell
        ds = gen_ds(run, thorough)
        outs = core.probe_parallel('lease_ds', ds)
        pairs = []
        for c, o in zip(ds, outs):
            if isinstance(o, str): broken.append(('correspondence', 'lease_ds probe error', o[:300])); continue
            pairs.append((c, o)); why = oracle_ds(c, o)
            if why: violations.append({'class': 'readlease-cell', 'probe': 'lease_ds', 'input': c, 'output': o, 'why': why})
        mism = core.coq_index_list(IMPORTS, '', 'lease_ds_probe', pairs, tag='C12ds')
        if mism:
            i = mism[0]; broken.append(('correspondence', 'DE.Lease.rl_step vs ReadLease (probe lease_ds)', '%d disagreements; first on %s -> impl %s' % (len(mism), json.dumps(pairs[i][0]), json.dumps(pairs[i][1]))))
        run.add_cases(len(pairs), len({json.dumps(c) for c, _ in pairs}), [{'case': pairs[0][0], 'impl': pairs[0][1]}], {'readlease-op-sequences': len(pairs)},
                      'seeded ReadLease op sequences with boundary terms (16-bit wrap) and deadlines (48-bit bound, 0, u64::MAX)')
        # 2. leader + followers
        cases, dist = lc.gen_cases(run, thorough, 'cluster')
        pc, pdist = lc.gen_cases(run, thorough, 'proto', proto_only=True)
        outs = lc.probe_cluster(cases + pc)
        lp = []; pp = []; unstable = 0
        for idx, (c, o) in enumerate(zip(cases + pc, outs)):
            if isinstance(o, str): broken.append(('correspondence', 'lease_cluster probe error', o[:300])); continue
            v = oracle_cluster(c, o)
            if v: violations.append({'class': v[0], 'probe': 'lease_cluster', 'input': c, 'output': o, 'why': v[1]})
            if not lc.stable(c, o): unstable += 1; continue
            lp.append((lc.model_input(c, o), lc.model_expected(o)))
            if idx >= len(cases): pp.append((lc.proto_input(c, o), lc.proto_expected(c, o)))
        m1 = core.coq_index_list(IMPORTS, '', 'leader_probe', lp, tag='C12leader', shard=60)
        m2 = core.coq_index_list(IMPORTS, '', 'proto_probe', pp, tag='C12proto', shard=60)
        if m1:
            i = m1[0]; broken.append(('correspondence', 'DE.LeaderRead vs real leader (probe lease_cluster)', '%d disagreements; first on %s -> impl %s' % (len(m1), json.dumps(lp[i][0]), json.dumps(lp[i][1]))))
        if m2:
            i = m2[0]; broken.append(('correspondence', 'DE.Lease.pstep (coded flags) vs real leader+followers (probe lease_cluster)', '%d disagreements; first on %s -> impl %s' % (len(m2), json.dumps(pp[i][0]), json.dumps(pp[i][1]))))
        run.cov['disagreements'] = len(mism) + len(m1) + len(m2)
        dist.update({'proto-' + k: v for k, v in pdist.items()}); dist['clock-straddled (left out of model comparison)'] = unstable
        dist['lease-reads-served'] = sum(1 for c, o in zip(cases + pc, outs) for e in lc.timeline(c, o) for j in e['served'] if e['kinds'][j] == 0)
        run.add_cases(len(lp) + len(pp), len({json.dumps(c) for c in cases + pc}), [{'case': cases[0], 'impl': outs[0]}], dist,
                      'seeded event sequences over 1-5 voters: lease/linearizable reads, AppendEntries deliveries to real followers, (late, duplicate, queued) acks, vote requests, sleeps past the lease, apply completions, step-down messages; + named witnesses')
        # 3. the server's read actor (fast path of lease / eventual reads): batches drained in one wake-up, with the lease
        #    revoked by a concurrent step-down, or expiring, in the middle of the batch
        r = run.rng('read_actor'); ra = []
        for k in range(300 if thorough else 90):
            n = r.range(1, 12); pols = [r.choice([2, 2, 2, 3, 1]) for _ in range(n)]
            ra.append([r.choice([100, 100, 3, 1]), r.choice([5000, 5000, 5000, 0]), pols, r.choice([0, 0] + list(range(1, n + 1))), 0])
        timed = [[100, 30, [2] * 10, 0, 8], [100, 25, [2, 3, 2, 2, 3, 2, 2, 2], 0, 7], [4, 20, [2] * 9, 0, 6]]
        routs = core.probe_parallel('read_actor', ra + timed, jobs=6)
        rp = []
        for c, o in zip(ra + timed, routs):
            if isinstance(o, str): broken.append(('harness', 'read_actor probe error', (json.dumps(c) + ' -> ' + o)[:300])); continue
            codes, flags, _ = o; served = [p for p, cd in zip(c[2], codes) if cd == 1]
            for p, fl in zip(served, flags):
                if p == 2 and fl != 1:
                    violations.append({'class': 'read-actor-lease-read-served-without-valid-lease', 'probe': 'read_actor', 'input': c, 'output': o,
                                       'why': 'a lease read of the batch was served although the lease was no longer valid when its state machine read started (policies %s, codes %s, lease valid at each read %s)' % (c[2], codes, flags)})
                    break
            if c[4] == 0: rp.append((c, [codes, flags]))
        m3 = core.coq_index_list('From DE Require Import ReadActor.', '', 'read_actor_probe', rp, tag='C12actor')
        if m3:
            i = m3[0]; broken.append(('correspondence', 'DE.ReadActor.ra_run vs run_read_actor (probe read_actor)', '%d disagreements; first on %s -> impl %s' % (len(m3), json.dumps(rp[i][0]), json.dumps(rp[i][1]))))
        run.cov['read_actor_batches'] = len(rp) + len(timed)
    except Broken as b:
        broken.append(('harness', b.what, b.detail))
    return flow.conclude(run, broken, violations)

def replay(path):
    r = json.load(open(path))
    if r.get('kind') != 'counterexample':
        print('broken obligation:', [b['name'] for b in r.get('broken', [])]); return 1
    core.harness_build()
    if r.get('probe') == 'lease_ds':
        out = core.probe('lease_ds', [r['input']])[0]; why = oracle_ds(r['input'], out)
    elif r.get('probe') == 'read_actor':
        c = r['input']; out = core.probe('read_actor', [c])[0]; codes, flags, _ = out
        served = [p for p, cd in zip(c[2], codes) if cd == 1]
        why = 'lease read served without a valid lease (codes %s, lease valid at each read %s)' % (codes, flags) if any(p == 2 and fl != 1 for p, fl in zip(served, flags)) else None
    else:
        out = lc.probe_cluster([r['input']])[0]; v = oracle_cluster(r['input'], out); why = v and '%s: %s' % v
    print('implementation output:', json.dumps(out)); print('VIOLATES: ' + why if why else 'ok'); return 1 if why else 0

META = {
    'title': 'Lease reads are served only under a valid leader lease',
    'level': 'proof',
    'technique': 'Rocq: laws of the packed lease cell; reuse of the C34 config theorem; a timed protocol model in which the lease is proved safe for all event sequences under three protections, each shown necessary by a witness, the code having none (refutation); differential checks of the cell, of the as-coded leader model and of the as-coded protocol model against the real ReadLease / leader / followers',
    'text': "Server read actor (the task that serves lease and eventual reads on the fast path; model DE.ReadActor, probe read_actor through the hook verif_read_actor_batch): C12_read_actor_served_lease_reads_saw_valid_lease - in every drained batch, with the lease revoked at any point inside it, each lease read that is served saw a valid lease at the moment of its own state machine read; C12_read_actor_no_lease_read_without_lease - once the lease is gone no lease read of the batch is served; on the real actor also batches in which a short lease expires between two reads. Rocq: C12_config_lease_below_election_timeout (validation => lease + rtt/2 < election_timeout_min, unbounded N); C12_pack_roundtrip, C12_term_wraps_at_16_bits, C12_revoke_invalidates, C12_revoked_until_renewed (all op sequences), C12_renew_valid_exactly_until_deadline, C12_validity_monotone_in_time; C12_lease_safe_with_protections (all event sequences of the timed model: vote withholding + acked-request anchoring + fresh quorum + lease < emin => no lease validity once another node won), C12_stepdown_invalidates_forever; C12_as_coded_refuted and C12_each_protection_is_necessary (witness traces). The witnesses are replayed on a real leader with real followers (probe lease_cluster) and the property is evaluated on the implementation's own outputs.",
    'note': "The unchanged tree violates the protocol clauses (known findings: followers grant votes while the leader's lease runs; renewal counts the cumulative match index, so one fresh ack of five voters renews). Trusted: Coq kernel, hand models validated by the probes, real clock read by the probe.",
    'design_ref': 'DESIGN.md §4 C12',
}
