"""C05 — committed entries are never lost."""
import os
from dvlib import cluster, core

ID = 'C05'
PROPS_FILE = 'theories/props/Properties_C05.v'
CONE = ['theories/AbstractRaft.v', 'theories/proofs/AR_election.v', 'theories/proofs/AR_logs.v', 'theories/proofs/AR_complete.v', 'theories/proofs/AR_sms.v']
ORACLES = [cluster.committed_never_lost, cluster.commit_backed]
HAVE = os.path.exists(os.path.join(core.COQ, PROPS_FILE))

def check(run):
    if not HAVE: run.level = 'exploration'
    run.cov['trusted_base'] += [
        "refinement check (dvlib/refine.py + DE.ARExec): every simulated execution is replayed inside Coq, label by label, as an execution of DE.AbstractRaft from ainit (aexec, proved sound w.r.t. astep: Refine_exec_sound / Refine_trace_reaches) and the abstract state is compared with the observed terms (concrete = abstract + 1), logs and commit indexes of all nodes after every step; trusted: the observation function (obs_matches, highest-commit-index-held for a restarted node) and the probe; the label reconstruction is only a proposal that Coq accepts or refuses; steps without abstract counterpart are counted per documented class in evidence.outside_abstract_system",
        "abstract system DE.AbstractRaft (leader completeness proved there); guards met by C09 (commit only current-term entries with a voter majority), C01/C02 (election), C07/C08/C19 (follower step) at node level; refinement validated on simulated executions, not proved",
        "cluster simulator: real Raft objects; a restart rebuilds the node from its in-memory storage engine (what was written survives; MemFirst acknowledges before the write reaches the store)",
    ]
    run.assumptions += ["static membership (C26)", "crash = graceful restart or kill of the process with the storage engine's written state intact; the MemFirst window (ack before persist) is a documented design decision, see DESIGN.md"]
    return cluster.check_cluster_property(run, PROPS_FILE if HAVE else None, CONE, ORACLES, kills=False, node_level=False, quick=(200, 60), thorough=(2000, 90), refine=True)

def replay(path): return cluster.replay_cluster(path, ORACLES)

META = {
    'title': 'Committed entries are never lost',
    'level': 'proof' if HAVE else 'exploration',
    'technique': 'Rocq: leader completeness of the abstract Raft system + commit-rule / election / follower-step theorems at node level + safety oracles on simulated clusters of real Raft nodes',
    'text': "Rocq (AR leader_completeness): in DE.AbstractRaft every leader of a later term holds the prefix committed in an earlier term. The guards are met by the node-level theorems (C09 commit rule, C01/C02 votes, C07 follower step). Real 3-/5-node clusters are run under seeded fault schedules and directed scenarios; on every step the oracle checks that an index some node marked committed keeps its entry on every node that marks it committed and on every later leader, and that a leader's commit is backed by a majority holding the entry.",
    'note': "Trusted: Coq kernel; cluster -> AbstractRaft mapping argued, not proved. The unchanged tree violated the property through C09 (leader committed alone) and C07; repaired by fix: commits.",
    'design_ref': 'DESIGN.md §4 C05',
}
