"""C10 — acknowledged writes are durable and visible."""
import json
from dvlib import core, flow, cluster
from dvlib.core import Broken

ID = 'C10'
PROPS_FILE = 'theories/props/Properties_C10.v'
CONE = ['theories/AbstractRaft.v', 'theories/proofs/AR_election.v', 'theories/proofs/AR_logs.v', 'theories/proofs/AR_complete.v', 'theories/proofs/AR_sms.v']

def gen_cases(run, thorough):
    r = run.rng('durability'); cases = []; dist = {}
    def tag(t): dist[t] = dist.get(t, 0) + 1
    for k in range(60 if thorough else 10):
        kind = k % 2
        steps = []; keys = [[1], [2], [3, 255], []]
        for _ in range(r.range(6, 16)):
            x = r.below(100); key = r.choice(keys)
            if x < 35: steps.append([0, key, [r.below(250)] * r.range(0, 2)]); tag('put')
            elif x < 45: steps.append([1, key]); tag('delete')
            elif x < 65:
                exp = r.choice([[], [[r.below(250)]], 'cur'])
                steps.append([2, key, exp, [r.below(250)]]); tag('cas')
            elif x < 80: steps.append([4, key]); tag('read')
            else: steps.append([3]); tag('restart')
        steps.append([3]); tag('restart')
        for key in keys: steps.append([4, key])
        # resolve 'cur' expectations with the reference state so that half of the CAS succeed
        ref = {}
        for st in steps:
            if st[0] == 0: ref[bytes(st[1])] = st[2]
            elif st[0] == 1: ref.pop(bytes(st[1]), None)
            elif st[0] == 2:
                if st[2] == 'cur': st[2] = [ref[bytes(st[1])]] if bytes(st[1]) in ref else []
                cur = ref.get(bytes(st[1]))
                if (st[2] == [] and cur is None) or (st[2] != [] and cur == st[2][0]): ref[bytes(st[1])] = st[3]
        cases.append([kind, steps]); tag('engine=file' if kind == 0 else 'engine=rocksdb')
    return cases, dist

def oracle(case, out):
    """every acknowledged put/delete/CAS shows in every later linearizable read, also after graceful restarts;
    a CAS answer reports the outcome actually applied"""
    ref = {}
    for st, o in zip(case[1], out):
        k = bytes(st[1]) if len(st) > 1 else None
        if st[0] == 0:
            if o[0] == 1: ref[k] = st[2]
            else: return None      # an unacknowledged write is indeterminate: stop judging this history
        elif st[0] == 1:
            if o[0] == 1: ref.pop(k, None)
            else: return None
        elif st[0] == 2:
            if o[0] != 1: return None
            cur = ref.get(k)
            should = (st[2] == [] and cur is None) or (st[2] != [] and cur == st[2][0])
            if bool(o[1]) != should: return 'CAS on key %s answered %s but the acknowledged history makes it %s' % (st[1], bool(o[1]), should)
            if should: ref[k] = st[3]
        elif st[0] == 4:
            if o[0] != 1: continue
            want = [ref[k]] if k in ref else []
            if o[1] != want: return 'linearizable read of key %s returned %s, acknowledged writes say %s' % (st[1], o[1], want)
    return None

def check(run):
    thorough = run.tier == 'thorough'
    run.cov['trusted_base'] += [
        "corollary layer over DE.AbstractRaft (C05/C06 theorems) + C29 (success only after commit and apply) + C11 (partial)",
        "probe `durability`: a real single-node EmbeddedEngine (File storage + File state machine, and RocksDB + RocksDB) driven through the real EmbeddedClient, with graceful stop/restart on the same directories",
    ]
    run.assumptions += ["multi-node durability rests on the abstract theorems and the cluster-level checks of C05; the real-engine run is single-node", "graceful restart only (crash: C15/C18/C21 known findings)"]
    broken = flow.proof_step(run, PROPS_FILE, CONE)
    violations = []
    try:
        core.harness_build()
        cases, dist = gen_cases(run, thorough)
        outs = core.probe_parallel('durability', cases, jobs=8, timeout=1500)
        ok = 0
        for c, o in zip(cases, outs):
            if isinstance(o, str):
                broken.append(('harness', 'durability probe error', o[:300])); continue
            ok += 1
            why = oracle(c, o)
            if why: violations.append({'class': 'acknowledged-write-not-visible', 'probe': 'durability', 'input': c, 'output': o, 'why': why})
        # the visibility clause on a multi-voter leader: a linearizable read that arrives after a write was committed (hence
        # possibly acknowledged by an earlier leader) may be answered only once the state machine has applied up to the
        # commit index the read saw - also when acknowledgements keep arriving while the state machine lags behind
        # (probe lease_cluster: real leader + real followers, the case sets what the state machine reports as applied)
        from props import lease_common as lc
        lcases, _ = lc.gen_cases(run, False, 'c10vis')
        lcases = [c for c in lcases if any(e[0] == 6 for e in c[2])][:140] + [lc.W_APPLY_LAG]
        louts = lc.probe_cluster(lcases)
        lok = 0
        for c, o in zip(lcases, louts):
            if isinstance(o, str): broken.append(('harness', 'lease_cluster probe error', o[:300])); continue
            lok += 1
            for e in lc.timeline(c, o):
                bad = [j for j in e['served'] if e['kinds'][j] == 6 and e['applied'] < e['commit_at_arrival'][j]]
                if bad:
                    j = bad[0]
                    violations.append({'class': 'committed-write-invisible-to-later-linearizable-read', 'probe': 'lease_cluster', 'input': c, 'output': o,
                                       'why': 'linearizable read %d arrived when the commit index was %d and was answered by event %s while the state machine had applied only %d' % (j, e['commit_at_arrival'][j], [e['k'], e['arg']], e['applied'])})
                    break
        dist['leader-with-apply-lag-cases(lease_cluster)'] = lok
        run.add_cases(ok, len({json.dumps(c) for c in cases}), [{'engine': cases[0][0], 'steps': cases[0][1][:8]}], dist,
                      'seeded single-client histories (put / delete / CAS incl. absent-expected and empty values / linearizable reads / graceful stop+restart), both storage engines; every history ends with a restart and a read of every key')
    except Broken as b:
        broken.append(('harness', b.what, b.detail))
    return flow.conclude(run, broken, violations)

def replay(path):
    r = json.load(open(path))
    if r.get('kind') != 'counterexample':
        print('broken obligation:', [b['name'] for b in r.get('broken', [])]); return 1
    core.harness_build()
    if r.get('probe') == 'lease_cluster':
        from props import lease_common as lc
        c = r['input']; o = lc.probe_cluster([c])[0]; bad = 0
        for e in lc.timeline(c, o):
            for j in e['served']:
                if e['kinds'][j] == 6 and e['applied'] < e['commit_at_arrival'][j]:
                    print('VIOLATES: linearizable read %d answered by event %s with applied %d < commit at arrival %d' % (j, [e['k'], e['arg']], e['applied'], e['commit_at_arrival'][j])); bad = 1
        if not bad: print('ok')
        return bad
    out = core.probe('durability', [r['input']], timeout=600)[0]
    why = oracle(r['input'], out); print('implementation output:', json.dumps(out)); print('VIOLATES: ' + why if why else 'ok'); return 1 if why else 0

META = {
    'title': 'Acknowledged writes are durable and visible',
    'level': 'proof',
    'technique': 'Rocq corollaries of the abstract Raft safety theorems (committed entries reach every later leader and are identical wherever applied) + real single-node engine histories with graceful restarts checked against the acknowledged history',
    'text': "Rocq: C10_committed_write_in_every_later_leader and C10_committed_write_identical_wherever_applied are the C05/C06 theorems of DE.AbstractRaft restated for acknowledged (= committed, by C29) writes; visibility to linearizable reads rests on C11 (partial). On every run a real single-node EmbeddedEngine on both storage engines executes seeded client histories with graceful stop/restart cycles; every acknowledged put/delete/CAS must show in every later linearizable read and every CAS answer must be the outcome the acknowledged history implies. Partial: the multi-node part is covered by theorems + the cluster-level checks of C05, not by real multi-node client histories.",
    'note': "Trusted: Coq kernel; cluster -> AbstractRaft mapping argued not proved; single-node real-engine histories; crashes (non-graceful) are the known findings of C15/C18/C21.",
    'design_ref': 'DESIGN.md §4 C10',
}
