"""C09 — leaders commit only current-term entries backed by a voter majority."""
import json
from dvlib import core, flow
from dvlib.core import Broken

ID = 'C09'
PROPS_FILE = 'theories/props/Properties_C09.v'
CONE = ['theories/BufLog.v', 'theories/LeaderCommit.v', 'theories/proofs/C09.v']
IMPORTS = 'From DE Require Import BufLog LeaderCommit.'

def gen_cases(run, thorough):
    r = run.rng('commit'); cases = []; dist = {}
    def tag(t): dist[t] = dist.get(t, 0) + 1
    n = 4000 if thorough else 700
    for k in range(n):
        nv = r.choice([0, 1, 2, 2, 2, 3, 4, 4])
        voters = list(range(2, 2 + nv)); learners = [20 + j for j in range(r.choice([0, 0, 1, 2]))]
        L = r.range(0, 6); t = 1; es = []
        for i in range(1, L + 1):
            if r.chance(1, 3): t += 1
            es.append([i, t, i])
        cur = t + r.below(2)
        peers = voters + learners
        evs = []; last = L
        for _ in range(r.range(1, 7)):
            x = r.below(100)
            if x < 55 and peers:
                p = r.choice(peers); rt = r.choice([cur, cur, cur, cur, max(1, cur - 1), cur + 1 if r.chance(1, 6) else cur])
                mi = r.range(0, last + 1)
                evs.append([0, p, rt, 0, mi, r.range(1, cur)]); tag('ack-learner' if p in learners else ('ack-stale-term' if rt < cur else 'ack-voter'))
            elif x < 65 and peers:
                p = r.choice(peers)
                evs.append([0, p, cur, 1, r.choice([0, r.range(1, cur)]), r.choice([0, r.range(1, last + 1)])]); tag('conflict')
            elif x < 85:
                evs.append([1, r.range(0, last)]); tag('flushed')
            else:
                m = r.range(1, 2); evs.append([2, m]); last += m; tag('local-append')
        tag('voters=%d' % nv)
        cases.append([es, cur, voters, learners, evs])
    # the acknowledgement-free commit (a fresh leader must not commit alone), for 3 and 5 voters
    for nv in (2, 4):
        es = [[1, 1, 1], [2, 2, 2], [3, 2, 3]]
        cases.append([es, 2, list(range(2, 2 + nv)), [9], [[1, 3], [0, 9, 2, 0, 3, 2], [0, 2, 2, 0, 3, 2], [0, 3, 2, 0, 3, 2]]]); tag('fresh-leader')
    return cases, dist

def oracle(case, out):
    es, cur, voters, learners, evs = case
    terms = {e[0]: e[1] for e in es}; last = len(es); commit = 0
    peers = voters + learners
    for ev, o in zip(evs, out):
        c2, ms, ns, term = o
        if ev[0] == 2:
            for j in range(ev[1]): last += 1; terms[last] = cur
        if c2 != commit:
            if c2 < commit: return 'commit index decreased from %d to %d' % (commit, c2)
            if voters:
                if terms.get(c2) != term: return 'committed index %d whose entry has term %s, leader term is %d' % (c2, terms.get(c2), term)
                match = {p: (m[0] if m else 0) for p, m in zip(peers, ms)}
                holders = 1 if last >= c2 else 0
                holders += sum(1 for v in voters if match[v] >= c2)
                if 2 * holders <= len(voters) + 1:
                    return 'committed index %d with %d of %d voters (leader included) holding it; match=%s' % (c2, holders, len(voters) + 1, {v: match[v] for v in voters})
            else:
                if c2 > last: return 'single voter committed %d beyond its last index %d' % (c2, last)
            if ev[0] == 0 and ev[1] in learners: return 'a learner acknowledgement advanced the commit index'
        commit = c2
    return None

def check(run):
    thorough = run.tier == 'thorough'
    run.cov['trusted_base'] += [
        "hand-written model DE.LeaderCommit of the commit path of raft_role/leader_state.rs (update_peer_index, calculate_new_commit_index, handle_append_result, handle_log_flushed) + DE.BufLog.b_majority, tied to the code by the leader_commit probe",
        "harness: real LeaderState over a real BufferedRaftLog; MockMembership supplies the voter/learner sets, MockStateMachine reports last_applied = 0",
    ]
    run.assumptions += ["the voter set is the leader's cached cluster_metadata (refreshed on membership changes; staleness between apply and refresh is a C26 matter)",
                        "match_index truthfulness (an ack for m means the peer holds the leader's prefix) is the follower's obligation (C04/C08), not part of this statement"]
    broken = flow.proof_step(run, PROPS_FILE, CONE)
    violations = []
    try:
        core.harness_build()
        cases, dist = gen_cases(run, thorough)
        outs = core.probe_parallel('leader_commit', cases)
        pairs = []
        for c, o in zip(cases, outs):
            if isinstance(o, str):
                broken.append(('correspondence', 'leader_commit probe error', o[:300])); continue
            pairs.append((c, o))
            why = oracle(c, o)
            if why:
                cls = 'commit-without-majority' if 'voters' in why else 'bad-commit'
                violations.append({'class': cls, 'probe': 'leader_commit', 'input': c, 'output': o, 'why': why})
        mism = core.coq_index_list(IMPORTS, '', 'commit_probe', pairs, tag='C09')
        if mism:
            i = mism[0]
            broken.append(('correspondence', 'DE.LeaderCommit.lstep vs LeaderState (probe leader_commit)',
                           '%d disagreements; first on %s -> impl %s' % (len(mism), json.dumps(pairs[i][0]), json.dumps(pairs[i][1]))))
        run.cov['disagreements'] = len(mism)
        ncommits = sum(1 for c, o in pairs for a, b in zip([[0]] + o, o) if a[0] != b[0])
        dist['commit-advances'] = ncommits
        run.add_cases(len(pairs), len({json.dumps(c) for c, _ in pairs}), [{'case': pairs[j][0], 'impl': pairs[j][1]} for j in (0, len(pairs) - 1)], dist,
                      'seeded: 0-4 voting peers, 0-2 learners, logs with term changes, 1-7 events (success acks with arbitrary match incl. stale/out-of-order/other-term, conflicts, LogFlushed, local appends); distinct = distinct cases')
    except Broken as b:
        broken.append(('harness', b.what, b.detail))
    return flow.conclude(run, broken, violations)

def replay(path):
    r = json.load(open(path))
    if r.get('kind') != 'counterexample':
        print('broken obligation:', [b['name'] for b in r.get('broken', [])]); return 1
    core.harness_build()
    out = core.probe('leader_commit', [r['input']])[0]
    print('implementation output:', json.dumps(out)); why = oracle(r['input'], out)
    print('VIOLATES: ' + why if why else 'ok'); return 1 if why else 0

META = {
    'title': 'Leaders commit only current-term entries backed by a voter majority',
    'level': 'proof',
    'technique': 'Rocq theorem on the leader commit-step model (median-of-sorted-matches gives a strict voter majority, current-term check, learner exclusion, monotone match index) + differential check against the real LeaderState',
    'text': "Rocq: C09_commit_sound — for every leader state and every event (success/conflict ack with any term and match index, LogFlushed, local append), if the commit index changes it increases, the entry at the new index carries the leader's current term, and strictly more than half of the voting members (leader included; learners excluded; a voter that never acknowledged counts 0) have match index >= it; C09_learner_ack_never_commits; C09_match_index_never_decreases. The model is replayed against the real LeaderState::handle_append_result/handle_log_flushed + BufferedRaftLog::calculate_majority_matched_index on seeded event sequences and the property is evaluated on the implementation's own outputs.",
    'note': "Trusted: Coq kernel, hand model LeaderCommit/BufLog (validated by the probe), MockMembership for the voter set. The unchanged tree violated this property (a fresh leader committed alone: absent voters were left out of the median); repaired by a fix: commit, see known_findings.json.",
    'design_ref': 'DESIGN.md §4 C09',
}
