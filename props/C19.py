"""C19 — the buffered log behaves like a plain indexed log."""
import os, json
from dvlib import core, flow, loggen
from dvlib.core import Broken

ID = 'C19'
PROPS_FILE = 'theories/props/Properties_C19.v'
CONE = ['theories/BufLog.v', 'theories/PLog.v', 'theories/proofs/C19.v']
QMAX, TMAX = 12, 8
IMPORTS = 'From DE Require Import BufLog PLog.'

def gen_cases(run, thorough):
    r = run.rng('buflog'); pl = [100]
    cases, dist = [], {}
    for ops in loggen.CORPUS_C19:
        cases.append([QMAX, TMAX, ops]); dist['corpus'] = dist.get('corpus', 0) + 1
    n = 6000 if thorough else 300
    for k in range(n):
        ops, tags = loggen.gen_shaped_seq(r, r.range(2, 9), pl, allow_prev0=(k % 3 != 0))
        cases.append([QMAX, TMAX, ops])
        for t in tags: dist[t] = dist.get(t, 0) + 1
    # many term changes: exercises the TermSegments history (and, in thorough, its 1024 overflow)
    for nterms in ([40, 1030] if thorough else [40]):
        es = [[i, i, i] for i in range(1, nterms + 1)]
        cases.append([QMAX, TMAX, [[0, es], [1, 3, 3, [[4, nterms + 1, 7]]], [0, [[5, nterms + 2, 8]]]]])
        dist['many-terms'] = dist.get('many-terms', 0) + 1
    return cases, dist

def check(run):
    thorough = run.tier == 'thorough'
    run.cov['trusted_base'] += [
        "hand-written model DE.BufLog of buffered_raft_log.rs (in-memory part), tied to the code by the `buflog` correspondence probe on every run",
        "harness SimLogStore (in-memory LogStore) under the real BufferedRaftLog; the IO thread runs but its effects are not observed here (see C18)",
    ]
    run.assumptions += ["operation sequences are Raft-shaped (DE.PLog.shaped): contiguous appends at the tail, requests contiguous from prev+1 with non-decreasing terms, purge at a held index",
                        "atomics are treated as sequentially consistent single steps (no concurrent callers in the probe)"]
    broken = []
    if os.path.exists(os.path.join(core.COQ, PROPS_FILE)):
        broken += flow.proof_step(run, PROPS_FILE, CONE)
    else:
        ok, log = core.coq_make(['theories/PLog.vo'])
        if not ok: broken.append(('model', 'BufLog/PLog', log[-2000:]))
    violations = []
    try:
        core.harness_build()
        cases, dist = gen_cases(run, thorough)
        outs = core.probe_parallel('buflog', cases)
        pairs = []
        for c, o in zip(cases, outs):
            if isinstance(o, str):
                violations.append({'class': 'buffered-log-panics', 'probe': 'buflog', 'input': c, 'output': o,
                                   'why': 'the real BufferedRaftLog panicked on a Raft-shaped op sequence: ' + o[:200]})
                continue
            pairs.append((c, o))
        # one Coq pass: (a) property oracle on the implementation = the spec (plain log) must give the same
        # answers; (b) correspondence = the model as coded must reproduce the implementation exactly
        bad, mism = core.coq_multi(IMPORTS, '', [('failing', 'spec_agrees'), ('mismatches', 'run_ops')], pairs, tag='C19')
        for i in bad[:3]:
            violations.append({'class': 'answers-differ-from-plain-log', 'probe': 'buflog', 'input': pairs[i][0], 'output': pairs[i][1],
                               'why': 'on a Raft-shaped op sequence the real BufferedRaftLog answers differ from the plain log DE.PLog'})
        if mism:
            i = mism[0]
            broken.append(('correspondence', 'DE.BufLog.run_ops vs BufferedRaftLog (probe buflog)',
                           '%d disagreements; first on input %s' % (len(mism), json.dumps(pairs[i][0]))))
        run.cov['disagreements'] = len(mism)
        distinct = len({json.dumps(c) for c, _ in pairs})
        run.add_cases(len(pairs), distinct, [{'ops': pairs[j][0][2]} for j in (0, len(pairs) // 2, len(pairs) - 1)], dist,
                      'hand-written corpus + seeded Raft-shaped op sequences (2-9 ops: append, conflict-aware append with matching/mismatching/absent prev, overlaps, divergence, purge, reset, id allocation); queries after every op on indexes 0..%d, terms 0..%d; distinct = distinct op sequences' % (QMAX, TMAX))
    except Broken as b:
        broken.append(('harness', b.what, b.detail))
    return flow.conclude(run, broken, violations)

def replay(path):
    r = json.load(open(path))
    if r.get('kind') != 'counterexample':
        print('broken obligation:', [b['name'] for b in r.get('broken', [])]); return 1
    core.harness_build()
    out = core.probe('buflog', [r['input']])[0]
    if isinstance(out, str): print('implementation:', out); return 1
    bad = core.coq_index_list(IMPORTS, '', 'spec_agrees', [(r['input'], out)], mode='failing', tag='C19replay')
    print('implementation output:', json.dumps(out)); print('VIOLATES' if bad else 'ok'); return 1 if bad else 0

META = {
    'title': 'The buffered log behaves like a plain indexed log',
    'level': 'proof',
    'technique': 'Rocq refinement proof BufLog ⊑ PLog (invariant + per-op simulation, lifted over op lists) + differential check model vs BufferedRaftLog',
    'text': "Rocq: executable model DE.BufLog of BufferedRaftLog as coded (sorted entry map, min/max, purge boundary, per-term first/last maps with the targeted repair of remove_range, TermSegments incl. overflow) is proved to refine the plain log DE.PLog for every Raft-shaped operation sequence (refine_step, refine_run, answers_agree: last log id, entry terms, first/last index of a term, range reads, result of conflict-aware append). The model is tied to the code on every run by replaying seeded op sequences on the real BufferedRaftLog and comparing every answer after every op inside Coq; the spec itself is also run against the implementation as the search oracle.",
    'note': "Trusted: Coq kernel; the hand model BufLog (validated by the buflog probe); SimLogStore in the harness. Preconditions of the theorem (DE.PLog.shaped) are stated in DESIGN.md §4 C19; the prev=(0,0) reset branch refines the Raft rule only when the request covers the local log (known finding listed under C08).",
    'design_ref': 'DESIGN.md §4 C19',
}
