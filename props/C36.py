"""C36 — merging queued AppendEntries does not change the outcome."""
import json, os
from dvlib import core, flow
from dvlib.core import Broken
from props import C08

ID = 'C36'
PROPS_FILE = 'theories/props/Properties_C36.v'
CONE = ['theories/BufLog.v', 'theories/PLog.v', 'theories/Repl.v', 'theories/Merge.v', 'theories/proofs/C36.v']
IMPORTS = 'From DE Require Import BufLog Repl Merge.'

def gen_cases(run, thorough):
    r = run.rng('merge'); cases = []; dist = {}
    def tag(t): dist[t] = dist.get(t, 0) + 1
    n = 3000 if thorough else 500
    for k in range(n):
        L = r.range(1, 10)
        leader = C08.mk_log(r, L)
        keep = r.range(0, L)
        fol = [list(e) for e in leader[:keep]]
        if r.chance(1, 2) and keep < len(leader):
            # a stale tail only makes sense where the leader's log continues with newer-term entries
            t = fol[-1][1] if fol else 1
            for j in range(r.range(1, 3)): fol.append([keep + 1 + j, t, 900 + j])
            for e in leader[keep:]: e[1] = max(e[1], t + 1)
            for j in range(1, len(leader)): leader[j][1] = max(leader[j][1], leader[j - 1][1])
            tag('follower-stale-tail')
        lterm = max(e[1] for e in leader)
        my_term = r.choice([lterm, lterm, max(1, lterm - 1), lterm + 1 if r.chance(1, 8) else lterm])
        nreq = r.range(1, 4)
        nx = r.range(1, len(leader) + 1)
        reqs = []; lc = r.range(0, len(leader))
        kind = r.below(10)
        for q in range(nreq):
            cap = r.range(0, 3)
            ents = [list(e) for e in leader[nx - 1: nx - 1 + cap]]
            prev = nx - 1
            pterm = leader[prev - 1][1] if prev >= 1 else 0
            term = lterm
            if kind == 0 and q == nreq - 1 and nreq > 1: term = lterm + 1; tag('term-change-in-queue')
            reqs.append([term, 1, prev, pterm, ents, lc])
            if kind == 1 and q < nreq - 1: nx = max(1, nx + len(ents) - 1); tag('overlapping')          # re-sends the last entry
            elif kind == 2 and q < nreq - 1: nx = nx + len(ents) + 1; tag('gap-in-queue')
            else: nx = nx + len(ents)
            if nx > len(leader) + 1: nx = len(leader) + 1
            lc = min(len(leader), lc + r.below(3))
            if not ents: tag('heartbeat')
        if kind >= 3: tag('contiguous-chain-%d' % nreq)
        cases.append([fol, my_term, r.choice([1, 2, 3, 1000, 1000]), reqs])
    return cases, dist

def kind_term(a): return (a[0], a[1])

def oracle(case, out):
    """C36 on the implementation: merged run vs one-at-a-time run of the same queue."""
    merged, seq, q = out
    if merged[3] != seq[3]: return 'logs differ: merged %s vs sequential %s' % (merged[3], seq[3])
    if merged[1] != seq[1]: return 'commit index differs: merged %d vs sequential %d' % (merged[1], seq[1])
    if merged[2] != seq[2]: return 'term differs: merged %d vs sequential %d' % (merged[2], seq[2])
    ma, sa = merged[0], seq[0]
    if len(ma) != len(sa): return 'number of acknowledgements differs'
    # group the senders as the merge grouped them
    pos = 0
    for grp in q:
        n = grp[3]
        g_m, g_s = ma[pos:pos + n], sa[pos:pos + n]; pos += n
        for a, b in zip(g_m, g_s):
            if kind_term(a) != kind_term(b):
                return 'sender %d: merged ack %s vs sequential ack %s (kind/term differ)' % (pos, a, b)
        if g_m and g_m[0][0] == 0:
            # success. A merged success answers every sender of the group with one match id. It must be a
            # valid acknowledgement of the whole group: at least what one-at-a-time processing acknowledged to
            # the last entry-carrying request of the group (an empty request is answered with the follower's
            # own last log id, which may lie further ahead), and never beyond the follower's final last index.
            reqs = case[3][pos - n:pos]
            carrying = [b for rq, b in zip(reqs, g_s) if rq[4]]
            floor = carrying[-1][2] if carrying else g_s[0][2]
            last_idx = merged[3][-1][0] if merged[3] else 0
            for a in g_m:
                if a[2] != g_m[0][2]: return 'senders of one merged group received different matches'
                if floor and (not a[2] or a[2][0] < floor[0]):
                    return 'merged success match %s is below the sequential acknowledgement %s of the group\'s last entries' % (a[2], floor)
                if len(q) == 1 and a[2] and a[2][0] > last_idx: return 'merged success match %s beyond the follower\'s last index %d' % (a[2], last_idx)
        if len(q) > 1: break   # only the first merge group is formed from the original queue in one step
    return None

def check(run):
    thorough = run.tier == 'thorough'
    run.cov['trusted_base'] += [
        "hand-written models DE.Merge (raft.rs merge_append_entries + role_state.rs follower workflow) over DE.Repl/DE.BufLog, tied to the code by the `merge` probe through the guarded hooks Raft::verif_merge / verif_process_inbound / verif_view",
        "reading of 'the acknowledgement each sender receives is the same': same kind and term per sender; a merged success carries one match id for the whole group, at least the one-at-a-time acknowledgement of the group's last entry-carrying request and never beyond the follower's last index (a strict field-by-field reading cannot hold for any merge of two non-empty requests); conflict hints are not compared",
    ]
    run.assumptions += ["queued requests that get merged come from one leader in one term (consistent prev_log_term, non-decreasing leader_commit); the merge itself does not re-check the later requests' prev_log_term"]
    broken = []
    if os.path.exists(os.path.join(core.COQ, PROPS_FILE)):
        broken += flow.proof_step(run, PROPS_FILE, CONE)
    else:
        ok, log = core.coq_make(['theories/Merge.vo'])
        if not ok: broken.append(('model', 'Merge', log[-2000:]))
        run.level = 'translation_validation'
    violations = []
    try:
        core.harness_build()
        cases, dist = gen_cases(run, thorough)
        outs = core.probe_parallel('merge', cases)
        pairs = []
        for c, o in zip(cases, outs):
            if isinstance(o, str):
                broken.append(('correspondence', 'merge probe error', o[:300])); continue
            pairs.append((c, o))
            why = oracle(c, o)
            if why:
                violations.append({'class': 'merge-changes-outcome', 'probe': 'merge', 'input': c, 'output': o, 'why': why})
        mism = core.coq_index_list(IMPORTS, '', 'merge_probe', pairs, tag='C36')
        if mism:
            i = mism[0]
            broken.append(('correspondence', 'DE.Merge vs Raft::merge_append_entries + follower workflow (probe merge)',
                           '%d disagreements; first on %s -> impl %s' % (len(mism), json.dumps(pairs[i][0]), json.dumps(pairs[i][1]))))
        run.cov['disagreements'] = len(mism)
        dist['queues-actually-merged'] = sum(1 for _, o in pairs if any(g[3] > 1 for g in o[2]))
        run.cov['programs'] = len(pairs); run.cov['disagreements_checked'] = len(pairs)
        run.add_cases(len(pairs), len({json.dumps(c) for c, _ in pairs}), [{'case': pairs[0][0], 'impl': pairs[0][1]}], dist,
                      'seeded: follower = prefix of a leader log (+ stale tail), queue of 1-4 requests sliced from the leader log (contiguous chains, heartbeats, overlapping, gapped, term change inside the queue), merge limit 1/2/3/1000, follower term below/equal/above the request term')
    except Broken as b:
        broken.append(('harness', b.what, b.detail))
    return flow.conclude(run, broken, violations)

def replay(path):
    r = json.load(open(path))
    if r.get('kind') != 'counterexample':
        print('broken obligation:', [b['name'] for b in r.get('broken', [])]); return 1
    core.harness_build()
    out = core.probe('merge', [r['input']])[0]
    print('implementation output:', json.dumps(out)); why = oracle(r['input'], out)
    print('VIOLATES: ' + why if why else 'ok'); return 1 if why else 0

META = {
    'title': 'Merging queued AppendEntries does not change the outcome',
    'level': 'proof',
    'technique': 'Rocq theorem merged-run = sequential-run on the plain-log follower (composition of conflict-aware appends over concatenated chains) + differential check of the merge/follower model against Raft::merge_append_entries through guarded hooks',
    'text': "Rocq: for every follower state and every chain of requests the code merges (each continuing the previous one in the same term), handling the merged request gives the same log, term and commit index as handling them one at a time; every sender gets an answer of the same kind and term, and a merged success carries the last request's match (each sequential match being a lower bound). The model of merge_append_entries and of the follower workflow is replayed against the real Raft object (hooks verif_merge / verif_process_inbound), both merged and one-at-a-time, on seeded queues incl. heartbeats, overlaps, gaps, term changes and merge limits; the property is evaluated on the implementation's own two runs.",
    'note': "Trusted: Coq kernel, models Merge/Repl/BufLog (probe-validated), the guarded hooks (add-only). Acknowledgement equality is read as kind+term per sender and match of the group's last request (stated in DESIGN.md). The unchanged tree answered a newer-term request with the old term (merged groups then lost all their acks); repaired by a fix: commit.",
    'design_ref': 'DESIGN.md §4 C36',
}
