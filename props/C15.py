"""C15 — each committed entry is applied exactly once across crashes (File and RocksDB state machines)."""
import json
from dvlib import core, flow
from dvlib.core import Broken

ID = 'C15'
PROPS_FILE = 'theories/props/Properties_C15.v'
CONE = ['theories/SMCrash.v', 'theories/proofs/C15.v', 'theories/SMCrashFix.v', 'theories/proofs/C15fix.v']
IMPORTS = 'From DE Require Import SMCrash.'
KEYS = [1, 2, 3]

# ---------------------------------------------------------------- reference KV semantics (the property's yardstick)
def ref_apply(s, c):
    t = c[0]
    if t in (0, 3): s[c[1]] = c[2]
    elif t == 1: s.pop(c[1], None)
    elif t == 2:
        exp = c[2][0] if c[2] else None
        if s.get(c[1]) == exp: s[c[1]] = c[3]
    return s

def ref_state(cmds):
    s = {}
    for c in cmds: ref_apply(s, c)
    return [[s[k]] if k in s else [] for k in KEYS]

# ---------------------------------------------------------------- generator
def gen_cmd(r, s):
    """one command, mostly meaningful w.r.t. the running reference state s (which it updates)"""
    k = r.choice(KEYS[:2] if r.chance(3, 4) else KEYS); x = r.below(100)
    if x < 32: c = [0, k, r.range(1, 4)]
    elif x < 44: c = [1, k]
    elif x < 82:
        cur = s.get(k)
        y = r.below(10)
        if y < 5: exp = [cur] if cur is not None else []          # will succeed
        elif y < 8: exp = [r.range(1, 4)]                           # may fail
        else: exp = []                                              # expects absent
        c = [2, k, exp, r.range(1, 4)]
    elif x < 92: c = [3, k, r.range(1, 4), r.choice([3600, 7200])]
    else: c = [4]
    ref_apply(s, c)
    return c

def gen_cases(run, thorough):
    r = run.rng('smcrash'); seqs = []; dist = {}
    def tag(t, n=1): dist[t] = dist.get(t, 0) + n
    n = 700 if thorough else 150
    rocks_on = []                      # RocksDB reopen costs ~0.35 s per crash point: quick tier runs it on half of the random cases
    for i in range(n):
        s = {}; ops = []
        for _ in range(r.range(1, 6)):
            if ops and r.chance(1, 3): ops.append([1] if r.chance(3, 4) else [2])
            else: ops.append([0, [gen_cmd(r, s) for _ in range(r.range(1, 4))]])
        if r.chance(1, 4): ops.append([1])
        if r.chance(1, 3):
            # plant a CAS chain [CAS(k, b->c); CAS(k, a->b)] (a = the value at that point) as a chunk behind a checkpoint
            k = r.choice(KEYS[:2]); a = s.get(k); b = r.choice([v for v in (1, 2, 3, 4) if v != a]); c3 = r.choice([v for v in (1, 2, 3, 4) if v != b])
            pair = [[2, k, [b], c3], [2, k, [a] if a is not None else [], b]]
            ops += ([[1]] if r.chance(1, 2) else []) + ([[0, pair]] if r.chance(1, 2) else [[0, pair[:1]], [0, pair[1:]]])
            tag('planted-cas-chain')
        seqs.append(ops); tag('random'); rocks_on.append(thorough or i % 2 == 0)
    # structured: CAS chains evaluated against a value that a later (already persisted) CAS produces
    for a, b, c in ((1, 2, 3), (2, 3, 1), (4, 1, 2)):
        for mid in ([], [[1]]):
            seqs.append([[0, [[0, 1, a]]]] + mid + [[0, [[2, 1, [b], c], [2, 1, [a], b]]]]); tag('cas-chain')
            seqs.append([[0, [[0, 1, a]]]] + mid + [[0, [[2, 1, [b], c]]], [0, [[2, 1, [a], b]]]]); tag('cas-chain')
            seqs.append([[0, [[1, 2]]]] + mid + [[0, [[2, 2, [a], b], [2, 2, [], a]]], [1], [0, [[0, 3, c]]]]); tag('cas-chain-absent')
    # boundaries
    seqs += [[], [[1]], [[1], [1]], [[0, [[4]]]], [[0, [[4]]], [1], [0, [[4], [1, 1]]]],
             [[0, [[0, 1, 1]]], [1], [0, [[0, 2, 2]]], [1]],                       # keys of an older checkpoint vs truncation window
             [[0, [[3, 1, 1, 3600]]], [1], [0, [[1, 1], [3, 1, 2, 3600]]], [1], [0, [[2, 1, [2], 3]]]],
             [[0, [[0, 1, 1], [0, 1, 2], [0, 1, 3], [1, 1], [0, 1, 4]]]],
             [[2]], [[0, [[0, 1, 1]]], [1], [0, [[0, 2, 2]]], [2]],                # shutdown save: truncation window with the index already current
             [[0, [[0, 1, 1]]], [2], [0, [[2, 1, [2], 3], [2, 1, [1], 2]]], [2], [0, [[1, 1]]]]]
    tag('boundary', 11)
    rocks_on += [True] * (len(seqs) - len(rocks_on))
    cases = []
    for ops, rk in zip(seqs, rocks_on):
        cases.append([0, KEYS, ops]); tag('engine=file')
        if rk: cases.append([1, KEYS, ops]); tag('engine=rocksdb')
    return cases, dist

# ---------------------------------------------------------------- oracle: the property on the implementation's outputs
def crash_points(engine, ops):
    """(kind, committed commands) per crash point, in the probe's output order"""
    pts = []; done = []
    for o in ops:
        if o[0] == 0:
            b = o[1]
            if engine == 0:
                for j in range(len(b)): pts += [('wal-mid-record', done + b), ('wal-after-record', done + b)]
            done = done + b
            if engine == 1: pts.append(('after-batch', list(done)))
        elif o[0] == 1:
            if engine == 0: pts += [(k, list(done)) for k in ('ckpt-data-truncated', 'ckpt-data-written', 'ckpt-meta-truncated', 'ckpt-meta-written', 'ckpt-wal-cleared')]
            else: pts.append(('after-flush', list(done)))
        else:
            if engine == 0: pts += [(k, list(done)) for k in ('save-meta-truncated', 'save-meta-written', 'save-data-truncated', 'save-data-written', 'save-meta-truncated-2', 'save-meta-written-2')]
            else: pts.append(('after-save', list(done)))
    return pts

def oracle(case, out):
    """returns list of (class, why): the state after restart + re-application of the committed entries above the
    reported index must be the reference state of the committed entries"""
    engine, keys, ops = case
    pts = crash_points(engine, ops); res = []
    if len(pts) != len(out): return [('probe-shape', 'expected %d crash points, probe returned %d' % (len(pts), len(out)))]
    for i, ((kind, committed), (la, st, st2)) in enumerate(zip(pts, out)):
        want = ref_state(committed)
        if st2 != want:
            if kind == 'ckpt-data-truncated': cls = 'file-checkpoint-truncate-window-loses-data'
            elif kind == 'save-data-truncated': cls = 'file-shutdown-save-truncate-window-loses-data'
            elif la > len(committed): cls = 'applied-index-ahead-of-committed'
            else: cls = ('file' if engine == 0 else 'rocksdb') + '-stale-applied-index-nonidempotent-reapply'
            res.append((cls, 'crash point #%d (%s): restarted node reports last_applied=%d holding %s; after re-applying entries %d..%d it holds %s, the reference state of the %d committed entries is %s'
                        % (i, kind, la, st, la + 1, len(committed), st2, len(committed), want)))
    return res

def run_cases(cases, name='smcrash'):
    """the probe works in $TMPDIR; a tmpfs (/dev/shm) makes the many directory copies / reopens cheap. If the engines
    cannot work there (RocksDB opens with direct I/O) the default temp dir is used instead."""
    import os
    old = os.environ.get('TMPDIR')
    if old is None and os.path.isdir('/dev/shm') and os.access('/dev/shm', os.W_OK):
        os.environ['TMPDIR'] = '/dev/shm'
        try:
            outs = core.probe_parallel(name, cases, jobs=6, timeout=1500)
            if not any(isinstance(o, str) for o in outs): return outs
        except Broken:
            pass
        finally:
            del os.environ['TMPDIR']
    return core.probe_parallel(name, cases, jobs=6, timeout=1500)

def check(run):
    thorough = run.tier == 'thorough'
    run.cov['trusted_base'] += [
        "hand-written model DE.SMCrash of the persistence steps of file_state_machine.rs (apply_chunk WAL append / memory update, checkpoint = persist_data_async, persist_metadata_async, clear_wal_async, load_from_disk with replay_wal) and rocksdb_state_machine.rs (apply_chunk write batch, flush/persist_state_machine_metadata, new), tied to the code by the smcrash probe",
        "crash emulation in the probe: the directory is copied as a process crash leaves it and reopened from the copy (wal.log cut inside/after each record; the checkpoint's step boundaries are assembled from the files before and after the checkpoint, its steps being sequential whole-file writes; RocksDB: live directory copied after each write batch / flush)",
    ]
    run.assumptions += ["process crash (everything written reaches the files; power-loss reordering of un-synced writes is C18/C21 territory)",
                        "TTL puts use long TTLs (expiry across restart is C23)", "values are non-empty byte strings",
                        "after the restart the node re-applies exactly the committed entries above the index the state machine reports (node/builder.rs: commit index := last_applied; DefaultStateMachineHandler::new(last_applied))"]
    broken = flow.proof_step(run, PROPS_FILE, CONE)
    violations = []
    try:
        core.harness_build()
        cases, dist = gen_cases(run, thorough)
        outs = run_cases(cases)
        pairs = []; npts = 0; behind = 0
        for c, o in zip(cases, outs):
            if isinstance(o, str):
                broken.append(('correspondence', 'smcrash probe error', o[:300] + ' on ' + json.dumps(c))); continue
            pairs.append((c, o)); npts += len(o)
            behind += sum(1 for (kind, com), (la, st, st2) in zip(crash_points(c[0], c[2]), o) if st != ref_state(com[:la]))
            for cls, why in oracle(c, o):
                violations.append({'class': cls, 'probe': 'smcrash', 'input': c, 'output': o, 'why': why})
        mism = core.coq_index_list(IMPORTS, '', 'smcrash_probe', pairs, tag='C15', shard=60)
        if mism:
            i = mism[0]
            broken.append(('correspondence', 'DE.SMCrash (fobs/robs) vs FileStateMachine/RocksDBStateMachine (probe smcrash)',
                           '%d disagreements; first on %s -> impl %s' % (len(mism), json.dumps(pairs[i][0]), json.dumps(pairs[i][1]))))
        run.cov['disagreements'] = len(mism)
        # a crash INSIDE the checkpoint that ends a large apply batch (File engine): state.data and metadata.bin written, WAL
        # not yet truncated (probe smckpt: the two files are named pipes, so the image of that moment is captured)
        r2 = run.rng('smckpt'); kc = []
        for _ in range(40 if thorough else 10):
            op = lambda: [r2.choice([0, 0, 1]), r2.range(1, 3), r2.range(1, 9)]
            kc.append([[op() for _ in range(r2.range(1, 4))], [op() for _ in range(r2.range(1, 4))], 2])
        kc.append([[[0, 1, 100], [0, 2, 7]], [[0, 1, 200], [1, 2, 0]], 2])
        kouts = core.probe_parallel('smckpt', kc, jobs=5, timeout=900)
        kok = 0
        for c, o in zip(kc, kouts):
            if isinstance(o, str): broken.append(('harness', 'smckpt probe error', (json.dumps(c) + ' -> ' + o)[:300])); continue
            kok += 1
            v = ckpt_oracle(c, o)
            if v: violations.append({'class': v[0], 'probe': 'smckpt', 'input': c, 'output': o, 'why': v[1]})
        dist['crash-inside-checkpoint-cases'] = kok
        dist['crash-points'] = npts; dist['crash-points-where-index-is-behind-the-data'] = behind
        dist['crash-points-violating'] = len(violations)
        run.add_cases(len(pairs), len({json.dumps(c) for c, _ in pairs}), [{'case': pairs[j][0], 'impl': pairs[j][1]} for j in (0, len(pairs) - 1)] if pairs else [], dist,
                      'seeded op sequences (1-7 ops: chunks of 1-4 put/delete/CAS/TTL-put/noop over 3 keys and 4 values, checkpoints/flushes, shutdown saves), CAS chains, boundaries; each on both engines; every crash point of every op is observed; distinct = distinct cases')
    except Broken as b:
        broken.append(('harness', b.what, b.detail))
    return flow.conclude(run, broken, violations)

def ckpt_oracle(case, out):
    """after the restart the state must be exactly the result of applying entries 1..=reported once, in order (Raft resumes
    at reported + 1)"""
    reported, vals = out
    ops = list(case[0]) + list(case[1])
    st = {}
    for i, (kind, key, val) in enumerate(ops):
        if i + 1 > reported: break
        if kind == 1: st.pop(key, None)
        else: st[key] = val
    for key, got in vals:
        want = [st[key]] if key in st else []
        if got != want:
            return ('crash-inside-checkpoint-state-differs-from-applied-prefix',
                    'crash after state.data and metadata.bin were written and before the WAL was truncated: the restarted File state machine reports last_applied = %d but key k%d holds %s; applying entries 1..%d gives %s (first batch %s, second batch %s + fillers up to 1000)' % (reported, key, got, reported, want, case[0], case[1]))
    return None

def replay(path):
    r = json.load(open(path))
    if r.get('kind') != 'counterexample':
        print('broken obligation:', [b['name'] for b in r.get('broken', [])]); return 1
    core.harness_build()
    if r.get('probe') == 'smckpt':
        out = core.probe('smckpt', [r['input']])[0]; v = ckpt_oracle(r['input'], out)
        print('implementation output:', json.dumps(out)); print('VIOLATES [%s]: %s' % v if v else 'ok'); return 1 if v else 0
    out = core.probe('smcrash', [r['input']])[0]
    print('implementation output:', json.dumps(out)); why = oracle(r['input'], out)
    for cls, w in why: print('VIOLATES [%s]: %s' % (cls, w))
    if not why: print('ok')
    return 1 if why else 0

META = {
    'title': 'Each committed entry is applied exactly once across crashes',
    'level': 'proof',
    'technique': 'Rocq theorems on an explicit-step model of both state machines\' persistence (WAL append, checkpoint steps, write batch vs metadata key, recovery) quantified over all op sequences and all crash points; the full statement is refuted by vm_compute witnesses that the probe replays on the real engines (directory copied at the crash point and reopened); differential check of every crash point against the real FileStateMachine / RocksDBStateMachine',
    'text': "Rocq: the property as stated is refuted for both engines (C15_file_reapply_refuted, C15_rocks_reapply_refuted: a restarted node reports an applied index behind its data and re-applying a CAS chain changes the state; C15_file_index_matches_data_refuted, C15_rocks_index_matches_data_refuted; C15_file_checkpoint_truncation_refuted: a crash between open(truncate) and write_all of state.data loses checkpointed keys even without CAS; C15_file_shutdown_save_truncation_refuted: the same window in save_hard_state/Drop, where the index is already current so nothing is ever re-applied). Proved for all op sequences and all crash points: the restarted state machine holds exactly the entries whose write reached the files and never reports an index beyond them (C15_file_recovered_data_partial outside the truncate window, C15_rocks_recovered_data_partial); re-application reproduces the reference state whenever the re-applied overlap contains no CAS (C15_file_reapply_partial, C15_rocks_reapply_partial); after a completed checkpoint/flush the reported index is exact (C15_file_checkpoint_exact_partial, C15_rocks_flush_exact_partial). On the repaired models DE.SMCrashFix (index in the same write batch; atomic file replacement + replay_wal advancing last_applied) the full statement is proved for every crash point (C15_rocks_repaired_model_exact, C15_file_repaired_model_exact) — this backs the suggested fixes, not the code that exists. The smcrash probe runs the real engines, emulates every crash point by copying the directory and reopening, re-applies the committed entries above the reported index and the property is evaluated on those outputs.",
    'note': "The unchanged tree violates the property (four classes in known_findings.json). Trusted: Coq kernel, hand model SMCrash (validated against the real engines at every crash point on every run), the probe's crash emulation by file copies.",
    'design_ref': 'DESIGN.md §4 C15',
}
