"""C11 — linearizable reads are linearizable."""
import json
from dvlib import core, flow
from dvlib.core import Broken
from props import lease_common as lc

ID = 'C11'
PROPS_FILE = 'theories/props/Properties_C11.v'
CONE = ['theories/LeaderRead.v', 'theories/proofs/C11.v']
IMPORTS = 'From DE Require Import BufLog LeaderRead.'

def oracle(case, out):
    """necessary condition of the statement on one leader's outputs: a linearizable read that was not answered at once
    under the lease / single-voter rule (that is C12's matter) may only be answered after a voter majority acknowledged a
    request sent at or after its arrival, and never after the leader handled a higher-term message"""
    for e in lc.timeline(case, out):
        for j in e['served']:
            if e['kinds'][j] != 6: continue
            i0, tarr, gid0 = e['arrival'][j]
            if e['applied'] < e['commit_at_arrival'][j]:
                return ('lin-read-served-before-apply',
                        'linearizable read %d arrived when the commit index was %d and was answered by event %s while the state machine had applied only %d: it cannot see the writes acknowledged before it' % (j, e['commit_at_arrival'][j], [e['k'], e['arg']], e['applied']))
            if e['stepdown_at'] is not None:
                return ('lin-read-served-after-stepdown-decision',
                        'linearizable read %d answered at %d ms after the leader handled a higher-term message at %d ms' % (j, e['t1'], e['stepdown_at']))
            if e['i'] == i0: continue
            fresh = {f for (ta, f, g) in e['acks'] if g >= gid0}
            if 2 * (len(fresh) + 1) <= e['n']:
                return ('lin-read-without-fresh-quorum',
                        'linearizable read %d (arrived at %d ms, round %d) answered at %d ms by event %s; voters that acknowledged a round sent since its arrival: %s (+leader) of %d'
                        % (j, tarr, gid0, e['t1'], [e['k'], e['arg']], sorted(fresh), e['n']))
    return None

def check(run):
    thorough = run.tier == 'thorough'
    run.cov['trusted_base'] += [
        "hand-written model DE.LeaderRead of the leader's read paths as coded (noop gate, read index, Phase 3, Path A, Path B, drains), tied to the code by probe lease_cluster",
        "harness lease_cluster: real Raft<SimTC> leader and real followers; MockStateMachine reports the last_applied chosen by the case; request identities of acks are ghost data of the case (the code's acks carry none)",
    ]
    run.assumptions += ["ApplyCompleted(i) is emitted only after the state machine applied i", "single-leader view: the completion of a stale serve to a client-visible linearizability violation needs the rest of the cluster to elect a leader and commit a write, which the leader's inputs do not constrain"]
    broken = flow.proof_step(run, PROPS_FILE, CONE)
    violations = []
    try:
        core.harness_build()
        cases, dist = lc.gen_cases(run, thorough, 'linread')
        outs = lc.probe_cluster(cases)
        lp = []; unstable = 0
        for c, o in zip(cases, outs):
            if isinstance(o, str): broken.append(('correspondence', 'lease_cluster probe error', o[:300])); continue
            v = oracle(c, o)
            if v: violations.append({'class': v[0], 'probe': 'lease_cluster', 'input': c, 'output': o, 'why': v[1]})
            if not lc.stable(c, o): unstable += 1; continue
            lp.append((lc.model_input(c, o), lc.model_expected(o)))
        m1 = core.coq_index_list(IMPORTS, '', 'leader_probe', lp, tag='C11leader', shard=60)
        if m1:
            i = m1[0]; broken.append(('correspondence', 'DE.LeaderRead vs real leader (probe lease_cluster)', '%d disagreements; first on %s -> impl %s' % (len(m1), json.dumps(lp[i][0]), json.dumps(lp[i][1]))))
        run.cov['disagreements'] = len(m1)
        dist['clock-straddled (left out of model comparison)'] = unstable
        dist['lin-reads-served'] = sum(1 for c, o in zip(cases, outs) for e in lc.timeline(c, o) for j in e['served'] if e['kinds'][j] == 6)
        run.add_cases(len(lp), len({json.dumps(c) for c in cases}), [{'case': cases[0], 'impl': outs[0]}], dist,
                      'seeded event sequences over 1-5 voters: linearizable/lease reads before and after the noop commit, apply lag (last_applied 0/3/5), sleeps past the lease, late/duplicate/queued acks, apply completions, step-down messages; + named witnesses')
    except Broken as b:
        broken.append(('harness', b.what, b.detail))
    return flow.conclude(run, broken, violations)

def replay(path):
    r = json.load(open(path))
    if r.get('kind') != 'counterexample':
        print('broken obligation:', [b['name'] for b in r.get('broken', [])]); return 1
    core.harness_build()
    out = lc.probe_cluster([r['input']])[0]; v = oracle(r['input'], out); why = v and '%s: %s' % v
    print('implementation output:', json.dumps(out)); print('VIOLATES: ' + why if why else 'ok'); return 1 if why else 0

META = {
    'title': 'Linearizable reads are linearizable',
    'level': 'proof',
    'technique': 'Rocq theorem over all event sequences of the as-coded leader model (index half of the read-index rule) + refutation witnesses for the freshness half, + differential check against the real leader',
    'text': "Rocq: C11_lin_read_index_sound_partial — for every configuration and event sequence, a linearizable read answered successfully had commit-at-arrival <= read_index <= last_applied-at-serve and was served by Phase 3, Path A or Path B (never before the noop commit). Refuted with witnesses: C11_pathA_stale_ack_refuted, C11_pathA_single_voter_ack_of_five_refuted, C11_pathB_no_ack_refuted — the code answers queued linearizable reads without a quorum acknowledgement that is newer than the read. All three are replayed on the real leader.",
    'note': "Not proved: client-visible linearizability of whole-cluster histories (needs the cluster model and C05/C06/C29). The unchanged tree violates the freshness condition (known findings).",
    'design_ref': 'DESIGN.md §4 C11',
}
