"""C35 — multi-key reads return results aligned with the requested keys."""
import json
from dvlib import core, flow
from dvlib.core import Broken

ID = 'C35'
PROPS_FILE = 'theories/props/Properties_C35.v'
CONE = ['theories/KV.v', 'theories/MultiGet.v', 'theories/proofs/C22.v', 'theories/proofs/C35.v']
IMPORTS = 'From DE Require Import KV MultiGet.'

PATHS = ['embedded eventual (SM::get_multi direct)', 'embedded lease read', 'embedded linearizable (cmd_tx_path realign)', 'embedded ClientApi::get_multi',
         'gRPC linearizable (cmd path + realign)', 'gRPC lease read (server fast path + realign)', 'gRPC eventual (server fast path + realign)', 'gRPC default policy']
KEYS = [[1], [2], [1, 2], [], [255], [0], [1, 2, 3], [2, 1]]
VALS = [[7], [], [0], [1, 2], [255, 255, 255]]

def gen_cases(run, thorough):
    r = run.rng('multiget'); cases = []; dist = {}
    def tag(t, n=1): dist[t] = dist.get(t, 0) + n
    def add(contents, keys, t):
        cases.append([contents, keys]); tag(t)
        present = {tuple(k) for k, _ in contents}
        if len({tuple(k) for k in keys}) < len(keys): tag('with-duplicate-keys')
        if any(tuple(k) not in present for k in keys): tag('with-missing-keys')
        if any(v == [] for k, v in contents if k in keys): tag('with-empty-values')
        if not keys: tag('empty-key-list')
    # small scope, exhaustive: stores over 2 keys (value empty / non-empty / absent) x all key lists of length <= 3 over 3 keys
    ks = [[1], [2], [3]]
    stores = []
    for a in (None, [], [7]):
        for b in (None, [], [8]):
            stores.append([[k, v] for k, v in (([1], a), ([2], b)) if v is not None])
    import itertools
    for st in stores:
        for n in range(0, 4):
            for kl in itertools.product(ks, repeat=n):
                if thorough or n < 3 or r.chance(1, 4): add(st, list(kl), 'exhaustive-small')
    for _ in range(3000 if thorough else 400):
        pool = r.shuffle(KEYS)[:r.range(1, 6)]
        contents = [[k, r.choice(VALS)] for k in pool if r.chance(2, 3)]
        keys = [r.choice(pool + [[9, 9]]) for _ in range(r.range(1, 10))]
        add(contents, keys, 'random')
    return cases, dist

def oracle(case, out):
    contents, keys = case
    st = {}
    for k, v in contents: st[tuple(k)] = v
    for name, res in zip(PATHS, out):
        ok, items = res
        grpc = name.startswith('gRPC')
        if not ok:
            if grpc and not keys: continue       # the gRPC client rejects an empty key list (InvalidRequest) before sending
            return ('read-error', '%s: the call failed for keys %s' % (name, keys))
        if len(items) != len(keys): return ('misaligned', '%s: %d results for %d requested keys' % (name, len(items), len(keys)))
        for i, (k, it) in enumerate(zip(keys, items)):
            want = st.get(tuple(k))
            if grpc:
                if it and it[0] != k: return ('misaligned', '%s: result %d carries key %s, requested %s' % (name, i, it[0], k))
                got = it[1] if it else None
            else:
                got = it[0] if it else None
            if got != want: return ('misaligned', '%s: result %d for key %s is %s, the store holds %s' % (name, i, k, got, want))
    return None

def check(run):
    thorough = run.tier == 'thorough'
    run.cov['trusted_base'] += [
        "hand-written model DE.MultiGet of read_from_state_machine, fast_path_batch_read_response, the HashMap realignment in EmbeddedReadHandle::cmd_tx_path / StandaloneReadHandle::get_batch / GrpcClient::get_multi_with_policy; tied to the code by the multiget probe",
        "harness: a real single-node EmbeddedEngine with gRPC server, real EmbeddedClient and GrpcClient; the state machine is an in-memory recording one whose contents are set directly per case (its get_multi is the trait's default implementation)",
    ]
    run.assumptions += ["the store does not change between the request and the response (concurrent writes are C13/C25 matters)",
                        "an empty key list is rejected by the gRPC client with InvalidRequest (not a misalignment); the embedded client returns an empty list"]
    broken = flow.proof_step(run, PROPS_FILE, CONE)
    violations = []
    try:
        core.harness_build()
        cases, dist = gen_cases(run, thorough)
        outs = core.probe_parallel('multiget', cases, jobs=6)
        pairs = []
        for c, o in zip(cases, outs):
            if isinstance(o, str):
                broken.append(('correspondence', 'multiget probe error', o[:300])); continue
            pairs.append((c, o))
            v = oracle(c, o)
            if v: violations.append({'class': v[0], 'probe': 'multiget', 'input': c, 'output': o, 'why': v[1]})
        mism = core.coq_index_list(IMPORTS, '', 'multiget_probe', pairs, tag='C35', shard=200)
        if mism:
            i = mism[0]
            broken.append(('correspondence', 'DE.MultiGet read paths vs the real clients (probe multiget)',
                           '%d disagreements; first on %s -> impl %s' % (len(mism), json.dumps(pairs[i][0]), json.dumps(pairs[i][1]))))
        run.cov['disagreements'] = len(mism)
        dist['read-calls(8 paths per case)'] = 8 * len(pairs)
        run.add_cases(len(pairs), len({json.dumps(c) for c, _ in pairs}), [{'case': pairs[j][0], 'impl': pairs[j][1]} for j in (len(pairs) // 3, len(pairs) - 1)], dist,
                      'exhaustive: 9 stores over 2 keys (absent / empty value / value) x key lists of length <= 3 over 3 keys (one never present); seeded: stores of 0-5 keys (empty key, empty values), key lists of 1-9 keys with duplicates and missing keys; 8 read paths each; distinct = distinct cases')
    except Broken as b:
        broken.append(('harness', b.what, b.detail))
    return flow.conclude(run, broken, violations)

def replay(path):
    r = json.load(open(path))
    if r.get('kind') != 'counterexample':
        print('broken obligation:', [b['name'] for b in r.get('broken', [])]); return 1
    core.harness_build()
    out = core.probe('multiget', [r['input']])[0]
    print('implementation output:', json.dumps(out))
    if isinstance(out, str): print('VIOLATES: probe error'); return 1
    v = oracle(r['input'], out)
    print('VIOLATES (%s): %s' % v if v else 'ok'); return 1 if v else 0

META = {
    'title': 'Multi-key reads return results aligned with the requested keys',
    'level': 'proof',
    'technique': 'Rocq theorems on a model of the sparse server answer and the hash-map realignment of both clients (for all stores and key lists); differential check against a real single-node engine read through the real embedded and gRPC clients on all consistency routes',
    'text': "Rocq: C35_realign_correct — realigning read_from_state_machine's sparse answer gives the position-wise lookup for every store and key list (duplicates, missing keys, empty keys/values); C35_realign_any_sound_complete_answer — independent of order/multiplicity of the server's entries; C35_fast_path_response_is_sparse_answer; C35_embedded_paths_aligned and C35_grpc_paths_aligned — on every route one result per requested key, in request order, the key's value or absent (gRPC results carry the requested key). Replayed on every run against the real EmbeddedClient (eventual, lease, linearizable, ClientApi::get_multi) and GrpcClient (linearizable, lease, eventual, default) on a real single-node engine.",
    'note': "Trusted: Coq kernel, hand model DE.MultiGet (validated by the multiget probe). The gRPC client rejects an empty key list with InvalidRequest; this is treated as input validation, not as a misaligned result.",
    'design_ref': 'DESIGN.md §4 C35',
}
