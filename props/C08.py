"""C08 — AppendEntries requests are contiguous and keep logs gap-free."""
import os, json
from dvlib import core, flow, loggen
from dvlib.core import Broken

ID = 'C08'
PROPS_FILE = 'theories/props/Properties_C08.v'
CONE = ['theories/BufLog.v', 'theories/PLog.v', 'theories/Repl.v', 'theories/proofs/C19.v', 'theories/proofs/C08.v']
IMPORTS = 'From DE Require Import BufLog PLog Repl.'
QMAX, TMAX = 14, 6

def mk_log(r, n, base_term=1):
    t = base_term; es = []
    for i in range(1, n + 1):
        if r.chance(1, 4): t += 1
        es.append([i, t, 100 + i])
    return es

def leader_cases(run, thorough):
    r = run.rng('leader'); cases = []; dist = {'lag>=cap&new': 0, 'lag<cap': 0, 'caught-up': 0, 'ahead': 0, 'behind-purge': 0}
    for L in range(0, 9 if not thorough else 13):
        for cap in (1, 2, 3, 5):
            for n_new in (0, 1, 3):
                for purge in ([0] if L < 3 else [0, L // 2]):
                    es = mk_log(r, L)
                    term = max([e[1] for e in es] + [1]) + r.below(2)
                    peers = [[10 + nx, nx] for nx in range(1, L + 3)]
                    for _, nx in peers:
                        if purge and nx <= purge: dist['behind-purge'] += 1
                        elif nx > L + 1: dist['ahead'] += 1
                        elif nx == L + 1: dist['caught-up'] += 1
                        elif L - nx >= cap and n_new: dist['lag>=cap&new'] += 1
                        else: dist['lag<cap'] += 1
                    cases.append([es, purge, cap, term, r.below(L + 1), peers, n_new])
    return cases, dist

def leader_oracle(case, out):
    """C08 leader half on the implementation's output: entries consecutive from prev+1."""
    for rq in out[0]:
        peer, prev, pterm, ents, commit = rq
        for k, e in enumerate(ents):
            if e[0] != prev + 1 + k:
                return 'request to peer with next_index=%d has prev=%d but entry indexes %s' % (peer - 10, prev, [x[0] for x in ents])
    return None

def follower_cases(run, thorough):
    """follower logs (matching, lagging, diverged) x requests a leader can build (contiguous, capped)."""
    r = run.rng('follower'); cases = []; dist = {}
    n = 2500 if thorough else 500
    for k in range(n):
        L = r.range(0, 8)
        leader = mk_log(r, L + r.range(0, 4))
        # follower: a prefix of the leader's log, possibly with a stale tail from an older term
        keep = r.range(0, min(len(leader), L))
        fol = [list(e) for e in leader[:keep]]
        kind = 'prefix'
        if r.chance(1, 2) and keep < 9:
            kind = 'stale-tail'
            t = (fol[-1][1] if fol else 1)
            for j in range(r.range(1, 3)):
                fol.append([keep + 1 + j, t, 900 + j])
            # make sure the leader's entries at those indexes have a higher term (a real divergence)
            for e in leader[keep:]:
                e[1] = max(e[1], t + 1)
            for j in range(keep + 1, len(leader)):
                leader[j][1] = max(leader[j][1], leader[j - 1][1])
        lterm = max([e[1] for e in leader] + [1])
        reqs = []
        for _ in range(r.range(1, 3)):
            nx = r.range(1, len(leader) + 1)
            cap = r.range(1, 4)
            ents = [list(e) for e in leader[nx - 1: nx - 1 + cap]]
            prev = nx - 1
            pterm = leader[prev - 1][1] if prev >= 1 else 0
            reqs.append([lterm, prev, pterm, ents, r.range(0, len(leader))])
            tag = kind + ('/prev0' if prev == 0 else '') + ('/heartbeat' if not ents else '')
            dist[tag] = dist.get(tag, 0) + 1
        purge = 0
        cases.append([fol, purge, r.choice([lterm, lterm, max(1, lterm - 1)]), r.below(keep + 1), reqs, QMAX, TMAX, leader])
    return cases, dist

def follower_oracle(case, out):
    """C08 follower half on the implementation: after an accepted, contiguous request the log has no
    index gaps and no entry agreeing with the leader (i.e. in front of the first conflict, or - when there
    is no conflict - anywhere) was discarded. Returns (class, why) or None."""
    fol = [tuple(e) for e in case[0]]
    leader = {tuple(e) for e in case[7]}
    for rq, o in zip(case[4], out):
        if isinstance(o, str): return ('follower-error', o)
        resp, cu, obs = o
        new = [tuple(e) for e in obs[6]]
        idxs = [e[0] for e in new]
        if idxs != list(range(idxs[0], idxs[0] + len(idxs))) if idxs else False:
            return ('follower-log-gap', 'follower log has index gaps after request %s: %s' % (rq, idxs))
        if resp[0] == 0:
            term, prev, pterm, ents, lc = rq
            for e in fol:
                # "agrees with the leader": the leader's log holds this very entry
                if e in leader and e not in new:
                    if prev == 0 and pterm == 0:
                        return ('prev0-reset-discards-matching-suffix', 'request with prev=(0,0) made the follower discard entry %s which the leader also holds; request %s' % (list(e), rq))
                    return ('follower-discards-agreeing-entry', 'entry %s discarded although the leader holds the same entry; request %s' % (list(e), rq))
        fol = new
    return None

def check(run):
    thorough = run.tier == 'thorough'
    run.cov['trusted_base'] += [
        "hand-written models DE.Repl (replication_handler.rs) and DE.BufLog, tied to the code by the repl_leader / repl_follower probes on every run",
        "harness: RaftContext with the real BufferedRaftLog + ReplicationHandler, mocks for transport/membership/state machine",
    ]
    run.assumptions += ["the per-peer worker sends the request built by prepare_batch_requests unchanged (grpc transport not modelled)"]
    broken = flow.proof_step(run, PROPS_FILE, CONE)
    violations = []
    try:
        core.harness_build()
        # ---- leader half
        cases, dist = leader_cases(run, thorough)
        outs = core.probe_parallel('repl_leader', cases)
        pairs = []
        for c, o in zip(cases, outs):
            if isinstance(o, str):
                broken.append(('correspondence', 'repl_leader probe error', o)); continue
            pairs.append((c, o))
            why = leader_oracle(c, o)
            if why:
                violations.append({'class': 'gapped-request', 'probe': 'repl_leader', 'input': c, 'output': o, 'why': why})
        mism = core.coq_index_list(IMPORTS, '', 'leader_probe', pairs, tag='C08leader')
        if mism:
            broken.append(('correspondence', 'DE.Repl.leader_prepare vs ReplicationHandler::prepare_batch_requests',
                           '%d disagreements; first on input %s -> impl %s' % (len(mism), json.dumps(pairs[mism[0]][0]), json.dumps(pairs[mism[0]][1]))))
        run.add_cases(len(pairs), len({json.dumps(c) for c, _ in pairs}), [{'leader_case': pairs[j][0], 'impl': pairs[j][1]} for j in (len(pairs) // 2,)], dist,
                      'leader: exhaustive over log length 0..8(12), cap {1,2,3,5}, new batch {0,1,3}, purge point, every next_index 1..len+2 (one peer each)')
        nreq = sum(len(o[0]) for _, o in pairs)
        run.cov['requests_checked'] = nreq
        # ---- follower half
        fcases, fdist = follower_cases(run, thorough)
        fouts = core.probe_parallel('repl_follower', fcases)
        fpairs = []
        for c, o in zip(fcases, fouts):
            if isinstance(o, str):
                broken.append(('correspondence', 'repl_follower probe error', o)); continue
            fpairs.append((c, o))
            v = follower_oracle(c, o)
            if v:
                violations.append({'class': v[0], 'probe': 'repl_follower', 'input': c, 'output': o, 'why': v[1]})
        fm = core.coq_index_list(IMPORTS, '', 'follower_probe', fpairs, tag='C08follower')
        if fm:
            broken.append(('correspondence', 'DE.Repl.follower_handle vs ReplicationHandler::handle_append_entries',
                           '%d disagreements; first on input %s' % (len(fm), json.dumps(fpairs[fm[0]][0]))))
        run.cov['disagreements'] = len(mism) + len(fm)
        run.add_cases(len(fpairs), len({json.dumps(c) for c, _ in fpairs}), [{'follower_case': fpairs[0][0]}], fdist,
                      'follower: seeded logs (prefix of the leader log, optionally with a stale tail of an older term) x 1-3 capped contiguous requests incl. heartbeats and prev=0')
    except Broken as b:
        broken.append(('harness', b.what, b.detail))
    return flow.conclude(run, broken, violations)

def replay(path):
    r = json.load(open(path))
    if r.get('kind') != 'counterexample':
        print('broken obligation:', [b['name'] for b in r.get('broken', [])]); return 1
    core.harness_build()
    out = core.probe(r['probe'], [r['input']])[0]
    print('implementation output:', json.dumps(out))
    v = leader_oracle(r['input'], out) if r['probe'] == 'repl_leader' else follower_oracle(r['input'], out)
    print('VIOLATES: %s' % (v,) if v else 'ok'); return 1 if v else 0

META = {
    'title': 'AppendEntries requests are contiguous and keep logs gap-free',
    'level': 'proof',
    'technique': 'Rocq theorems on the replication model (request contiguity for all states; follower gap-freeness via the plain-log refinement) + differential check against ReplicationHandler/BufferedRaftLog',
    'text': "Rocq: C08_request_contiguous holds for every log state, cap, peer next index and new batch on DE.Repl.leader_prepare (the model of prepare_batch_requests/retrieve_to_be_synced_logs_for_peers/build_append_request); the follower half is the plain-log theorem p_filter_append_gapfree transported through the C19 refinement. Both models are replayed against the real ReplicationHandler over a real BufferedRaftLog on an exhaustive small-scope sweep (leader) and seeded follower/request pairs; the property itself is evaluated on the implementation's outputs as the search oracle.",
    'note': "Trusted: Coq kernel, hand models Repl/BufLog (validated by probes on every run), harness context with mocks for transport/membership. Known finding: the prev=(0,0) reset branch discards a matching follower suffix (see known_findings.json).",
    'design_ref': 'DESIGN.md §4 C08',
}
