"""C34 — accepted configurations satisfy the safety timing constraints."""
from dvlib import core, flow
from dvlib.core import Broken

ID = 'C34'
PROPS_FILE = 'theories/props/Properties_C34.v'
CONE = ['theories/Gen/Config.v', 'theories/proofs/C34.v']
U64 = 2**64 - 1
U32 = 2**32 - 1

# (path, max value of the Rust field type, accepted sample value)
FIELDS = [
    ('learner_catchup_threshold', U64, 1),
    ('general_raft_timeout_duration_in_ms', U64, 50),
    ('replication.rpc_append_entries_clock_in_ms', U64, 100),
    ('replication.append_entries_max_entries_per_replication', U64, 100),
    ('batching.max_batch_size', U64, 300),
    ('batching.max_merge_entries', U64, 1000),
    ('election.election_timeout_min', U64, 500),
    ('election.election_timeout_max', U64, 1000),
    ('election.rpc_peer_connectinon_monitor_interval_in_sec', U64, 30),
    ('membership.cluster_healthcheck_probe_service_name.is_empty', 1, 0),
    ('state_machine.lease.cleanup_interval_ms', U64, 1000),
    ('state_machine.lease.max_cleanup_duration_ms', U64, 1),
    ('snapshot.max_log_entries_before_snapshot', U64, 1000),
    ('snapshot.cleanup_retain_count', U64, 2),
    ('snapshot.snapshots_dir.valid_dir', 1, 1),
    ('snapshot.chunk_size', U64, 1024),
    ('snapshot.retained_log_entries', U64, 1),
    ('snapshot.sender_yield_every_n_chunks', U64, 1),
    ('snapshot.receiver_yield_every_n_chunks', U64, 1),
    ('snapshot.push_queue_size', U64, 100),
    ('snapshot.receive_chunk_timeout_in_sec', U64, 10),
    ('snapshot.snapshot_push_max_retry', U32, 3),
    ('read_consistency.lease_duration_ms', U64, 250),
    ('read_consistency.network_rtt_p99_ms', U64, 50),
    ('read_actor.channel_capacity', U64, 1024),
    ('read_actor.max_drain', U64, 64),
    ('watch.event_queue_size', U64, 1000),
    ('watch.watcher_buffer_size', U64, 10),
    ('persistence.flush_policy.idle_flush_interval_ms', U64, 100),
]
IDX = {p: i for i, (p, _, _) in enumerate(FIELDS)}
LEASE, RTT, EMIN, EMAX = (IDX['read_consistency.lease_duration_ms'], IDX['read_consistency.network_rtt_p99_ms'],
                          IDX['election.election_timeout_min'], IDX['election.election_timeout_max'])

def coq_paths():
    return 'Definition cfg_paths : list (list string) := [%s]%%string.' % '; '.join(
        '[%s]' % '; '.join('"%s"' % x for x in p.split('.')) for p, _, _ in FIELDS)

def property_holds(vals):
    """The statement of C34 on an *accepted* configuration, in Python integers."""
    g = lambda p: vals[IDX[p]]
    return (vals[LEASE] + vals[RTT] // 2 < vals[EMIN] and vals[EMIN] < vals[EMAX]
            and g('replication.rpc_append_entries_clock_in_ms') != 0 and g('batching.max_batch_size') != 0
            and g('batching.max_merge_entries') != 0
            and g('replication.append_entries_max_entries_per_replication') != 0
            and g('snapshot.retained_log_entries') >= 1)

def gen_cases(run, thorough):
    base = [s for _, _, s in FIELDS]
    cases, tags = [], {}
    def add(v, tag):
        cases.append(list(v)); tags[tag] = tags.get(tag, 0) + 1
    add(base, 'base')
    for i, (p, mx, _) in enumerate(FIELDS):
        for x in sorted({0, 1, 2, mx - 1 if mx > 1 else 1, mx, 99, 100, 101, 60000, 60001}):
            if x <= mx:
                v = list(base); v[i] = x; add(v, 'single-field')
    B = [0, 1, 2, 3, 5, 2**32, 2**63, U64 - 2, U64 - 1, U64]
    for lease in B:
        for rtt in B:
            for emin in B:
                for emax in ([emin, U64] if not thorough else B):
                    v = list(base); v[LEASE], v[RTT], v[EMIN], v[EMAX] = lease, rtt, emin, emax
                    add(v, 'timing-grid')
            s = lease + rtt // 2
            for d in (-1, 0, 1, 2):
                e = s + d
                if 0 <= e <= U64:
                    v = list(base); v[LEASE], v[RTT], v[EMIN], v[EMAX] = lease, rtt, e, min(U64, e + 1)
                    add(v, 'timing-edge')
            # what a wrapping add would accept
            w = (lease + rtt // 2) & U64
            if w != s:
                for d in (1, 2):
                    v = list(base); v[LEASE], v[RTT], v[EMIN], v[EMAX] = lease, rtt, min(U64, w + d), U64
                    add(v, 'timing-wrap')
    r = run.rng('cfg')
    for _ in range(20000 if thorough else 1500):
        v = list(base)
        for i, (p, mx, _) in enumerate(FIELDS):
            k = r.below(10)
            if k < 5: continue
            if k < 7: v[i] = r.choice([0, 1, 2, mx])
            else: v[i] = r.below(mx + 1) if r.chance(1, 2) else r.below(min(mx, 2000) + 1)
        if r.chance(2, 3):
            lease = r.choice([r.below(1000), r.below(U64 + 1), U64 - r.below(4)])
            rtt = r.choice([r.below(1000), r.below(U64 + 1), U64 - r.below(4)])
            s = lease + rtt // 2
            emin = max(0, min(U64, s + r.range(0, 3) - 1)) if r.chance(1, 2) else (s & U64) + r.below(3)
            emin = min(emin, U64)
            v[LEASE], v[RTT], v[EMIN] = lease, rtt, emin
            v[EMAX] = min(U64, emin + r.below(3)) if r.chance(1, 2) else r.below(U64 + 1)
        add(v, 'random')
    return cases, tags

def check(run):
    thorough = run.tier == 'thorough'
    run.cov['trusted_base'] += [
        "tools/rs2v.py: translation of RaftConfig::validate and the sub-validators it calls into DE.Gen.Config (regenerated on every run; cross-checked against the real function by the `config` probe)",
        "modelled not verified: serde (de)serialisation of the configuration, validate_directory's file-system part (abstract boolean), NetworkConfig/ClusterConfig/TLS/Retry validators (not part of the statement)",
    ]
    run.assumptions += ["numeric config fields are u64/usize/u32, i.e. every value is <= 2^64-1 (hypothesis of the theorem)",
                        "ClusterConfig/NetworkConfig validation is outside the property"]
    broken = flow.proof_step(run, PROPS_FILE, CONE)
    violations = []
    try:
        core.harness_build()
        cases, tags = gen_cases(run, thorough)
        inputs = [{'set': [[p, v[i]] for i, (p, _, _) in enumerate(FIELDS)]} for v in cases]
        outs = core.probe_parallel('config', inputs)
        pairs, skipped, accepted = [], 0, 0
        for v, o in zip(cases, outs):
            if isinstance(o, str):
                if o.startswith('UNREPRESENTABLE'): skipped += 1; continue
                broken.append(('correspondence', 'config probe', o)); continue
            pairs.append((v, o))
            if o == 1:
                accepted += 1
                if not property_holds(v):
                    violations.append({'class': 'accepted-config-violates-timing', 'probe': 'config',
                                       'input': dict((p, v[i]) for i, (p, _, _) in enumerate(FIELDS)), 'output': o,
                                       'why': 'RaftConfig::validate() returned Ok but the C34 constraints do not hold for these values',
                                       'replay': './dv replay C34 <this file>'})
        tags['accepted_by_impl'] = accepted; tags['unrepresentable_skipped'] = skipped
        if not any(k == 'translation' for k, _, _ in broken):
            try:
                mism = core.coq_index_list('From DE Require Import CfgEnv Gen.Config.', coq_paths(),
                                           'fun v => vb (RaftConfig_validate (env_of cfg_paths v))', pairs, tag='C34')
                if mism:
                    i = mism[0]
                    broken.append(('correspondence', 'DE.Gen.Config.RaftConfig_validate vs RaftConfig::validate',
                                   'first disagreement on input %r: implementation says %r (%d disagreements)' % (pairs[i][0], pairs[i][1], len(mism))))
                run.cov['disagreements'] = len(mism)
            except Broken as b:
                broken.append(('correspondence', b.what, b.detail))
        distinct = len({tuple(v) for v, _ in pairs if v != [s for _, _, s in FIELDS]})
        run.add_cases(len(pairs), distinct, [{'input': dict(zip([p for p, _, _ in FIELDS], pairs[j][0])), 'validate_ok': pairs[j][1]} for j in (0, len(pairs) // 2, len(pairs) - 1)],
                      tags, 'boundary grid over the timing fields (incl. values where a wrapping add would differ), single-field flips, seeded random u64 tuples; distinct = distinct tuples other than the base config')
    except Broken as b:
        broken.append(('harness', b.what, b.detail))
    return flow.conclude(run, broken, violations)

def replay(path):
    import json
    r = json.load(open(path))
    if r.get('kind') != 'counterexample':
        print('replay file names a broken obligation, nothing to execute:', [b['name'] for b in r.get('broken', [])]); return 1
    core.harness_build()
    inp = {'set': [[p, r['input'][p]] for p, _, _ in FIELDS]}
    out = core.probe('config', [inp])[0]
    vals = [r['input'][p] for p, _, _ in FIELDS]
    bad = out == 1 and not property_holds(vals)
    print('validate ->', out, '; property holds on these values:', property_holds(vals), '; VIOLATES' if bad else '; ok')
    return 1 if bad else 0

META = {
    'title': 'Accepted configurations satisfy the safety timing constraints',
    'level': 'proof',
    'technique': 'Rocq theorem over rs2v-translated RaftConfig::validate (all u64 inputs) + differential check of the translation',
    'text': "Rocq theorem C34_validate_sound: for every field assignment within u64, RaftConfig_validate g = true implies lease + rtt/2 < election_timeout_min < election_timeout_max in unbounded arithmetic and the non-zero/>=1 limits. The definition it speaks about is regenerated from config/raft.rs and config/lease.rs by tools/rs2v.py on every run, and the real RaftConfig::validate is run against it on a boundary grid (incl. wrap-around values) and random u64 tuples.",
    'note': "Trusted: Coq kernel, rs2v translator (cross-checked by the config probe on every run), serde round trip used to build configs in the probe. validate_directory's filesystem part is an abstract boolean. No axioms (Print Assumptions: closed).",
    'design_ref': 'DESIGN.md §4 C34',
}
