"""Shared by C12 and C11: the lease_cluster probe (real leader + real followers), case generation, model inputs, oracles."""
import json, concurrent.futures
from dvlib import core
from dvlib.core import Broken

def _probe(name, cases, timeout=900):
    """like core.probe, but the real code prints '[Node 1] Leader -> Follower' lines on stdout: keep only JSON lines"""
    inp = '\n'.join(json.dumps(c, separators=(',', ':')) for c in cases) + '\n'
    rc, out, err = core.sh([core.DPROBE, name], inp=inp, timeout=timeout, env={'RUST_BACKTRACE': '0'})
    res = []
    for l in out.splitlines():
        if l.startswith('[[') or l.startswith('"'):
            try: res.append(json.loads(l))
            except ValueError: pass
    if rc != 0 or len(res) != len(cases):
        raise Broken('dprobe %s failed (rc=%s, %d/%d outputs)' % (name, rc, len(res), len(cases)), (out[-1500:] + err[-2500:]))
    return res

def probe_cluster(cases, jobs=6):
    if len(cases) < 16: return _probe('lease_cluster', cases)
    n = (len(cases) + jobs - 1) // jobs
    chunks = [cases[i:i + n] for i in range(0, len(cases), n)]
    with concurrent.futures.ThreadPoolExecutor(max_workers=jobs) as ex:
        outs = list(ex.map(lambda c: _probe('lease_cluster', c), chunks))
    return [o for ch in outs for o in ch]

# ---- named witnesses (nf = voters other than the leader; lease ms; events; initial last_applied)
W_VOTE_INSIDE_LEASE = [2, 60, [[0], [1, 2], [2, 2], [3, 2], [0]], 5]                       # follower 2 acks, then votes for 3; leader still serves
W_LATE_ACK = [2, 60, [[0], [1, 2], [4, 70], [0], [2, 2], [0]], 5]                          # ack of the old round renews from the newest send
W_SINGLE_ACK_OF_FIVE = [4, 60, [[0], [1, 2], [2, 2], [1, 3], [2, 3], [4, 70], [0], [1, 4], [2, 4], [0]], 5]
W_STEPDOWN_RACE = [2, 60, [[0], [1, 2], [2, 2], [4, 70], [0], [6], [12, 2], [8], [9]], 5]  # queued ack serves reads after AE(term+1)
W_PATH_B = [2, 60, [[0], [1, 2], [2, 2], [4, 70], [6], [7, 5]], 0]                          # apply completion serves with no ack
W_PATH_A_DUP = [2, 60, [[0], [1, 2], [2, 2], [4, 70], [6], [10, 2]], 5]                     # duplicate of an old ack serves
W_HIGHER_TERM_RESPONSE = [2, 60, [[0], [3, 2], [1, 2], [2, 2], [9], [0], [6]], 5]            # a voter that moved on answers with its term: leader steps down
W_APPLY_LAG = [2, 60, [[1, 2], [2, 2], [6], [10, 2], [1, 3], [2, 3], [7, 5]], 0]           # read queued behind the state machine; acks must not release it
WITNESSES = [W_APPLY_LAG, W_HIGHER_TERM_RESPONSE, W_VOTE_INSIDE_LEASE, W_LATE_ACK, W_SINGLE_ACK_OF_FIVE, W_STEPDOWN_RACE, W_PATH_B, W_PATH_A_DUP]

def gen_cases(run, thorough, salt, proto_only=False):
    r = run.rng(salt); cases = []; dist = {}
    def tag(t): dist[t] = dist.get(t, 0) + 1
    n = (1500 if thorough else 220)
    for _ in range(n):
        nf = r.choice([1, 2, 2, 2, 3, 4, 4] if proto_only else [0, 1, 2, 2, 2, 3, 4, 4])
        lease = r.choice([40, 60])
        a0 = r.choice([0, 5, 5, 5])
        chal = 1 + nf
        fs = [f for f in range(2, 2 + nf) if f != chal] or ([2] if nf else [])
        evs = [[0]]; sleeps = 0; stepped = False; votedf = set()
        for _ in range(r.range(4, 13)):
            x = r.below(100)
            if proto_only:
                if x < 18: evs.append([0]); tag('lease-read')
                elif x < 45 and [f for f in fs if f not in votedf]: evs.append([1, r.choice([f for f in fs if f not in votedf])]); tag('recv')
                elif x < 72 and fs: evs.append([2, r.choice(fs)]); tag('ack')
                elif x < 82 and fs: evs.append([3, r.choice(fs)]); votedf.add(evs[-1][1]); tag('vote-request')
                elif x < 94 and sleeps < 2: evs.append([4, r.choice([lease + 10, 7, 15])]); sleeps += 1; tag('sleep')
                elif not stepped: evs.append([5]); stepped = True; tag('leader-vote-request'); break
                continue
            if x < 14: evs.append([0]); tag('lease-read')
            elif x < 28: evs.append([6]); tag('lin-read')
            elif x < 44 and not stepped and [f for f in fs if f not in votedf]: evs.append([1, r.choice([f for f in fs if f not in votedf])]); tag('recv')
            elif x < 60 and fs: evs.append([2, r.choice(fs)]); tag('ack')
            elif x < 66 and fs and not stepped: evs.append([3, r.choice(fs)]); votedf.add(evs[-1][1]); tag('vote-request')
            elif x < 76 and sleeps < 2: evs.append([4, r.choice([lease + 10, 7, 15])]); sleeps += 1; tag('sleep')
            elif x < 83: evs.append([7, r.choice([5, 5, 3])]); tag('apply-completed')
            elif x < 88 and fs: evs.append([10, r.choice(fs)]); tag('dup-ack')
            elif x < 92 and fs: evs.append([12, r.choice(fs)]); tag('queued-ack')
            elif x < 95: evs.append([9]); tag('process-internal')
            elif not stepped:
                evs.append([r.choice([5, 8])]); stepped = True; tag('step-down')
        tag('voters=%d' % (nf + 1))
        cases.append([nf, lease, evs, a0])
    for w in WITNESSES:
        if proto_only and any(e[0] in (6, 7, 8, 9, 10, 12) for e in w[2]): continue
        cases.append(w); tag('witness')
    return cases, dist

def stable(case, out):
    """the implementation read its clock somewhere in [t0, t1]; the model needs one value: keep cases where every event
    that reads the clock (reads, acks, internal processing) saw a single millisecond"""
    for ev, row in zip(case[2], out[1:]):
        if ev[0] != 4 and row[0] != row[1]: return False
    return True

def model_input(case, out):
    rows = [[row[0], ev[0], (ev[1] if len(ev) > 1 else 0)] for ev, row in zip(case[2], out[1:])]
    return [case[0], case[1], case[3], out[0][1], rows]

def model_expected(out):
    return [row[2:] for row in out[1:]]

def proto_input(case, out):
    rows = [[row[0], ev[0], (ev[1] if len(ev) > 1 else 0)] for ev, row in zip(case[2], out[1:])]
    return [case[0], case[1], out[0][1], rows]

def proto_expected(case, out):
    return [[row[5], (row[8][0] if ev[0] == 3 else 0)] for ev, row in zip(case[2], out[1:])]

# ---- ghost bookkeeping on the implementation's outputs (the network is the case, so request identities are known)
def timeline(case, out):
    """yields per event: dict(t, kind, arg, newly_served=[(read index, kind)], role, term, dl, ...) plus ghost facts"""
    nf, lease, evs, a0 = case
    n = nf + 1
    kinds = []           # kind of each read, in arrival order
    arrival = []         # (event index, time, sends at arrival)
    prev_status = []
    sends = 1            # the election round is request 0
    kept = {f: [] for f in range(2, 2 + nf)}
    lastgid = {f: 0 for f in kept}
    queued = []          # acks queued on the internal channel: (f, gid)
    acks = []            # (time processed, f, gid, genuine)
    votes = {}           # follower -> time it granted
    stepdown_at = None   # time the leader handled a higher-term message
    applied = a0         # what the state machine reports as last_applied (the case sets it: a0, then [7, i])
    commit_at_arrival = []
    res = []
    for i, (ev, row) in enumerate(zip(evs, out[1:])):
        t0, t1, role, term, commit, dl, tok, st, extra = row
        k = ev[0]; a = ev[1] if len(ev) > 1 else 0
        if k in (0, 6):
            kinds.append(k); arrival.append((i, t0, sends)); commit_at_arrival.append(commit)
            # a read that was not answered at once made the leader send a round
        if k == 1 and extra and extra[0] == 1: kept[a].append(sends - 1)
        if k == 1 and extra and extra[0] == 0: kept[a].append(None)
        if k == 2 and extra == [1]:
            g = kept[a].pop(0)
            if g is not None: acks.append((t1, a, g)); lastgid[a] = g
        if k in (10, 12):
            (acks if k == 10 else queued).append((t1, a, lastgid[a]))
        if k in (2, 7, 9, 10) and queued:
            acks.extend((t1, f, g) for (_, f, g) in queued); queued = []
        if k == 7: applied = a
        if k == 3 and extra == [1]: votes.setdefault(a, t1)
        if k in (5, 8) and role == 3 and stepdown_at is None and dl == 0: stepdown_at = t0
        newly = [j for j, s in enumerate(st) if s == 1 and (j >= len(prev_status) or prev_status[j] == 0)]
        # did this event's read cause a send? (pending lease read in a multi-voter cluster, or any linearizable read by a leader)
        if k == 6 and role == 3: sends += 1
        if k == 0 and role == 3 and st and st[-1] == 0: sends += 1
        prev_status = list(st)
        res.append({'i': i, 't0': t0, 't1': t1, 'k': k, 'arg': a, 'served': newly, 'role': role, 'term': term, 'dl': dl,
                    'acks': list(acks), 'votes': dict(votes), 'stepdown_at': stepdown_at, 'kinds': list(kinds),
                    'arrival': list(arrival), 'n': n, 'lease': lease, 'applied': applied, 'commit_at_arrival': list(commit_at_arrival)})
    return res
