"""C03 — a node only skips vote collection when it is the only voter."""
import json
from dvlib import core, flow
from dvlib.core import Broken
from props import mgen

ID = 'C03'
PROPS_FILE = 'theories/props/Properties_C03.v'
CONE = mgen.CONE + ['theories/proofs/C03.v', 'theories/proofs/C03hist.v']

def gen_cases(run, thorough):
    r = run.rng('hist'); dist = {}; cases = [mgen.expansion_case()]
    n = 4000 if thorough else 500
    for k in range(n):
        c = mgen.history(r, dist, want=('change', 'elect', 'restart') if k % 4 else ('change', 'elect'))
        # every history ends with an election moment
        c[2].append([6, [r.choice([0, 1, 1, 2]) for _ in range(r.range(0, 5))]])
        cases.append(c)
    # boundary: every initial size 1..5, expanded by one promotion round, election with no grant at all
    for n0 in range(1, 6):
        init = [[i, mgen.FOLLOWER, mgen.ACTIVE] for i in range(1, n0 + 1)]
        cases.append([1, init, [[0, 8, 1], [0, 9, 1], [9, [8, 9]], [6, [0] * 8], [6, [1] * 8]]])
        cases.append([1, init, [[6, []], [6, [1] * 8], [4, list(range(2, n0 + 1))], [6, []]]])
    dist['elections'] = sum(1 for c in cases for s in c[2] if s[0] == 6)
    return cases, dist

def oracle(case, out):
    """The property on the implementation's own outputs: a win needs granted votes of a strict majority of the
    CURRENT voters (self included) unless there is no other voter."""
    vs = mgen.views(out)
    for step, v in zip(case[2], vs[1:]):
        if step[0] != 6: continue
        won, sent, asked, became = v[0]          # became: BecomeLeader sent by the real CandidateState::tick at this moment
        voters = v[2]
        if not (won or became): continue
        if not voters: continue                       # alone: nothing to collect
        if not sent:
            return ('shortcut-with-other-voters', 'won the election without sending a vote request while the membership has voters %s (initial_cluster_size=%d, is_single_node_cluster=%d)' % (voters, v[5], v[4]))
        granted = sum(1 for x in step[1][:asked] if x == 1)
        if 2 * (1 + granted) <= len(voters) + 1:
            return ('won-without-majority', 'won with %d granted votes of %d voters (self included)' % (granted + 1, len(voters) + 1))
    return None

def check(run):
    thorough = run.tier == 'thorough'
    run.cov['trusted_base'] += [
        "hand-written model DE.Membership (RaftMembership member map / voters / apply_config_change, Membership::is_single_node_cluster = initial_cluster_size == 1 && voters().is_empty(), ElectionHandler::broadcast_vote_requests), tied to the code by the membership probe",
        "harness: the real RaftMembership (constructed through the add-only hook RaftMembership::verif_new = RaftMembership::new) and the real ElectionHandler::broadcast_vote_requests; MockTransport records whether vote requests were sent and plays the voters' answers",
        "the election moment is taken twice: ElectionHandler::broadcast_vote_requests called directly, and a real CandidateState::tick (built from a FollowerState) whose BecomeLeader event is observed",
    ]
    run.assumptions += ["a voter's answer is one of: grant, plain refusal (older log, same term), rpc error; higher-term / newer-log refusals abort the election and are not part of this statement"]
    broken = flow.proof_step(run, PROPS_FILE, CONE)
    violations = []
    try:
        core.harness_build()
        cases, dist = gen_cases(run, thorough)
        outs = core.probe_parallel('membership', cases)
        pairs = []
        for c, o in zip(cases, outs):
            if isinstance(o, str):
                broken.append(('correspondence', 'membership probe error', o[:300])); continue
            pairs.append((c, o))
            why = oracle(c, o)
            if why:
                violations.append({'class': why[0], 'probe': 'membership', 'input': c, 'output': o, 'why': why[1]})
        mgen.correspondence(broken, run, 'memb_probe', pairs, 'C03', 'DE.Membership vs RaftMembership + ElectionHandler (probe membership)')
        dist['wins'] = sum(1 for c, o in pairs for v in mgen.views(o) if len(v[0]) == 4 and v[0][3] == 1)
        # liveness residue of the fix (reported, never judged): several nodes configured, shrunk to itself, cannot win
        dist['lost-with-no-voter-left (liveness, not judged)'] = sum(1 for c, o in pairs for s, v in zip(c[2], mgen.views(o)[1:]) if s[0] == 6 and not v[2] and v[0][0] == 0)
        dist['wins-by-shortcut'] = sum(1 for c, o in pairs for s, v in zip(c[2], mgen.views(o)[1:]) if s[0] == 6 and v[0][0] == 1 and v[0][1] == 0)
        run.add_cases(len(pairs), len({json.dumps(c) for c, _ in pairs}), [{'case': pairs[j][0], 'impl': pairs[j][1]} for j in (0, len(pairs) - 1)], dist,
                      'seeded membership histories from 1..5 initial nodes (AddNode incl. odd statuses, leader batch promotion sized by calculate_safe_batch_size, Promote, RemoveNode, BatchRemove, invalid changes, restarts) with election attempts (grant / refuse / rpc-error per voter) in between and at the end; plus the documented single-node expansion and all initial sizes 1..5; distinct = distinct cases')
    except Broken as b:
        broken.append(('harness', b.what, b.detail))
    return flow.conclude(run, broken, violations)

def replay(path):
    r = json.load(open(path))
    if r.get('kind') != 'counterexample':
        print('broken obligation:', [b['name'] for b in r.get('broken', [])]); return 1
    core.harness_build()
    out = core.probe('membership', [r['input']])[0]
    print('implementation output:', json.dumps(out)); why = oracle(r['input'], out)
    print('VIOLATES: %s — %s' % why if why else 'ok'); return 1 if why else 0

META = {
    'title': 'A node only skips vote collection when it is the only voter',
    'level': 'proof',
    'technique': 'Rocq theorems on the membership/election model of the repaired code (full statement for all histories, characterisation of the shortcut, the expanded single node needs a majority; the refutation of the pre-fix variant kept as history) + differential check of the real RaftMembership, ElectionHandler::broadcast_vote_requests and CandidateState::tick over generated membership histories',
    'text': "Rocq: C03_shortcut_sound — over all histories of AddNode/RemoveNode/Promote/BatchPromote/BatchRemove from any initial configuration, at every election moment and for every pattern of answers, a win without a granted vote implies that the current membership has no other voting member, and with other voting members a win takes vote requests and granted votes of a strict majority of the current voters, self included; C03_shortcut_taken_iff — the shortcut (win without sending a vote request) is taken exactly when the node booted alone AND has no other voter now; C03_expanded_single_node_needs_majority; C03_residue_shrunk_cluster_never_elects (a node configured with several nodes that shrank to itself never wins: liveness, outside this property). History: C03_history_v0_shortcut_refuted / _taken_iff_booted_alone / _agrees_outside_known_class describe the variant before the fix. The model is replayed against the real RaftMembership + ElectionHandler + CandidateState::tick and the property is evaluated on the implementation's outputs at every election moment.",
    'note': "Trusted: Coq kernel, hand model Membership (validated by the probe), mock transport. The unchanged tree used to violate this property (Membership::is_single_node_cluster tested initial_cluster_size()==1 only, so a node that booted alone and was expanded elected itself without votes); repaired by a fix: commit, see known_findings.json (class shortcut-with-other-voters, status fixed). A restarted node still falls back to its initial configuration (C28 known finding), so a node whose config file still lists it alone believes again that it has no other voter: that is C28's defect, the C03 statement is relative to the node's current membership. Needs the add-only hook RaftMembership::verif_new.",
    'design_ref': 'DESIGN.md §4 C03',
}
