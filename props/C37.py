"""C37 — client writes are applied exactly as submitted."""
import json
from dvlib import core, flow
from dvlib.core import Broken

ID = 'C37'
PROPS_FILE = 'theories/props/Properties_C37.v'
CONE = ['theories/KV.v', 'theories/Codec.v', 'theories/proofs/C37.v']
IMPORTS = 'From DE Require Import KV Codec.'

U64 = (1 << 64) - 1
BYTES = [[], [0], [1], [255], [0, 0], [1, 2, 3], [128, 255, 0, 10], [10, 13, 0, 34, 92], list(range(0, 40))]
TTLS = [0, 1, 2, 60, 3600, 127, 128, 255, 256, 16383, 16384, (1 << 31) - 1, 1 << 31, (1 << 32) - 1, 1 << 32, (1 << 63) - 1, 1 << 63, U64 - 1, U64]

def gen_cases(run, thorough):
    r = run.rng('codec'); cases = []; dist = {}
    def tag(t, n=1): dist[t] = dist.get(t, 0) + n
    def rb():
        x = r.below(10)
        if x < 5: return r.choice(BYTES)
        return [r.below(256) for _ in range(r.range(0, 12) if x < 9 else r.range(100, 300))]
    def op():
        x = r.below(10)
        if x < 2: tag('put'); return [0, rb(), rb()]
        if x < 5:
            t = r.choice(TTLS) if r.chance(2, 3) else r.below(U64 + 1)
            tag('put_with_ttl(0)' if t == 0 else 'put_with_ttl'); return [1, rb(), rb(), t]
        if x < 6: tag('delete'); return [2, rb()]
        e = r.choice([[], [[]], [rb()], [rb()]])
        tag('cas-expected-' + ('absent' if e == [] else 'empty' if e == [[]] else 'present')); return [3, rb(), e, rb()]
    # boundary batch first: every TTL boundary, empty key/value, the three kinds of expected value
    cases.append([[1, [1], [2], t] for t in TTLS]); tag('boundary-batch')
    cases.append([[0, [], []], [2, []], [3, [], [], []], [3, [], [[]], []], [3, [1], [[2]], [3]], [1, [], [], 0], [1, [], [], U64]]); tag('boundary-batch')
    for _ in range(600 if thorough else 90):
        cases.append([op() for _ in range(r.range(1, 6))]); tag('random-batch')
    return cases, dist

# ---- the property on the implementation's outputs ----
def expected(op):
    if op[0] == 0: return [0, op[1], op[2], []]
    if op[0] == 1: return [0, op[1], op[2], ([] if op[3] == 0 else [op[3]])]   # ttl_secs = 0 is documented as "no expiration"
    if op[0] == 2: return [1, op[1]]
    return [2, op[1], op[2], op[3]]

def oracle(case, out):
    direct, emb, grpc = out
    want = [expected(o) for o in case]
    for name, got in (('wire constructors -> payload -> decode_entries', [d[2] if len(d) == 3 else d for d in direct]),
                      ('embedded client -> state machine', emb), ('gRPC client -> state machine', grpc)):
        if len(got) != len(want): return ('count', '%s: %d commands for %d submitted operations' % (name, len(got), len(want)))
        for o, g, w in zip(case, got, want):
            if g != w:
                if g == [9]: return ('not-applied', '%s: operation %s failed or did not reach apply_chunk exactly once' % (name, o))
                return ('changed-in-transit', '%s: submitted %s, state machine received %s' % (name, o, g))
    for i, d in enumerate(direct):
        if len(d) == 3 and (d[0] != 100 + i or d[1] != 7 + i % 2): return ('index-term', 'decode_entries changed index/term of entry %d: %s' % (i, d[:2]))
    return None

def check(run):
    thorough = run.tier == 'thorough'
    run.cov['trusted_base'] += [
        "hand-written structured model DE.Codec of embedded_client.rs / client_ext.rs constructors, proto_convert::write_command_to_op, leader_state.rs write_op_to_proto, client_command_to_entry_payloads, command.rs decode_entries + TryFrom<WriteCommand>; tied to the code by the codec probe",
        "prost encode/decode of WriteCommand is not modelled byte by byte (a Command payload is represented by the message it carries); the probe goes through the real prost bytes on all three paths",
        "harness: a real single-node EmbeddedEngine (real Node/Raft loop/LeaderState/ReplicationHandler/BufferedRaftLog over FileStorageEngine/commit + state machine handlers/gRPC server) with a recording state machine, the real EmbeddedClient and the real GrpcClient",
    ]
    run.assumptions += ["'same TTL' is read under the documented wire convention ttl_secs = 0 <=> no expiration (client_api.proto, command.rs, types.rs): put_with_ttl(k, v, 0) must arrive as 'no expiration'; every non-zero TTL must arrive unchanged"]
    broken = flow.proof_step(run, PROPS_FILE, CONE)
    violations = []
    try:
        core.harness_build()
        cases, dist = gen_cases(run, thorough)
        outs = core.probe_parallel('codec', cases, jobs=6)
        pairs = []
        for c, o in zip(cases, outs):
            if isinstance(o, str):
                broken.append(('correspondence', 'codec probe error', o[:300])); continue
            # real engine + real gRPC: on a loaded machine a client call can time out; an operation that failed is no
            # statement about C37 - run such a case again (a genuine loss is deterministic and stays)
            tries = 0
            while tries < 2 and not isinstance(o, str) and any(g == [9] for path in o[1:] for g in path):
                tries += 1; o2 = core.probe('codec', [c])[0]
                if not isinstance(o2, str): o = o2
                run.cov['reruns_after_failed_client_call'] = run.cov.get('reruns_after_failed_client_call', 0) + 1
            pairs.append((c, o))
            v = oracle(c, o)
            if v: violations.append({'class': v[0], 'probe': 'codec', 'input': c, 'output': o, 'why': v[1]})
        mism = core.coq_index_list(IMPORTS, '', 'codec_probe', pairs, tag='C37', shard=100)
        if mism:
            i = mism[0]
            broken.append(('correspondence', 'DE.Codec paths vs the real write path (probe codec)',
                           '%d disagreements; first on %s -> impl %s' % (len(mism), json.dumps(pairs[i][0]), json.dumps(pairs[i][1]))))
        run.cov['disagreements'] = len(mism)
        nops = sum(len(c) for c, _ in pairs); dist['operations(x3 paths)'] = nops
        run.add_cases(len(pairs), len({json.dumps(c) for c, _ in pairs}), [{'case': pairs[j][0], 'impl': pairs[j][1]} for j in (1, len(pairs) - 1)], dist,
                      'boundary batches (every varint-length boundary of ttl incl. 0 and 2^64-1; empty key/value; absent/empty/present expected) + seeded batches of 1-6 operations with byte strings of length 0-300 over all byte values; each operation through 3 paths; distinct = distinct batches')
    except Broken as b:
        broken.append(('harness', b.what, b.detail))
    return flow.conclude(run, broken, violations)

def replay(path):
    r = json.load(open(path))
    if r.get('kind') != 'counterexample':
        print('broken obligation:', [b['name'] for b in r.get('broken', [])]); return 1
    core.harness_build()
    out = core.probe('codec', [r['input']])[0]
    print('implementation output:', json.dumps(out))
    if isinstance(out, str): print('VIOLATES: probe error'); return 1
    v = oracle(r['input'], out)
    print('VIOLATES (%s): %s' % v if v else 'ok'); return 1 if v else 0

META = {
    'title': 'Client writes are applied exactly as submitted',
    'level': 'proof',
    'technique': 'Rocq round-trip theorems on a structured model of the write path (client call -> WriteOperation / proto WriteCommand -> entry payload -> decode_entries -> Command) for both clients, by induction over the batch; differential check against a real single-node engine with a recording state machine driven through the real embedded and gRPC clients (real prost bytes), and against constructors -> client_command_to_entry_payloads -> decode_entries directly',
    'text': "Rocq: C37_embedded_writes_applied_as_submitted and C37_grpc_writes_applied_as_submitted — for every batch of put / put_with_ttl / delete / compare_and_swap calls with arbitrary byte strings (incl. empty), absent/empty/present expected values and every TTL, decoding the leader's entries yields exactly one ApplyEntry per call, in order, with consecutive indexes, carrying the same key, value, expected value and TTL (0 = no expiration); C37_write_operation_roundtrip for arbitrary WriteOperation; C37_position_and_index_preserved; C37_nonzero_ttl_exact; C37_zero_ttl_means_no_expiration. The model is replayed on every run against the Commands a recording state machine receives from a real engine.",
    'note': "Trusted: Coq kernel, hand model DE.Codec (validated by the codec probe), prost (exercised, not modelled). put_with_ttl(k, v, 0) arrives as an insert without expiration: this is the documented wire convention (client_api.proto: '0 means no expiration'), not counted as a defect.",
    'design_ref': 'DESIGN.md §4 C37',
}
