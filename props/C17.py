"""C17 — snapshot transfers are all-or-nothing (follower side)."""
import gzip, io, json, os, re, shutil, tarfile, tempfile, zlib
from dvlib import core, flow
from dvlib.core import Broken

ID = 'C17'
PROPS_FILE = 'theories/props/Properties_C17.v'
CONE = ['theories/SnapXfer.v', 'theories/proofs/C17.v']
IMPORTS = 'From DE Require Import SnapXfer.'
PROBE = 'snapxfer'

# ------------------------------------------------------------------ building blocks
def archive(payload):
    """tar.gz holding one file data.bin (what the recording state machine reads back)."""
    raw = io.BytesIO()
    with tarfile.open(fileobj=raw, mode='w', format=tarfile.USTAR_FORMAT) as tf:
        ti = tarfile.TarInfo('data.bin'); ti.size = len(payload); ti.mtime = 0; ti.mode = 0o644
        tf.addfile(ti, io.BytesIO(payload))
    out = io.BytesIO()
    with gzip.GzipFile(fileobj=out, mode='wb', mtime=0, compresslevel=9) as g: g.write(raw.getvalue())
    return out.getvalue()

def crc(b): return list(zlib.crc32(bytes(b)).to_bytes(4, 'big'))

def chunk(term, leader, seq, total, meta, data): return [term, leader, seq, total, meta, list(data), crc(data)]

def stream(a, size, term, leader, li):
    parts = [a[i:i + size] for i in range(0, len(a), size)] or [b'']
    return [[0, chunk(term, leader, i, len(parts), [list(li)] if i == 0 else [], p)] for i, p in enumerate(parts)]

MUTATIONS = ['none', 'none', 'none', 'drop', 'dup', 'swap', 'bad-checksum', 'bad-data', 'leader-change', 'term-change', 'early-close',
             'timeout', 'timeout-after-all', 'no-meta', 'meta-no-last-included', 'meta-late', 'total+1', 'total-1', 'total-0',
             'seq-from-1', 'extra-chunk', 'later-total-differs', 'later-meta-differs', 'not-gzip', 'tiny-file', 'broken-archive',
             'sm-refuses', 'empty-stream', 'restart-mid-stream', 'short-checksum', 'dups-hide-missing-tail', 'dups-hide-missing-tail']

def gen_one(r, mut):
    payload = bytes(r.range(0, 255) for _ in range(r.range(1, 10)))
    a = archive(payload)
    size = r.choice([16, 24, 40, 40, 64, 200])
    term = r.range(1, 5); leader = r.range(1, 3); li = (r.range(1, 30), r.range(1, term))
    evs = stream(a, size, term, leader, li)
    n = len(evs); k = r.below(n); sm_ok = 1
    archives = [[list(a), list(payload)]]
    c = lambda i: evs[i][1]
    if mut == 'drop':
        del evs[k]
    elif mut == 'dup':
        evs.insert(k, json.loads(json.dumps(evs[k])))
    elif mut == 'swap':
        if n >= 2:
            k = r.below(n - 1); evs[k], evs[k + 1] = evs[k + 1], evs[k]
        else: evs = evs + json.loads(json.dumps(evs))
    elif mut == 'bad-checksum':
        j = r.below(4); c(k)[6][j] = (c(k)[6][j] + r.range(1, 255)) % 256
    elif mut == 'short-checksum':
        c(k)[6] = c(k)[6][:r.range(0, 3)]
    elif mut == 'bad-data':
        d = c(k)[5]
        if d: j = r.below(len(d)); d[j] = (d[j] + r.range(1, 255)) % 256
        else: d.append(1)
    elif mut == 'leader-change':
        for j in range(max(k, 1) if n > 1 else 0, n): c(j)[1] = leader + 1
        if n == 1: evs.append([0, chunk(term, leader + 1, 1, 1, [], b'xx')])
    elif mut == 'term-change':
        for j in range(max(k, 1) if n > 1 else 0, n): c(j)[0] = term + 1
        if n == 1: evs.append([0, chunk(term + 1, leader, 1, 1, [], b'xx')])
    elif mut == 'early-close':
        evs = evs[:k]
    elif mut == 'timeout':
        evs = evs[:k] + [[1]] + evs[k:]
    elif mut == 'timeout-after-all':
        evs = evs + [[1]]
    elif mut == 'no-meta':
        c(0)[4] = []
    elif mut == 'meta-no-last-included':
        c(0)[4] = [[]]
    elif mut == 'meta-late':
        c(0)[4] = []
        if n > 1: c(1)[4] = [list(li)]
    elif mut == 'total+1':
        for j in range(n): c(j)[3] = n + 1
    elif mut == 'total-1':
        for j in range(n): c(j)[3] = n - 1
    elif mut == 'total-0':
        c(0)[3] = 0
    elif mut == 'seq-from-1':
        for j in range(n): c(j)[2] = j + 1
    elif mut == 'extra-chunk':
        evs.append([0, chunk(term, leader, n, n, [], b'tail')])
    elif mut == 'later-total-differs':      # only the first chunk's total is read: still a complete transfer of n chunks
        for j in range(1, n): c(j)[3] = n + 3
    elif mut == 'later-meta-differs':       # only the first chunk's metadata is read
        if n > 1: c(n - 1)[4] = [[li[0] + 1, li[1]]]
    elif mut == 'not-gzip':                 # well-formed transfer of a file that is no archive
        junk = bytes([65 + r.below(20)] + [r.range(0, 255) for _ in range(r.range(10, 60))])
        evs = stream(junk, size, term, leader, li)
    elif mut == 'tiny-file':
        evs = stream(bytes([0x1f, 0x8b, 8][:r.range(0, 3)]), size, term, leader, li)
    elif mut == 'broken-archive':           # gzip magic intact, rest is noise
        junk = bytes([0x1f, 0x8b] + [r.range(0, 255) for _ in range(r.range(10, 40))])
        evs = stream(junk, size, term, leader, li); archives = None
    elif mut == 'sm-refuses':
        sm_ok = 0
    elif mut == 'empty-stream':
        evs = []
    elif mut == 'dups-hide-missing-tail':   # j retransmissions of chunks already sent, then the stream ends m chunks early
        if n < 2:                            # (m = j in two cases out of three: a receiver that counts chunks instead of bytes is fooled)
            a2 = archive(bytes(r.range(0, 255) for _ in range(r.range(20, 40)))); evs = stream(a2, 16, term, leader, li); n = len(evs)
            archives = None
        j = r.range(1, min(3, n - 1)); m = j if r.chance(2, 3) else r.range(0, n - 1)
        keep = evs[:n - m] if m else evs[:]
        for _ in range(j):
            pos = r.range(1, len(keep)); src = r.below(pos)          # a copy of an earlier chunk, delivered later
            keep.insert(pos, json.loads(json.dumps(keep[src])))
        evs = keep
    elif mut == 'restart-mid-stream':       # the leader starts over from chunk 0 on the same channel
        evs = evs[:max(k, 1)] + json.loads(json.dumps(evs))
    # initial directory
    d0 = []
    if r.chance(1, 2): d0.append([[1, r.range(1, 30), r.range(1, 4)], [r.range(0, 255) for _ in range(r.range(0, 6))]])
    if r.chance(1, 4): d0.append([[1, li[0], li[1]], [9, 9, 9]])           # an older file under the very name of this snapshot
    if r.chance(1, 2): d0.append([[2, r.range(1, 5)], [r.range(0, 255) for _ in range(r.range(0, 4))]])
    if r.chance(1, 3): d0.append([[0], [r.range(0, 255) for _ in range(r.range(0, 50))]])   # stale assembly file
    seen = set(); d1 = []
    for e in d0:
        key = json.dumps(e[0])
        if key not in seen: seen.add(key); d1.append(e)
    return [d1, evs, archives, sm_ok]

def gen_cases(run, thorough):
    r = run.rng('xfer'); cases = []; dist = {}
    n = 6000 if thorough else 600
    for i in range(n):
        mut = MUTATIONS[i % len(MUTATIONS)] if i < 2 * len(MUTATIONS) else r.choice(MUTATIONS)
        c = gen_one(r, mut)
        if r.chance(1, 10) and c[1]:      # a second, independent mutation on top: truncate or splice a timeout
            j = r.below(len(c[1]) + 1)
            c[1] = c[1][:j] + ([[1]] if r.chance(1, 2) else []) + (c[1][j + 1:] if r.chance(1, 2) else c[1][j:]); mut += '+2nd'
        dist[mut] = dist.get(mut, 0) + 1
        cases.append(c)
    return cases, dist

# ------------------------------------------------------------------ the property on the implementation's outputs
def exact_stream(evs):
    """None unless the events are exactly chunks 0..n-1 of one (leader, term), in order, with good checksums,
    n = the announced total, metadata (with last_included) on the first chunk and no timeout.
    Returns (last_included, concatenated data)."""
    if not evs or any(e[0] != 0 for e in evs): return None
    cs = [e[1] for e in evs]
    f = cs[0]
    if not f[4] or len(f[4][0]) < 2: return None
    if f[3] != len(cs): return None
    for i, c in enumerate(cs):
        if c[2] != i or c[0] != f[0] or c[1] != f[1] or c[6] != crc(c[5]): return None
    return tuple(f[4][0][:2]), [b for c in cs for b in c[5]]

def universe(case):
    names = [[0]] + [e[0] for e in case[0]]
    for e in case[1]:
        if e[0] == 0 and e[1][4] and len(e[1][4][0]) >= 2: names.append([1] + e[1][4][0][:2])
    return names

def untar(data):
    try:
        with tarfile.open(fileobj=io.BytesIO(gzip.decompress(bytes(data))), mode='r') as tf:
            return list(tf.extractfile('data.bin').read())
    except Exception:
        return None

def oracle(case, out):
    """Returns (class, why) or None."""
    main, aux = out
    ok, listing, sm, acks = main
    outside, crash, ncalls = aux
    d0, evs = case[0], case[1]
    names = universe(case)
    init = {json.dumps(e[0]): e[1] for e in d0}
    ex = exact_stream(evs)
    # (1) the state is replaced only by a complete, ordered, single-leader, checksum-valid transfer
    if ncalls or sm:
        if ex is None:
            return 'installed-from-bad-stream', 'the state machine was handed a snapshot although the stream is not exactly chunks 0..n-1 of one leader/term with valid checksums'
        li, data = ex
        got = dict((json.dumps(n), c) for n, c in zip(names, listing)).get(json.dumps([1] + list(li)))
        if not got or got[0] != data:
            return 'installed-file-differs', 'the final file is not the concatenation of the chunks'
        if sm and (sm[0][0] != li[0] or sm[0][1] != li[1]):
            return 'installed-wrong-metadata', 'state machine got %s, stream announced %s' % (sm[0][:2], li)
        pl = untar(data)
        if sm and pl is not None and sm[0][2] != pl:
            return 'installed-wrong-content', 'state machine got a payload that is not the content of the transferred archive'
    # (2) any other stream leaves state and files untouched and produces no final file
    def untouched(lst, nout, where):
        for n, c in zip(names, lst):
            if n == [0]: continue                       # the temporary assembly file is not a "previous" or "final" file
            key = json.dumps(n)
            if key in init:
                if not c or c[0] != init[key]: return 'failed-transfer-touched-files', '%s: file %s changed from %s to %s' % (where, n, init[key], c)
            elif c:
                return 'failed-transfer-left-final-file', '%s: a final snapshot file %s exists' % (where, n)
        if nout: return 'failed-transfer-left-final-file', '%s: %d unexpected directory entries' % (where, nout)
        return None
    if ex is None:
        if ncalls: return 'installed-from-bad-stream', 'apply_snapshot_from_file called %d times' % ncalls
        if ok: return 'installed-from-bad-stream', 'the handler reported success for an incomplete transfer'
        bad = untouched(listing, len(outside), 'after the stream')
        if bad: return bad
        for k, (lst, nout) in enumerate(crash):
            bad = untouched(lst, nout, 'crash after event %d' % k)
            if bad: return bad
    else:
        # (3) a completed file appears atomically (process crash at every event boundary and at the end)
        li, data = ex
        fkey = json.dumps([1] + list(li))
        for where, lst, nout in [('crash after event %d' % k, l, o) for k, (l, o) in enumerate(crash)] + [('after the stream', listing, len(outside))]:
            for n, c in zip(names, lst):
                if n == [0]: continue
                key = json.dumps(n)
                old = init.get(key)
                if key == fkey and c and c[0] == data: continue
                if (c[0] if c else None) != old:
                    cls = 'partial-final-file-visible' if key == fkey else 'complete-transfer-touched-other-files'
                    return cls, '%s: file %s holds %s (previous %s, complete %d bytes)' % (where, n, c, old, len(data))
            if nout: return 'complete-transfer-touched-other-files', '%s: %d unexpected directory entries' % (where, nout)
    return None

# ------------------------------------------------------------------ storage steps of the real code (strace)
SYS = 'openat,open,creat,write,pwrite64,writev,fsync,fdatasync,sync_file_range,syncfs,sync,rename,renameat,renameat2,close'

def strace_trace(case):
    """Runs the probe on one case under strace; returns [creates of temp, bytes written to it, syncs of it, [[i,t] renames temp->final]]."""
    d = tempfile.mkdtemp(prefix='c17-strace-', dir=core.BUILD if os.path.isdir(core.BUILD) else None)
    try:
        tf = os.path.join(d, 'trace.txt')
        rc, out, err = core.sh(['strace', '-f', '-s', '0', '-e', 'trace=' + SYS, '-o', tf, core.DPROBE, PROBE],
                               inp=json.dumps(case, separators=(',', ':')) + '\n', timeout=300)
        if rc != 0 or not os.path.exists(tf):
            raise Broken('strace run of the snapxfer probe failed', (out + err)[-1500:])
        pending = {}; lines = []
        for l in open(tf, errors='replace'):
            m = re.match(r'(\d+)\s+(.*)$', l.rstrip('\n'))
            if not m: continue
            pid, rest = m.group(1), m.group(2)
            if rest.endswith('<unfinished ...>'):
                pending[pid] = rest[:-len('<unfinished ...>')]; continue
            m2 = re.match(r'<\.\.\. \w+ resumed>(.*)$', rest)
            if m2 and pid in pending:
                rest = pending.pop(pid) + m2.group(1)
            lines.append(rest)
        creates = 0; written = 0; syncs = 0; renames = []; fd = None
        for l in lines:
            m = re.match(r'(?:openat\(AT_FDCWD, |open\(|creat\()"([^"]*)"(?:\.\.\.)?,?\s*([^)]*)\)\s*=\s*(-?\d+)', l)
            if m:
                # (-s 0 only shortens data buffers; strace prints path arguments in full)
                path, flags, ret = m.group(1), m.group(2), int(m.group(3))
                if path.endswith('/snaps/temp-snapshot.part.tar.gz') and 'O_CREAT' in flags and 'O_TRUNC' in flags and ret >= 0:
                    fd = ret; creates += 1; written = 0; syncs = 0
                elif fd is not None and ret == fd: fd = None
                continue
            m = re.match(r'close\((\d+)\)', l)
            if m and fd is not None and int(m.group(1)) == fd:
                fd = None; continue
            m = re.match(r'(write|pwrite64|writev)\((\d+),.*\)\s*=\s*(-?\d+)', l)
            if m and fd is not None and int(m.group(2)) == fd and int(m.group(3)) > 0:
                written += int(m.group(3)); continue
            m = re.match(r'(fsync|fdatasync|sync_file_range)\((\d+)', l)
            if m and fd is not None and int(m.group(2)) == fd:
                syncs += 1; continue
            if re.match(r'(syncfs|sync)\(', l) and fd is not None:
                syncs += 1; continue
            m = re.match(r'rename(?:at2?)?\((?:AT_FDCWD, )?"([^"]*)", (?:AT_FDCWD, )?"([^"]*)"', l)
            if m and m.group(1).endswith('/snaps/temp-snapshot.part.tar.gz'):
                m3 = re.search(r'/snaps/snapshot-(\d+)-(\d+)\.tar\.gz$', m.group(2))
                renames.append([int(m3.group(1)), int(m3.group(2))] if m3 else [0, 0])
        return [creates, written, syncs, renames], syncs_before_rename(lines)
    finally:
        shutil.rmtree(d, ignore_errors=True)

def syncs_before_rename(lines):
    """number of fsync/fdatasync calls (on any descriptor) between the creation of the temp file and its rename; None if no rename"""
    seen = False; n = 0
    for l in lines:
        if 'temp-snapshot.part.tar.gz' in l and 'O_CREAT' in l: seen = True; n = 0
        elif seen and re.match(r'(fsync|fdatasync|syncfs|sync|sync_file_range)\(', l): n += 1
        elif seen and l.startswith('rename') and 'temp-snapshot.part.tar.gz' in l: return n
    return None

def trace_cases(run):
    r = run.rng('trace'); cs = []
    for mut in ['none', 'none', 'none', 'drop', 'bad-checksum', 'timeout', 'not-gzip', 'early-close']:
        c = gen_one(r, mut); c[0] = [e for e in c[0] if e[0] != [0]]   # no stale temp file: the probe itself would create it
        cs.append(c)
    return cs

# ------------------------------------------------------------------ check
def run_probe(cases):
    outs = core.probe_parallel(PROBE, cases, jobs=6)
    return outs

def model_case(c):
    return [c[0], c[1], c[2] if c[2] is not None else [], c[3]]

def check(run):
    thorough = run.tier == 'thorough'
    run.cov['trusted_base'] += [
        "hand-written model DE.SnapXfer of SnapshotAssembler (new/write_chunk/finalize) and DefaultStateMachineHandler::{process_snapshot_stream, apply_snapshot_stream_from_leader}, tied to the code by the snapxfer probe (results, directory contents, ACKs, state-machine calls) and by the strace comparison of the storage steps",
        "harness: real DefaultStateMachineHandler over a real directory, recording MockStateMachine, tokio paused clock for the receive timeout; python zlib.crc32/tarfile/gzip build the streams; strace observes open/write/fsync/rename",
        "two-layer storage model of SnapXfer.ploss (namespace steps reach the disk in order, un-synced data may be cut at any byte, an executed sync step forbids an earlier cut) for the power-loss statements",
    ]
    run.assumptions += ["the snapshot directory holds plain files (no directory under the temp/final name), I/O calls succeed, fewer than 2^32 chunks",
                        "decompression is a parameter of the model (any function); in the correspondence it is the table of archives the generator built",
                        "the temporary assembly file temp-snapshot.part.tar.gz is neither a 'previous' nor a 'final' file: failed transfers leave it behind (as coded and as documented)"]
    broken = flow.proof_step(run, PROPS_FILE, CONE)
    violations = []
    try:
        core.harness_build()
        cases, dist = gen_cases(run, thorough)
        outs = run_probe(cases)
        pairs = []; nfinal_noinstall = 0
        for c, o in zip(cases, outs):
            if isinstance(o, str):
                broken.append(('correspondence', 'snapxfer probe error', o[:300])); continue
            v = oracle(c, o)
            if v:
                violations.append({'class': v[0], 'probe': PROBE, 'input': c, 'output': o, 'why': v[1]})
            if c[2] is not None:               # 'broken-archive': python cannot predict what gunzip/untar make of noise; oracle only
                pairs.append((model_case(c), o[0]))
            if exact_stream(c[1]) and not o[0][0]: nfinal_noinstall += 1
        mism = core.coq_index_list(IMPORTS, '', 'xfer_probe', pairs, tag='C17', shard=60)
        if mism:
            i = mism[0]
            broken.append(('correspondence', 'DE.SnapXfer.apply_stream vs apply_snapshot_stream_from_leader (probe snapxfer)',
                           '%d disagreements; first on %s -> impl %s' % (len(mism), json.dumps(pairs[i][0]), json.dumps(pairs[i][1]))))
        run.cov['disagreements'] = len(mism)
        dist['complete-transfer-but-not-installed(final file stays)'] = nfinal_noinstall
        dist['installed'] = sum(1 for _, o in pairs if o[0])
        # storage steps: model trace vs strace of the real code
        tpairs = []
        for c in trace_cases(run):
            tr, nsync = strace_trace(c)
            tpairs.append((model_case(c), tr))
            if tr[3] and nsync == 0:
                violations.append({'class': 'rename-without-sync', 'probe': PROBE + ' (under strace)', 'input': c, 'output': tr,
                                   'why': 'the temp file was renamed to the final name %s after %d written bytes with no fsync/fdatasync in between: after a power loss the final name can hold a truncated file' % (tr[3], tr[1])})
        tm = core.coq_index_list(IMPORTS, '', 'xfer_trace_probe', tpairs, tag='C17t')
        if tm:
            i = tm[0]
            broken.append(('correspondence', 'DE.SnapXfer.trace vs strace of the real code',
                           '%d disagreements; first on %s -> strace %s' % (len(tm), json.dumps(tpairs[i][0]), json.dumps(tpairs[i][1]))))
        dist['strace-traces'] = len(tpairs)
        run.add_cases(len(pairs) + len(tpairs), len({json.dumps(c) for c, _ in pairs}), [{'case': pairs[j][0], 'impl': pairs[j][1]} for j in (0, len(pairs) - 1)], dist,
                      'seeded: a valid tar.gz split into 1-8 chunks, one mutation per case (drop, duplicate, swap, checksum/data corruption, leader/term change, early close, timeout, metadata/total/seq variations, non-archives, state machine refusal, restart on the same channel), random initial directory (older snapshots, same-name file, stale temp file); distinct = distinct cases')
    except Broken as b:
        broken.append(('harness', b.what, b.detail))
    return flow.conclude(run, broken, violations)

def replay(path):
    r = json.load(open(path))
    if r.get('kind') != 'counterexample':
        print('broken obligation:', [b['name'] for b in r.get('broken', [])]); return 1
    core.harness_build()
    if r.get('class') == 'rename-without-sync':
        tr, nsync = strace_trace(r['input'])
        print('storage steps [creates, bytes written, syncs, renames]:', json.dumps(tr), 'syncs before rename:', nsync)
        bad = bool(tr[3]) and nsync == 0
        print('VIOLATES: renamed to the final name without syncing the data' if bad else 'ok'); return 1 if bad else 0
    out = core.probe(PROBE, [r['input']])[0]
    print('implementation output:', json.dumps(out)); v = oracle(r['input'], out)
    print('VIOLATES: %s — %s' % v if v else 'ok'); return 1 if v else 0

META = {
    'title': 'Snapshot transfers are all-or-nothing',
    'level': 'proof',
    'technique': 'Rocq theorems on the receiver model (stream validation, temp-file assembly, rename, decompress+apply) over all event streams, storage steps with process-crash and power-loss semantics; differential check against the real DefaultStateMachineHandler (mutated chunk streams, directory diff, crash copies) and strace comparison of the storage steps',
    'text': "Rocq: C17_installed_only_if (the state machine is handed a snapshot only if the events are exactly chunks 0..n-1 of one (leader, term) in order with valid checksums, n the announced total, and the final file is the concatenation); C17_failed_untouched (any other stream leaves the state and every file except the temporary assembly file unchanged, no final file); C17_exact_stream_completes; C17_process_crash_atomic (at every step boundary each non-temp name holds its previous content or the complete file); C17_power_loss_atomic (as coded — flush, sync_all of the temp file, rename — every power-loss outcome of every stream leaves under each non-temp name its previous content or the complete file); C17_power_loss_refuted is history: a theorem about the previous variant of the code (rename after flush() only), where a power loss could leave a truncated file under the final name. The probe feeds mutated chunk streams to the real handler (recording state machine, real directory, paused clock for the timeout), copies the directory after every event (process-crash points) and the property is evaluated on those outputs; the storage steps of the real code (open/write/fsync/rename, via strace) are compared with the model's trace, which now contains the sync step: strace must see exactly one fsync of the temp file before the rename.",
    'note': "Trusted: Coq kernel, hand model SnapXfer (validated by the probe on every run), the two-layer storage model, strace. The unchanged tree violated the power-loss part of this property (finalize renamed without sync_all); repaired by a fix: commit (known_findings.json class rename-without-sync, status fixed) — a rename with zero syncs observed by strace is reported as a VIOLATION again.",
    'design_ref': 'DESIGN.md §4 C17',
}
