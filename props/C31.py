"""C31 — leader notifications are consistent."""
from dvlib import cluster

ID = 'C31'
PROPS_FILE = None
CONE = []
ORACLES = [cluster.notifications]

def check(run):
    run.level = 'exploration'
    run.cov['trusted_base'] += ["cluster simulator (real Raft objects; every distinct value of the leader-change watch is recorded between two internal events through the hook Raft::verif_process_one_internal)"]
    run.assumptions += ["notifications are observed at the watch channel registered with Raft::register_leader_change_listener (what LeaderNotifier / EmbeddedEngine expose)"]
    return cluster.check_cluster_property(run, PROPS_FILE, CONE, ORACLES, kills=False, node_level=False, quick=(200, 40))

def replay(path): return cluster.replay_cluster(path, ORACLES)

META = {
    'title': 'Leader notifications are consistent',
    'level': 'exploration',
    'technique': 'exploration of real Raft clusters under seeded fault schedules with the notification oracle (no Rocq theorem yet: the notification sites are not modelled)',
    'text': "Every value the leader-change watch of every node takes is recorded on 3-/5-node clusters of real Raft objects under seeded schedules (elections with partial vote delivery, deposed leaders hearing of successors, message faults, restarts) plus directed scenarios; the oracle checks non-decreasing terms per node, one leader per notified term, and that the notified node really led that term. No machine-checked statement is claimed for this property.",
    'note': "Exploration only. The unchanged tree violated the property (a deposed leader announced its successor with its own old term); repaired by a fix: commit.",
    'design_ref': 'DESIGN.md §4 C31',
}
