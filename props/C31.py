"""C31 — leader notifications are consistent."""
import json
from dvlib import core, flow, cluster
from dvlib.core import Broken
from props import notify_common

ID = 'C31'
PROPS_FILE = 'theories/props/Properties_C31.v'
CONE = ['theories/Election.v', 'theories/Notify.v', 'theories/proofs/C02.v', 'theories/proofs/C01.v', 'theories/proofs/C31.v']
ORACLES = [cluster.notifications]
# fixed finding: a single-voter leader whose noop flush (LogFlushed of the IO thread) is queued when an AppendEntries of a
# newer term deposes it: handle_log_flushed commits regardless of the term (single-voter path), NoopCommitted{old term} is
# queued behind BecomeFollower(Some new leader); before the guard in the NoopCommitted handler it announced (self, old term)
# after (new leader, new term). The directed case (label 14 = flush without processing) must pass every time now.
SINGLE_VOTER_RACE = [1, 2, [[12, 1, 0, 0, 0], [14, 1], [11, 2, 1, 5, 0, 0, [], 0], [9, 1]]]

def recorded_terms_monotone(case, out):
    for i, nd in enumerate(out[-1][0]):
        seq = nd[5]
        for a, b in zip(seq, seq[1:]):
            if b[1] < a[1]:
                return ('single-voter-noop-notified-after-deposition' if case[0] == 1 else 'notified-term-decreased',
                        'node %d was notified %s after %s' % (i + 1, b, a))
    return None

QUICK = (200, 40)
THOROUGH = (1500, 70)

def check(run):
    run.cov['trusted_base'] += [
        "hand-written notification model DE.Notify, code version Cur (the notify_leader_change call sites of Raft::handle_internal_event and the senders of BecomeFollower / BecomeCandidate / LeaderDiscovered / NoopCommitted in the role states) on top of the node model DE.Election, tied to the code by the node-level correspondence of the `cluster` probe (hooks Raft::verif_*)",
        "cluster simulator (real Raft objects; every distinct value of the leader-change watch is recorded between two internal events through the hook Raft::verif_process_one_internal)",
        "the cluster-level corollary takes the history hypotheses (leaders = nodes that turned Leader; every accepted AppendEntries of term t was sent by a leader of t; vote once; majority-backed leaders) as premises: they are C01/C02 obligations and transport facts, validated on the simulated executions, not derived from a model of the whole cluster",
    ]
    run.assumptions += ["notifications are observed at the watch channel registered with Raft::register_leader_change_listener (what LeaderNotifier / EmbeddedEngine expose)",
                        "no kill-restart (a kill loses the hard state, C02 known finding: the notified terms can then decrease - machine-checked witness kill_notified_term_decreases)",
                        "a NoopCommitted handled after the node was deposed is modelled for the one interleaving in which the code can produce it (single-voter leader, noop flush queued in front of a deposing AppendEntries / vote request: event NFlush); with other voters the commit itself is blocked by the term checks of handle_append_result / calculate_new_commit_index, so answer + commit + notification is one step (NAck)"]
    thorough_t = run.tier == 'thorough'
    broken = flow.proof_step(run, PROPS_FILE, CONE)
    violations = []
    try:
        core.harness_build()
        # node level: the notification model against one real node
        notify_common.notify_correspondence(run, 600 if thorough_t else 160, broken, violations)
        # single-voter node incl. the flush race (model event NFlush) against the real code
        notify_common.single_voter_correspondence(run, 200 if thorough_t else 60, broken, violations)
        # directed: single-voter leader deposed while its noop flush is in flight (repeated: timing of the IO thread)
        hits = 0
        for o1 in core.probe('cluster', [SINGLE_VOTER_RACE] * 8):
            v1 = None if isinstance(o1, str) else recorded_terms_monotone(SINGLE_VOTER_RACE, o1)
            if v1:
                hits += 1
                violations.append({'class': v1[0], 'probe': 'cluster', 'input': SINGLE_VOTER_RACE, 'output': None, 'why': v1[1]})
        run.cov['input_distribution']['directed:single-voter-noop-flush-vs-deposition'] = 8
        run.cov['single_voter_race_hits'] = hits
        # cluster level: unchanged (same schedules, same oracle as the exploration-level check)
        ncases, length = THOROUGH if thorough_t else QUICK
        cases, outs, dist = cluster.cluster_runs(run, ncases, length, False)
        ok = 0
        for c, o in zip(cases, outs):
            if isinstance(o, str):
                broken.append(('harness', 'cluster probe error', o[:300])); continue
            ok += 1
            for f in ORACLES:
                v = f(c, o)
                if v:
                    violations.append({'class': v[0], 'probe': 'cluster', 'input': c, 'output': None, 'why': v[1]})
        dist['terms-with-a-leader'] = sum(len(cluster.leaders_by_term(o)) for o in outs if not isinstance(o, str))
        dist['notifications-recorded'] = sum(len(nd[5]) for o in outs if not isinstance(o, str) for nd in o[-1][0])
        run.add_cases(ok, len({json.dumps(c) for c in cases}), [{'n': cases[0][0], 'cap': cases[0][1], 'schedule': cases[0][2][:12]}], dist,
                      'cluster level: 3-, 4- and 5-node clusters of real Raft objects over a simulated network, seeded schedules of %d+ labels (elections with partial vote delivery, AppendEntries delivery/drop/duplication/delay, acks dropped/duplicated/delayed, client writes, heartbeats, same-term step-downs, graceful restarts, stray vote requests) plus directed scenarios; oracle: per node non-decreasing notified terms, one leader per notified term, the notified node was observed leading that term' % length)
    except Broken as b:
        broken.append(('harness', b.what, b.detail))
    return flow.conclude(run, broken, violations)

def replay(path):
    r = json.load(open(path))
    if r.get('kind') == 'counterexample' and r.get('input') and r['input'][0] == 1:
        core.harness_build()
        bad = None
        for out in core.probe('cluster', [r['input']] * 8, timeout=600):
            bad = bad or recorded_terms_monotone(r['input'], out)
        print('VIOLATES: %s' % (bad,) if bad else 'ok'); return 1 if bad else 0
    if r.get('kind') == 'counterexample' and str(r.get('class', '')).startswith('node-'):
        core.harness_build()
        out = core.probe('cluster', [r['input']], timeout=600)[0]
        bad = notify_common.node_oracle(r['input'], out)
        print('VIOLATES: %s' % (bad,) if bad else 'ok'); return 1 if bad else 0
    return cluster.replay_cluster(path, ORACLES)

META = {
    'title': 'Leader notifications are consistent',
    'level': 'proof',
    'technique': 'Rocq: notification model of one node (every notify_leader_change call site) with theorems for all event sequences (non-decreasing terms, every notification justified by own leadership or an accepted AppendEntries) + cluster corollary through election safety (C01) + refutation of the pre-fix behaviour + differential check of the model against a real Raft node + notification oracle on simulated clusters of real Raft nodes',
    'text': "Rocq, over DE.Notify (DE.Election extended by the notifications each event emits in each role): (a) C31_notified_terms_never_decrease - along every run of one node without kill-restart the terms of the Some-notifications never decrease; (b) C31_notification_justified - every Some(l, t) is emitted at the node's current term t and either l is the node itself while it is Leader of t, or the node has just accepted an AppendEntries of term t from l (vote record (l, t, committed)); (c) C31_notifications_name_the_leader - for cluster histories (one run per node) in which every accepted AppendEntries of term t was sent by a leader of t, votes are cast once and leaders are majority-backed, all notifications of all nodes name one node per term and that node led the term (uses C01 election_safety); C31_old_behaviour_*_refuted - without the term adoption before BecomeFollower(Some leader) (code before fix 7cd2780) both (b) and (c) fail on a 3-event run; C31_noguard_*_refuted - without the Leader-of-that-term guard of the NoopCommitted notification (a) and (b) fail in the single-voter race (event NFlush), which (a)/(b)/(c) now cover. The model is replayed against one real Raft node (role, term, vote and the recorded watch values after every event, incl. noop commits through a real voter's acknowledgement) and against a real single-voter node incl. the flush race, and 3-/5-node clusters of real Raft objects are run under seeded fault schedules with the notification oracle.",
    'note': "Trusted: Coq kernel; models Election + Notify (probe-validated); the premises of the cluster corollary (C01/C02 obligations, only leaders send AppendEntries) are validated on simulated executions, not derived from a whole-cluster model. No kill-restart (C02). Learner role and ClusterConfUpdate step-down are not modelled (not driven by the probe). The unchanged tree violated the property twice, both repaired by fix: commits and both pre-fix behaviours refuted in Rocq (code versions Old / NoGuard of the model): a deposed leader announced its successor with its own old term; a single-voter leader whose noop flush raced with a deposing request announced (self, old term) after (new leader, new term).",
    'design_ref': 'DESIGN.md §4 C31',
}
