"""C02 — votes and terms survive crashes."""
from dvlib import cluster

ID = 'C02'
PROPS_FILE = 'theories/props/Properties_C02.v'
CONE = ['theories/Election.v', 'theories/proofs/C02.v']
ORACLES = [cluster.votes_and_terms]

def classify(cls, case, out, why):
    if cls == 'two-grants-in-one-term':
        # the second grant went to the node already observed leading that term: the re-grant class
        import re
        m = re.search(r'granted term (\d+) to (\d+) and later to (\d+)', why)
        if m:
            t, c2 = int(m.group(1)), int(m.group(3))
            if c2 in cluster.leaders_by_term(out).get(t, {}): return 'regrant-to-established-leader'
    return cls

def check(run):
    run.cov['trusted_base'] += [
        "hand-written node model DE.Election, tied to the code by the node-level correspondence of the `cluster` probe (incl. graceful and kill restarts: kill = the Raft object is forgotten without running Drop, the node is rebuilt from what its meta store holds)",
    ]
    run.assumptions += ["the meta store itself keeps what was saved (C21 covers the store)", "kill = process crash without the destructor; power loss not exercised on real storage"]
    return cluster.check_cluster_property(run, PROPS_FILE, CONE, ORACLES, kills=True, classify=classify)

def replay(path): return cluster.replay_cluster(path, ORACLES)

META = {
    'title': 'Votes and terms survive crashes',
    'level': 'proof',
    'technique': 'Rocq theorems on the node election model for all event sequences (term monotone, vote once outside the re-grant class, graceful restart keeps term and vote) + machine-checked refutation witnesses for kill restarts + differential check on real Raft nodes incl. restarts',
    'text': "Rocq on DE.Election (one node's vote/term handling incl. restarts): C02_term_monotone and C02_vote_once_* hold for every event sequence without a kill (graceful restarts included); C02_kill_refuted / kill_term_decreases are vm_compute witnesses that a kill (hard state is written only in Drop for Raft) loses vote and term, C02_regrant_refuted that a delayed vote request of the already-established leader is granted by a node that voted for somebody else. The model is replayed against one real Raft node; real clusters are run with graceful and kill restarts, the property evaluated on the executions (the two refuted classes are known findings).",
    'note': "Trusted: Coq kernel, node model (probe-validated). Known findings: vote/term lost on kill (hard state persisted only on graceful drop), re-grant to the established leader after its AppendEntries overwrote the vote record.",
    'design_ref': 'DESIGN.md §4 C02',
}
