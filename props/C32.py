"""C32 — the cluster recovers once faults stop."""
import json
from dvlib import cluster, core, flow
from dvlib.core import Broken

ID = 'C32'

PROPS_FILE = 'theories/props/Properties_C32.v'
CONE = ['theories/BufLog.v', 'theories/PLog.v', 'theories/Repl.v', 'theories/proofs/C19.v', 'theories/proofs/C08.v', 'theories/proofs/C07.v', 'theories/proofs/C32.v',
        'theories/AbstractRaft.v', 'theories/proofs/AR_election.v', 'theories/proofs/AR_logs.v', 'theories/proofs/AR_complete.v', 'theories/proofs/AR_sms.v', 'theories/proofs/AR_live.v']

def check(run):
    thorough = run.tier == 'thorough'
    run.cov['trusted_base'] += ["cluster simulator: real Raft objects; 'faults stop' = a fixed fair suffix (every node gets an election timeout whose requests reach all, then rounds of tick + deliver everything); time is the number of rounds, not wall-clock"]
    run.assumptions += ["randomised election timers and tokio scheduling are not modelled: the fair suffix replaces them; snapshot-based catch-up is not exercised (C33/C17)"]
    broken = flow.proof_step(run, PROPS_FILE, CONE); violations = []
    try:
        core.harness_build()
        r = run.rng('c32'); cases = []; dist = {}
        for k in range(600 if thorough else 80):
            n = (5, 3, 4, 3)[k % 4]
            cap = r.choice([2, 3, 5])
            pre, tags = cluster.gen_schedule(r, n, r.range(10, 45), faults=True, kills=False)
            sched = pre + cluster.healing_suffix(n, 3, 12) + [[5, a, 777] for a in range(1, n + 1)] + cluster.replication_rounds(n, 5)
            cases.append([n, cap, sched])
            for kk, v in tags.items(): dist[kk] = dist.get(kk, 0) + v
        outs = core.probe_parallel('cluster', cases, jobs=12, timeout=1800)
        ok = 0
        for c, o in zip(cases, outs):
            if isinstance(o, str): broken.append(('harness', 'cluster probe error', o[:300])); continue
            ok += 1
            v = cluster.recovered(c, o)
            if v: violations.append({'class': v[0], 'probe': 'cluster', 'input': c, 'output': None, 'why': v[1]})
        run.add_cases(ok, len({json.dumps(c) for c in cases}), [{'n': cases[0][0], 'cap': cases[0][1], 'faulty_prefix': cases[0][2][:10]}], dist,
                      'seeded faulty prefix (10-45 labels) followed by the fair healing suffix (3 sweeps of election timeouts for nodes without a live leader, 12 replication rounds, one write offered to every node, 5 more rounds); recovered = one leader of the highest term, all logs equal to the leader log, everything committed everywhere')
    except Broken as b:
        broken.append(('harness', b.what, b.detail))
    return flow.conclude(run, broken, violations)

def replay(path): return cluster.replay_cluster(path, [cluster.recovered])

META = {
    'title': 'The cluster recovers once faults stop',
    'level': 'proof',
    'technique': 'partial: Rocq theorems for recoverability of the abstract Raft system (no reachable state is a dead end: C32_recoverable) and for the deterministic progress core of replication (catch-up in ceil(lag/cap) fair rounds) + exploration of real Raft clusters under a seeded faulty prefix followed by a fixed fair suffix (liveness with randomised timers is not a theorem here)',
    'text': "PARTIAL. Rocq (C32_recoverable, on DE.AbstractRaft - the system whose steps every simulated execution of the real nodes is replayed against in C01/C04/C05): from EVERY reachable state, with any non-empty duplicate-free node set, there is a finite continuation (election timeouts of a node with a most up-to-date log until its term exceeds every term in the system, grants by all others, its election, a no-op, acceptance of its whole log by every node, commit, propagation of the commit index) ending in a state with one leader of a term above all earlier ones, every node in that term holding the leader's log, all of it committed on every node; i.e. no fault history leaves the protocol in a dead end. Rocq (C32_catchup_rounds_partial, on the replication models tied to the code by C08/C19/C07): for every leader log, cap >= 1 and follower agreeing with the leader up to its own last index, each fair heartbeat round delivers a non-empty contiguous request that the follower accepts and that extends the agreement by min(cap, lag); after any k with lag <= k*cap rounds the follower holds the leader's whole log (purge-free logs). Liveness under randomised election timers and runtime scheduling cannot be stated on the models of this development; what is checked is that from the state reached by any seeded faulty prefix (message loss/duplication/delay, step-downs, restarts) a fixed fair suffix - each node gets one undisturbed election timeout, then a bounded number of replication rounds in which everything is delivered - ends with one leader of the highest term, a fresh write accepted and committed, identical logs and commit indexes on all nodes. Partial by nature: 'bounded time' is a bound in rounds.",
    'note': "Partial: C32_recoverable is a possibility (EF) statement on the abstract system, C32_catchup_rounds_partial covers the replication progress core; that the real nodes take such a continuation under fair timers (the other direction of the refinement) is explored, not proved; leader election within bounded time and real-time bounds are explored on simulated clusters (rounds, not wall-clock). Catch-up by snapshot is not exercised.",
    'design_ref': 'DESIGN.md §4 C32',
}
