"""Node-level tie of the notification model DE.Notify to ONE real Raft node (node 1 of a 3-node `cluster` sim).

Events (model input, as election_probe): [0, cand, term, lidx, lterm] vote request, [1, leader, term] AppendEntries of a
phantom leader, [2, granted, higher, 2, denied] election timeout with a canned vote round, [3] same-term step-down,
[4, graceful] restart, and new here [5, pt] = the leader's replication round is answered by the real voter 2 whose term
is pt (labels: deliver node 1's pending AppendEntries to node 2, deliver node 2's answers back; pt is read from the
trace: it is node 2's term after the delivery, an input of node 1's environment).

Second tie (single_voter_correspondence): ONE real node that is the only voter of its cluster (1-node sim), with the
event [6, e] = NFlush e: label 14 flushes the log without letting the node run, so that the IO thread's LogFlushed is
queued in front of the inbound request e (AppendEntries / vote request of a phantom peer). When e deposes the leader
this is the race in which NoopCommitted{old term} is handled by a follower of the newer term.

Compared per event: role, term, vote record and the cumulative list of distinct Some(leader, term) values the node's
leader-change watch took (observation field 5; the probe appends a value only when it differs from the value it
recorded last, and a restart keeps the list: DE.Notify.record mirrors that)."""
import json
from dvlib import core, cluster

NOTIFY_IMPORTS = 'From DE Require Import Election Notify.'
ACK_ROUNDS = 3     # a conflict answer makes the leader retry with an earlier prev index; 3 rounds cover the logs built here
ACK_LABELS = [[9, 1], [1, 1, 2, 2], [3, 1, 2, 2], [9, 1], [6, 1]]   # the tick lets the leader resend after a conflict answer

def notify_events(r, nev, biased):
    """Seeded event list. `biased`: terms are chosen near the term the node is expected to hold, so that repeated
    AppendEntries of the recorded leader, same-term requests and depositions by a slightly newer term are frequent."""
    evs = []; cur = 1; last_ae = None
    for _ in range(nev):
        x = r.below(100)
        if not biased:
            e = cluster.node_events(r, 1)[0]
        elif x < 20:
            e = [0, r.range(2, 3), max(1, cur + r.choice([-1, 0, 0, 1, 1, 2])), r.range(0, 2), r.range(0, 3)]
        elif x < 50:
            if last_ae and r.chance(2, 5): e = list(last_ae)
            else: e = [1, r.range(2, 3), max(1, cur + r.choice([-1, 0, 0, 0, 1, 2]))]
        elif x < 78:
            e = [2, r.choice([0, 1, 1, 2]), r.choice([0, 0, 0, cur + r.range(1, 3)]), 2, r.choice([0, 0, 1])]
        elif x < 86: e = [3]
        else: e = [4, r.choice([1, 1, 1, 0])]
        evs.append(e)
        if e[0] == 0: cur = max(cur, e[2])
        elif e[0] == 1:
            cur = max(cur, e[2]); last_ae = e
        elif e[0] == 2: cur = max(cur + 1, e[2] if e[4] else 0)
        if e[0] == 2 and r.chance(3, 5): evs.append([5])
        elif r.chance(1, 12): evs.append([5])
    return evs

def notify_labels(evs):
    labs = []; ends = []
    for e in evs:
        if e[0] == 5:
            for _ in range(ACK_ROUNDS): labs += ACK_LABELS
        else:
            labs += cluster.node_labels([e])
        ends.append(len(labs) - 1)
    return labs, ends

def model_events(evs, ends, out):
    """The [5] events get their parameter from the trace: node 2's term after the deliveries."""
    res = []
    for e, k in zip(evs, ends):
        res.append([5, out[k][0][1][1]] if e[0] == 5 else e)
    return res

def notify_shape(ends, out):
    res = []
    for k in ends:
        nd = out[k][0][0]
        res.append([nd[0], nd[1], nd[3], nd[5]])
    return res

def node_oracle(case, out):
    """C31 evaluated on ONE real node driven by phantom peers (labels only; no kill-restart in the schedule): the
    recorded terms never decrease, and every recorded (l, t) is the node itself observed leading t, or the sender of an
    AppendEntries of term t that was delivered to the node."""
    labs = case[2]
    if any(l[0] == 7 and l[2] == 0 for l in labs): return None
    seq = out[-1][0][0][5]
    for a, b in zip(seq, seq[1:]):
        if b[1] < a[1]:
            return ('node-notified-term-decreased', 'node 1 was notified %s after %s' % (b, a))
    led = {nd[1] for obs, _ in out for nd in [obs[0]] if nd[0] == cluster.LEADER}
    aes = {(l[1], l[3]) for l in labs if l[0] == 11 and l[2] == 1}
    for l, t in seq:
        if l == 1 and t in led: continue
        if l != 1 and (l, t) in aes: continue
        return ('node-notified-leader-unjustified', 'node 1 was told leader %d for term %d; it led terms %s and was sent AppendEntries %s' % (l, t, sorted(led), sorted(aes)))
    return None

def notify_correspondence(run, ncases, broken, violations):
    r = run.rng('notify-node')
    evss = [notify_events(r, r.range(3, 12), k % 4 != 0) for k in range(ncases)]
    labelled = [notify_labels(e) for e in evss]
    cases = [[3, 2, labs] for labs, _ in labelled]
    outs = core.probe_parallel('cluster', cases)
    pairs = []; dist = {}; nviol = 0
    for evs, (labs, ends), case, out in zip(evss, labelled, cases, outs):
        if isinstance(out, str):
            broken.append(('harness', 'cluster probe error (node level)', out[:300])); continue
        v = node_oracle(case, out)
        if v:
            violations.append({'class': v[0], 'probe': 'cluster', 'input': case, 'output': None, 'why': v[1]}); nviol += 1
        mev = model_events(evs, ends, out)
        pairs.append(([1, [0, 0], mev], notify_shape(ends, out)))
        for x in evs:
            k = ['vote-request', 'append-entries', 'election-timeout', 'same-term-step-down', 'restart', 'replication-answer'][x[0]]
            dist['node:' + k] = dist.get('node:' + k, 0) + 1
        rec = out[-1][0][0][5]
        dist['node:recorded-notifications'] = dist.get('node:recorded-notifications', 0) + len(rec)
        dist['node:recorded-own-leadership'] = dist.get('node:recorded-own-leadership', 0) + sum(1 for l, t in rec if l == 1)
    mism = core.coq_index_list(NOTIFY_IMPORTS, '', 'notify_probe', pairs, tag=run.prop + 'notify')
    if mism:
        i = mism[0]
        broken.append(('correspondence', 'DE.Notify.nstep vs the real Raft node (probe cluster, node level: role, term, vote, recorded leader notifications)',
                       '%d disagreements; first on events %s -> impl %s' % (len(mism), json.dumps(pairs[i][0][2]), json.dumps(pairs[i][1]))))
    run.add_cases(len(pairs), len({json.dumps(p[0]) for p in pairs}), [{'node_events': pairs[0][0][2], 'impl': pairs[0][1]}] if pairs else [], dist,
                  'node level (notifications): one real Raft node under 3-12 seeded events (vote requests, AppendEntries of phantom leaders incl. repeats of the recorded leader, election timeouts with canned rounds, same-term step-downs, graceful and kill restarts, answers of a real voter to the leader\'s replication round so that the noop commits or the leader is deposed); compared after every event: role, term, vote, recorded notifications')
    run.cov['disagreements'] = run.cov.get('disagreements', 0) + len(mism)
    run.cov['node_oracle_violations'] = nviol
    return pairs, mism


# ---------------------------------------------------------------- single-voter node (1-node sim), incl. the flush race
def sv_events(r, nev):
    evs = []; cur = 1
    for _ in range(nev):
        x = r.below(100)
        def ae(): return [1, r.range(2, 3), max(1, cur + r.choice([-1, 0, 1, 1, 2, 3]))]
        def vr(): return [0, r.range(2, 3), max(1, cur + r.choice([-1, 0, 1, 1, 2])), r.range(0, 3), r.range(0, 4)]
        if x < 30: e = [2, 0, 0, 0, 0]; cur += 1
        elif x < 50: e = [6, r.choice([ae(), ae(), vr(), [3]])]
        elif x < 62: e = [5]
        elif x < 74: e = ae()
        elif x < 84: e = vr()
        elif x < 92: e = [3]
        else: e = [4, r.choice([1, 1, 0])]
        inner = e[1] if e[0] == 6 else e
        if inner[0] in (0, 1): cur = max(cur, inner[2])
        evs.append(e)
    return evs

def sv_labels(evs):
    labs = []; ends = []
    for e in evs:
        if e[0] == 5: labs += [[9, 1]]
        elif e[0] == 6: labs += [[14, 1]] + cluster.node_labels([e[1]])
        else: labs += cluster.node_labels([e])
        ends.append(len(labs) - 1)
    return labs, ends

def sv_model_and_shape(evs, ends, out):
    """Model events and implementation shapes. Two inputs of the node's environment are read from the trace: the
    term of an own-flush answer ([5] -> [5, own term]) and a flush the log's IO thread performed by itself while the
    node went on leading (the noop is then committed during another event: a [5, term] is inserted after it)."""
    mev = []; shape = []; seen_commit = False; prev_role = 1
    for e, k in zip(evs, ends):
        nd = out[k][0][0]
        m = [5, nd[1]] if e[0] == 5 else e
        leader = nd[0] == cluster.LEADER
        committed = bool(nd[4]) and nd[2] >= nd[4][-1][0]
        if not leader: seen_commit = False
        elif committed and not seen_commit:
            seen_commit = True
            if e[0] != 5:
                # one observation for both: the flush first if the node was leading already (e leaves a leader that stays
                # leader untouched), after e if e is the election itself
                m = [7, [[5, nd[1]], m]] if prev_role == cluster.LEADER else [7, [m, [5, nd[1]]]]
        mev.append(m); shape.append([nd[0], nd[1], nd[3], nd[5]]); prev_role = nd[0]
    return mev, shape

def sv_oracle(case, out):
    """C31 on the single-voter node: recorded terms never decrease (schedules without kill)."""
    if any(l[0] == 7 and l[2] == 0 for l in case[2]): return None
    seq = out[-1][0][0][5]
    for a, b in zip(seq, seq[1:]):
        if b[1] < a[1]:
            return ('single-voter-noop-notified-after-deposition', 'node 1 (only voter) was notified %s after %s' % (b, a))
    return None

def single_voter_correspondence(run, ncases, broken, violations):
    r = run.rng('notify-single-voter')
    evss = [sv_events(r, r.range(2, 9)) for _ in range(ncases)]
    evss[0] = [[2, 0, 0, 0, 0], [6, [1, 2, 5]]]                     # the witness of the fixed finding
    evss[1] = [[2, 0, 0, 0, 0], [6, [0, 2, 5, 3, 3]]]               # same with a deposing vote request
    labelled = [sv_labels(e) for e in evss]
    cases = [[1, 2, labs] for labs, _ in labelled]
    outs = core.probe_parallel('cluster', cases)
    pairs = []; dist = {}; races = 0
    for evs, (labs, ends), case, out in zip(evss, labelled, cases, outs):
        if isinstance(out, str):
            broken.append(('harness', 'cluster probe error (single-voter node)', out[:300])); continue
        v = sv_oracle(case, out)
        if v: violations.append({'class': v[0], 'probe': 'cluster', 'input': case, 'output': None, 'why': v[1]})
        mev, shape = sv_model_and_shape(evs, ends, out)
        pairs.append(([1, [0, 0], mev], shape))
        prev_role = 1
        for e, k in zip(evs, ends):
            nd = out[k][0][0]
            if e[0] == 6 and prev_role == cluster.LEADER and nd[0] != cluster.LEADER: races += 1
            prev_role = nd[0]
            name = ['vote-request', 'append-entries', 'election-timeout', 'same-term-step-down', 'restart', 'own-flush', 'flush-queued-before-request'][e[0]]
            dist['single-voter:' + name] = dist.get('single-voter:' + name, 0) + 1
    dist['single-voter:leader-deposed-with-flush-queued'] = races
    mism = core.coq_index_list(NOTIFY_IMPORTS, '', 'notify_probe', pairs, tag=run.prop + 'sv')
    if mism:
        i = mism[0]
        broken.append(('correspondence', 'DE.Notify.nstep vs a real single-voter Raft node (probe cluster, 1-node sim incl. the flush race, label 14)',
                       '%d disagreements; first on events %s -> impl %s' % (len(mism), json.dumps(pairs[i][0][2]), json.dumps(pairs[i][1]))))
    run.add_cases(len(pairs), len({json.dumps(p[0]) for p in pairs}), [{'node_events': pairs[0][0][2], 'impl': pairs[0][1]}] if pairs else [], dist,
                  'single-voter node: one real Raft node that is the only voter, 2-8 seeded events (election timeouts, own flushes, AppendEntries / vote requests of phantom peers, the same with the noop flush queued in front of them (label 14), step-downs, restarts); compared after every event: role, term, vote, recorded notifications')
    run.cov['disagreements'] = run.cov.get('disagreements', 0) + len(mism)
    return pairs, mism
