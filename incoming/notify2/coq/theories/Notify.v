(* Notify — the leader-change notifications of one node, as coded: every call of
   raft.rs Raft::notify_leader_change made by handle_internal_event
     BecomeFollower(l)      -> (l, current term)         BecomeCandidate / BecomeLearner -> (None, current term)
     LeaderDiscovered(l, t) -> (Some l, t)               NoopCommitted{term} -> (Some self, term) if still Leader of term
   together with the senders of those internal events in raft_role/{follower,candidate,leader}_state.rs and
   role_state.rs handle_append_entries_request_workflow (LeaderDiscovered only when SharedState::update_voted_for
   reports a new leader commitment). The node state itself is DE.Election.estep, unchanged; this file adds the
   two pieces of volatile state the notification sites read (SharedState.current_leader_id and the pending
   LeaderNoop post-commit action) and the emitted notifications, in emission order. No proofs here.

   The step is parameterised by the code version [c : code]:
     Cur     - the code as it is: the NoopCommitted handler notifies only
               `if self.role.is_leader() && self.role.current_term() == term`;
     NoGuard - before that guard (after fix 7cd2780): NoopCommitted{term} always announced (self, term), also when
               the event was handled after the node had been deposed;
     Old     - before fix 7cd2780 (and without the guard): a leader that received an AppendEntries of a newer term
               sent BecomeFollower(Some leader) WITHOUT adopting the term first, so that handler announced the new
               leader with the node's own old term.
   The node state reached is the same in all versions. *)
From Coq Require Import NArith List Bool.
From DE Require Import Val Election.
Import ListNotations.
Open Scope N_scope.

Inductive code := Cur | NoGuard | Old.
Definition adopts (c : code) : bool := match c with Old => false | _ => true end.
Definition guards (c : code) : bool := match c with Cur => true | _ => false end.

Definition note := option (N * N).   (* argument of notify_leader_change: None, or Some (leader, term) *)

Record nnode := {
  nn_e : enode;
  nn_cur : N;       (* SharedState.current_leader_id (0 = none): memory only, survives role changes, not restarts *)
  nn_noop : bool    (* LeaderState.pending_commit_actions still holds the LeaderNoop of this leadership *)
}.

Inductive nev :=
| NE (e : eev)      (* the events of DE.Election *)
| NFlush (e : eev)  (* single-voter cluster: the IO thread's LogFlushed for the leader's noop is queued in front of what
                       the event e makes the node queue. If e deposes the leader (AppendEntries or vote request of a
                       newer term: term adopted, BecomeFollower queued; or its own same-term step-down) the LogFlushed is still handled by the
                       Leader role: handle_log_flushed's single-voter path commits without a term check and queues
                       NoopCommitted{term of the election} BEHIND BecomeFollower and the replay, so it is handled when
                       the node is a follower of the newer term. Otherwise this is just e (the flush of a leader that
                       stays leader is NAck with its own term) *)
| NAck (pt : N).    (* the leader's replication round is answered by a voter whose term is pt: a higher term
                       deposes the leader (handle_append_result), a lower one is stale and ignored, its own term
                       is a success that completes a majority (3-voter cluster): the noop of this leadership
                       commits, drain_commit_actions sends NoopCommitted{term captured at election} *)

(* SharedState::update_voted_for called with a committed record (l, t): "new leader commitment" *)
Definition is_new_leader (ov : option vote) (cur l t : N) : bool :=
  match ov with
  | Some o => negb (v_id o =? l) || negb (v_term o =? t) || negb (v_committed o) || (cur =? 0)
  | None => true
  end.

(* handle_append_entries_request_workflow: LeaderDiscovered(l, t) only on that transition *)
Definition discovered (ov : option vote) (cur l t : N) : list note :=
  if is_new_leader ov cur l t then [Some (l, t)] else [].

(* the role accepts an AppendEntries of term t (follower: t >= term; candidate: t >= term, steps down;
   leader: t > term, steps down) *)
Definition ae_accepted (n : enode) (t : N) : bool :=
  match en_role n with
  | Follower => negb (t <? en_term n)
  | Candidate => en_term n <=? t
  | Leader => en_term n <? t
  end.

Definition emits (c : code) (s : nnode) (e : eev) : list note :=
  let n := nn_e s in
  match e with
  | EVoteReq cand t li lt =>
      match en_role n with
      | Follower => []                                                        (* no role change, no internal event *)
      | Candidate => if candidate_legal n t (li, lt) then [None] else []       (* BecomeFollower(None) *)
      | Leader => if en_term n <? t then [None] else []                        (* BecomeFollower(None) *)
      end
  | EAppend l t =>
      match en_role n with
      | Follower => if ae_accepted n t then discovered (en_vote n) (nn_cur s) l t else []
      | Candidate =>
          if ae_accepted n t then
            (* set_current_leader(l); term adopted; BecomeFollower(None); the request is replayed to the follower *)
            let n1 := become_follower (set_rtv n Candidate (N.max (en_term n) t) (en_vote n)) in
            None :: discovered (en_vote n1) l l t
          else []
      | Leader =>
          if ae_accepted n t then
            (* BecomeFollower(Some l) is answered with the node's current term: t after the fix, its own old
               term before; then the replayed request reaches the follower *)
            let n1 := if adopts c then become_follower (set_rtv n Leader t (en_vote n)) else become_follower n in
            Some (l, en_term n1) :: discovered (en_vote n1) (nn_cur s) l t
          else []
      end
  | ETimeout granted higher voters denied =>
      match en_role n with
      | Leader => []
      | r =>
          let t := en_term n + 1 in
          (match r with Follower => [None] | _ => [] end)                      (* BecomeCandidate *)
          ++ (if voters =? 0 then []
              else if (0 <? denied) && (0 <? higher) && (t <? higher) then [None]   (* HigherTerm: BecomeFollower(None) *)
              else [])                                                         (* BecomeLeader notifies nobody *)
      end
  | EStepDownSame => match en_role n with Leader => [None] | _ => [] end       (* BecomeFollower(None) *)
  | ERestart _ => []
  end.

(* the event makes a leader queue BecomeFollower: AppendEntries / vote request of a newer term, or the same-term
   step-down the leader sends itself *)
Definition deposes (n : enode) (e : eev) : bool :=
  match en_role n, e with
  | Leader, EAppend _ t => en_term n <? t
  | Leader, EVoteReq _ t _ _ => en_term n <? t
  | Leader, EStepDownSame => true
  | _, _ => false
  end.

Definition nstep_e (c : code) (s : nnode) (e : eev) : nnode * list note :=
  let n := nn_e s in
  let n' := fst (estep n e) in
  let cur' :=
    match e with
    | EAppend l t => if ae_accepted n t then l else nn_cur s
    | ERestart _ => 0
    | _ => match en_role n, en_role n' with
           | Leader, _ => nn_cur s
           | _, Leader => en_id n            (* From<&CandidateState> for LeaderState: set_current_leader(self) *)
           | _, _ => nn_cur s
           end
    end in
  let noop' :=
    match en_role n' with
    | Leader => match en_role n with Leader => nn_noop s | _ => true end   (* initiate_noop_commit *)
    | _ => false                                                           (* the LeaderState is gone *)
    end in
  ({| nn_e := n'; nn_cur := cur'; nn_noop := noop' |}, emits c s e).

Definition nstep (c : code) (s : nnode) (ev : nev) : nnode * list note :=
  let n := nn_e s in
  match ev with
  | NE e => nstep_e c s e
  | NFlush e =>
      if deposes n e && nn_noop s then
        (* queue: LogFlushed, BecomeFollower(..), replay. LogFlushed -> NoopCommitted{en_term n} queued last;
           BecomeFollower -> first notification of e; NoopCommitted handled by a follower of the newer term:
           (self, old term) without the guard, nothing with it; then the replayed request *)
        let '(s', ns) := nstep_e c s e in
        (s', match ns with
             | x :: rest => x :: (if guards c then [] else [Some (en_id n, en_term n)]) ++ rest
             | [] => []
             end)
      else nstep_e c s e
  | NAck pt =>
      (* answer, commit, NoopCommitted handled in one go: the node still leads the term, the guard holds *)
      match en_role n with
      | Leader =>
          if en_term n <? pt then
            ({| nn_e := become_follower (set_rtv n Leader pt (en_vote n)); nn_cur := nn_cur s; nn_noop := false |}, [None])
          else if pt <? en_term n then (s, [])
          else if nn_noop s then
            ({| nn_e := n; nn_cur := nn_cur s; nn_noop := false |}, [Some (en_id n, en_term n)])
          else (s, [])
      | _ => (s, [])
      end
  end.

(* the inbound event an event carries *)
Definition inbound_of (ev : nev) : option eev :=
  match ev with NE e => Some e | NFlush e => Some e | NAck _ => None end.

Definition nnode0 (id : N) (last : N * N) : nnode := {| nn_e := enode0 id last; nn_cur := 0; nn_noop := false |}.

(* ---- runs: the Some-notifications in emission order, the terms the node led, the AppendEntries it accepted ---- *)
Definition somes (ns : list note) : list (N * N) :=
  flat_map (fun x => match x with Some p => [p] | None => [] end) ns.

Fixpoint nfinal (c : code) (s : nnode) (evs : list nev) : nnode :=
  match evs with [] => s | ev :: evs' => nfinal c (fst (nstep c s ev)) evs' end.

Fixpoint nnotes (c : code) (s : nnode) (evs : list nev) : list (N * N) :=
  match evs with
  | [] => []
  | ev :: evs' => somes (snd (nstep c s ev)) ++ nnotes c (fst (nstep c s ev)) evs'
  end.

Fixpoint nled (c : code) (s : nnode) (evs : list nev) : list N :=
  match evs with
  | [] => []
  | ev :: evs' =>
      let s' := fst (nstep c s ev) in
      (match en_role (nn_e s') with Leader => [en_term (nn_e s')] | _ => [] end) ++ nled c s' evs'
  end.

Fixpoint naccepted (c : code) (s : nnode) (evs : list nev) : list (N * N) :=
  match evs with
  | [] => []
  | ev :: evs' =>
      (match inbound_of ev with
       | Some (EAppend l t) => if ae_accepted (nn_e s) t then [(l, t)] else []
       | _ => []
       end) ++ naccepted c (fst (nstep c s ev)) evs'
  end.

(* ---- what an observer of the watch channel records (harness p_cluster.rs): a value is appended when the
   watch holds Some(leader, term) different from the value recorded last; None only clears the watch ---- *)
Definition pair_eqb (a b : N * N) : bool := (fst a =? fst b) && (snd a =? snd b).

Definition push (acc : list (N * N)) (x : N * N) : list (N * N) :=
  match rev acc with
  | y :: _ => if pair_eqb x y then acc else acc ++ [x]
  | [] => [x]
  end.

Definition record (acc : list (N * N)) (ns : list note) : list (N * N) := fold_left push (somes ns) acc.

(* the recorded list along a run (a restart keeps it: it lives with the observer) *)
Fixpoint nrecorded (c : code) (s : nnode) (evs : list nev) (acc : list (N * N)) : list (N * N) :=
  match evs with
  | [] => acc
  | ev :: evs' => nrecorded c (fst (nstep c s ev)) evs' (record acc (snd (nstep c s ev)))
  end.

(* ---- val glue: [id, [lidx, lterm], [event...]] -> per event [role, term, vote|[], [[leader, term]...]] where the
   last component is the cumulative recorded list; events as in election_probe, plus [5, pt] = NAck pt,
   [6, event] = NFlush event and [7, [event...]] = several events with one observation at the end ---- *)
Definition nev_of_val (v : val) : nev :=
  if vn (vnth v 0) =? 5 then NAck (vn (vnth v 1))
  else if vn (vnth v 0) =? 6 then NFlush (eev_of_val (vnth v 1))
  else NE (eev_of_val v).

Definition nobserve (s : nnode) (rec : list (N * N)) : val :=
  let n := nn_e s in
  VL [VN (role_code (en_role n)); VN (en_term n);
      match en_vote n with Some v => VL [VN (v_id v); VN (v_term v); vb (v_committed v)] | None => VL [] end;
      VL (map (fun p => VL [VN (fst p); VN (snd p)]) rec)].

(* [7, [event...]] = a group of events observed once, at its end *)
Definition nevs_of_val (v : val) : list nev :=
  if vn (vnth v 0) =? 7 then map nev_of_val (vl (vnth v 1)) else [nev_of_val v].

Definition notify_probe_gen (c : code) (v : val) : val :=
  let s0 := nnode0 (vn (vnth v 0)) (vn (vnth (vnth v 1) 0), vn (vnth (vnth v 1) 1)) in
  let one acc ev :=
    let '(s, rec) := acc in
    let '(s', ns) := nstep c s ev in
    (s', record rec ns) in
  let step acc gv :=
    let '(s, rec, out) := acc in
    let '(s', rec') := fold_left one (nevs_of_val gv) (s, rec) in
    (s', rec', out ++ [nobserve s' rec']) in
  VL (snd (fold_left step (vl (vnth v 2)) (s0, [], []))).

Definition notify_probe : val -> val := notify_probe_gen Cur.
