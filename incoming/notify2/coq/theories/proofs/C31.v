(* C31 — "leader-change notifications seen by an application report terms that never decrease, at most one
   leader per term, and only nodes that really were leader in the reported term".
   Over the notification model DE.Notify (one node; code version [Cur] = the code as it is: term adoption before
   BecomeFollower(Some leader) (fix 7cd2780) and the guarded NoopCommitted notification). The events include
   [NFlush e]: the single-voter race in which the leader's noop flush is queued in front of a deposing request,
   so that NoopCommitted{old term} is handled by a follower of the newer term - all statements below cover it:
     - nstep_justified : every Some-notification (l, t) is emitted at the node's current term t, and either the
       node announces itself while it is Leader of t, or it has just accepted an AppendEntries of term t from l
       (its vote record is (l, t, committed));
     - nnotes_sorted : along every run without kill-restart the terms of the Some-notifications never decrease;
     - nnotes_justified : run form of the justification (terms the node led / AppendEntries it accepted);
     - notify_cluster : over the histories of a cluster (one run per node): if every accepted AppendEntries of
       term t was sent by a leader of t and the leaders are the nodes that turned Leader, then, with election
       safety (DE.proofs.C01.election_safety), all notifications of all nodes name, per term, one node, and
       that node led the term;
     - the earlier code versions refuted by machine-checked witnesses: [Old] (before 7cd2780: a deposed leader
       announced its successor with its own old term) and [NoGuard] (before the NoopCommitted guard: in the
       single-voter race the node announced (self, old term) after (new leader, new term));
     - a kill-restart (hard state lost, C02) lets the notified terms decrease: witness. *)
From Coq Require Import NArith List Bool Lia Sorting.Sorted.
From DE Require Import Val Election Notify proofs.C02 proofs.C01.
Import ListNotations.
Open Scope N_scope.

Definition nnonkill (ev : nev) : Prop :=
  match inbound_of ev with Some (ERestart false) => False | _ => True end.
Definition nno_kill (evs : list nev) : Prop := Forall nnonkill evs.

(* ---------- small facts ---------- *)
Lemma in_somes : forall ns p, In p (somes ns) <-> In (Some p) ns.
Proof.
  induction ns as [| x ns IH]; intros p.
  - cbn. tauto.
  - unfold somes in *. cbn [flat_map]. rewrite in_app_iff, IH. cbn [In].
    destruct x as [q |]; cbn [In].
    + split.
      * intros [[Hq | []] | Hr]; [left; f_equal; exact Hq | right; exact Hr].
      * intros [Hq | Hr]; [left; left; injection Hq as Hq; exact Hq | right; exact Hr].
    + split.
      * intros [[] | Hr]. right; exact Hr.
      * intros [Hq | Hr]; [discriminate Hq | right; exact Hr].
Qed.

Lemma in_discovered : forall ov cur l t l' t',
  In (Some (l', t')) (discovered ov cur l t) -> l' = l /\ t' = t.
Proof.
  intros ov cur l t l' t' H. unfold discovered in H.
  destruct (is_new_leader ov cur l t); [| destruct H].
  destruct H as [H | []]. injection H as H1 H2. split; symmetry; assumption.
Qed.

Lemma follower_vote_id : forall s cand t cl, en_id (fst (follower_vote s cand t cl)) = en_id s.
Proof. intros. unfold follower_vote. cbn [fst set_rtv en_id]. reflexivity. Qed.

Lemma become_follower_id : forall s, en_id (become_follower s) = en_id s.
Proof. intros. reflexivity. Qed.

Lemma estep_id : forall s e, en_id (fst (estep s e)) = en_id s.
Proof.
  intros s e. destruct e as [cand t li lt | l t | g h v d | | gr].
  - cbn [estep]. destruct (en_role s).
    + destruct (follower_vote s cand t (li, lt)) as [s' gg] eqn:Hfv. cbn [fst].
      pose proof (follower_vote_id s cand t (li, lt)) as H. rewrite Hfv in H. exact H.
    + destruct (candidate_legal s t (li, lt)); [| reflexivity].
      destruct (follower_vote (become_follower (set_rtv s Candidate t (en_vote s))) cand t (li, lt)) as [s' gg] eqn:Hfv.
      cbn [fst].
      pose proof (follower_vote_id (become_follower (set_rtv s Candidate t (en_vote s))) cand t (li, lt)) as H.
      rewrite Hfv in H. exact H.
    + destruct (en_term s <? t); [| reflexivity].
      destruct (follower_vote (become_follower (set_rtv s Leader t (en_vote s))) cand t (li, lt)) as [s' gg] eqn:Hfv.
      cbn [fst].
      pose proof (follower_vote_id (become_follower (set_rtv s Leader t (en_vote s))) cand t (li, lt)) as H.
      rewrite Hfv in H. exact H.
  - cbn [estep]. destruct (en_role s).
    + destruct (t <? en_term s); reflexivity.
    + destruct (en_term s <=? t); reflexivity.
    + destruct (en_term s <? t); reflexivity.
  - cbn [estep]. destruct (en_role s); [| | reflexivity];
      (destruct (v =? 0); [reflexivity |];
       destruct ((0 <? d) && (0 <? h) && (en_term s + 1 <? h)); [reflexivity |];
       destruct ((0 <? d) && log_ok (en_last s) (0, 0)); [reflexivity |];
       destruct (is_majority (g + 1) (v + 1)); reflexivity).
  - cbn [estep]. destruct (en_role s); reflexivity.
  - reflexivity.
Qed.

Lemma nstep_flush_state : forall c s e, fst (nstep c s (NFlush e)) = fst (nstep_e c s e).
Proof.
  intros c s e. unfold nstep. destruct (deposes (nn_e s) e && nn_noop s); [| reflexivity].
  destruct (nstep_e c s e) as [s' ns]. reflexivity.
Qed.

(* with the guard the racing NoopCommitted announces nothing: the notifications are those of the request *)
Lemma nstep_flush_notes_cur : forall s e, snd (nstep Cur s (NFlush e)) = snd (nstep_e Cur s e).
Proof.
  intros s e. unfold nstep. destruct (deposes (nn_e s) e && nn_noop s); [| reflexivity].
  destruct (nstep_e Cur s e) as [s' ns]. cbn [snd guards]. destruct ns as [| x rest]; reflexivity.
Qed.

Lemma nstep_id : forall c s ev, en_id (nn_e (fst (nstep c s ev))) = en_id (nn_e s).
Proof.
  intros c s ev. destruct ev as [e | e | pt].
  - cbn [nstep nstep_e fst nn_e]. apply estep_id.
  - rewrite nstep_flush_state. cbn [nstep_e fst nn_e]. apply estep_id.
  - unfold nstep. destruct (en_role (nn_e s)); try reflexivity.
    destruct (en_term (nn_e s) <? pt); [reflexivity |].
    destruct (pt <? en_term (nn_e s)); [reflexivity |].
    destruct (nn_noop s); reflexivity.
Qed.

(* the node state does not depend on the code version *)
Lemma nstep_state_version : forall c c' s ev, nn_e (fst (nstep c s ev)) = nn_e (fst (nstep c' s ev)).
Proof.
  intros c c' s ev. destruct ev as [e | e | pt].
  - reflexivity.
  - rewrite !nstep_flush_state. reflexivity.
  - unfold nstep. destruct (en_role (nn_e s)); reflexivity.
Qed.

(* ---------- the term never decreases ---------- *)
Lemma nstep_term_mono : forall c s ev, nnonkill ev ->
  en_term (nn_e s) <= en_term (nn_e (fst (nstep c s ev))).
Proof.
  intros c s ev Hnk. destruct ev as [e | e | pt].
  - cbn [nstep nstep_e fst nn_e]. apply term_monotone_step. exact Hnk.
  - rewrite nstep_flush_state. cbn [nstep_e fst nn_e]. apply term_monotone_step. exact Hnk.
  - unfold nstep. destruct (en_role (nn_e s)); cbn [fst]; try lia.
    destruct (N.ltb_spec (en_term (nn_e s)) pt) as [Hlt | Hge].
    + cbn [fst nn_e become_follower set_rtv en_term]. lia.
    + destruct (pt <? en_term (nn_e s)); cbn [fst]; [lia |].
      destruct (nn_noop s); cbn [fst nn_e]; lia.
Qed.

(* ---------- (b) every Some-notification is justified ---------- *)
Definition justified (s s' : nnode) (ev : nev) (l t : N) : Prop :=
  t = en_term (nn_e s') /\
  ((l = en_id (nn_e s') /\ en_role (nn_e s') = Leader) \/
   (inbound_of ev = Some (EAppend l t) /\ ae_accepted (nn_e s) t = true /\
    en_vote (nn_e s') = Some {| v_id := l; v_term := t; v_committed := true |})).

Lemma nstep_e_justified : forall s e l t,
  In (Some (l, t)) (snd (nstep_e Cur s e)) -> justified s (fst (nstep_e Cur s e)) (NE e) l t.
Proof.
  intros s e l t Hin.
  - cbn [nstep_e fst snd nn_e] in *. unfold justified. cbn [nn_e inbound_of].
    destruct e as [cand t0 li lt | l0 t0 | g h v d | | gr].
    + (* EVoteReq: only None *)
      exfalso. cbn [emits] in Hin. destruct (en_role (nn_e s)).
      * destruct Hin.
      * destruct (candidate_legal (nn_e s) t0 (li, lt)); [destruct Hin as [H | []]; discriminate H | destruct Hin].
      * destruct (en_term (nn_e s) <? t0); [destruct Hin as [H | []]; discriminate H | destruct Hin].
    + (* EAppend *)
      cbn [emits] in Hin. unfold ae_accepted in *. cbn [estep].
      destruct (en_role (nn_e s)) eqn:Hr.
      * (* Follower *)
        destruct (N.ltb_spec t0 (en_term (nn_e s))) as [Hlt | Hge]; cbn [negb] in Hin; [destruct Hin |].
        apply in_discovered in Hin. destruct Hin as [Hl Ht]. subst l t.
        cbn [fst set_rtv en_term en_vote en_id en_role].
        assert (Hm : N.max (en_term (nn_e s)) t0 = t0) by (apply N.max_r; exact Hge).
        assert (Hb : (t0 <? en_term (nn_e s)) = false) by (apply N.ltb_ge; exact Hge).
        split; [symmetry; exact Hm |]. right.
        split; [reflexivity |]. split; [rewrite Hb; reflexivity | reflexivity].
      * (* Candidate *)
        destruct (N.leb_spec (en_term (nn_e s)) t0) as [Hle | Hgt]; [| destruct Hin].
        destruct Hin as [H | Hin]; [discriminate H |].
        apply in_discovered in Hin. destruct Hin as [Hl Ht]. subst l t.
        cbn [fst set_rtv en_term en_vote en_id en_role become_follower].
        assert (Hm : N.max (en_term (nn_e s)) t0 = t0) by (apply N.max_r; exact Hle).
        assert (Hb : (en_term (nn_e s) <=? t0) = true) by (apply N.leb_le; exact Hle).
        split; [symmetry; exact Hm |]. right.
        split; [reflexivity |]. split; [exact Hb | reflexivity].
      * (* Leader: the term is adopted before BecomeFollower(Some l) is sent *)
        destruct (N.ltb_spec (en_term (nn_e s)) t0) as [Hlt | Hge]; [| destruct Hin].
        cbn [adopts fst set_rtv en_term en_vote en_id en_role become_follower] in *.
        assert (Hlt' : l = l0 /\ t = t0).
        { destruct Hin as [H | Hin]; [injection H as H1 H2; split; symmetry; assumption |].
          apply in_discovered in Hin. exact Hin. }
        destruct Hlt' as [Hl Ht]. subst l t.
        assert (Hb : (en_term (nn_e s) <? t0) = true) by (apply N.ltb_lt; exact Hlt).
        split; [reflexivity |]. right.
        split; [reflexivity |]. split; [exact Hb | reflexivity].
    + (* ETimeout: only None *)
      exfalso. cbn [emits] in Hin.
      assert (Hround : ~ In (Some (l, t))
                (if v =? 0 then []
                 else if (0 <? d) && (0 <? h) && (en_term (nn_e s) + 1 <? h) then [@None (N * N)] else [])).
      { destruct (v =? 0); [intros [] |].
        destruct ((0 <? d) && (0 <? h) && (en_term (nn_e s) + 1 <? h)); [| intros []].
        intros [H | []]. discriminate H. }
      destruct (en_role (nn_e s)).
      * apply in_app_or in Hin. destruct Hin as [[H | []] | Hin]; [discriminate H | exact (Hround Hin)].
      * apply in_app_or in Hin. destruct Hin as [[] | Hin]. exact (Hround Hin).
      * destruct Hin.
    + exfalso. cbn [emits] in Hin. destruct (en_role (nn_e s)); try destruct Hin as [H | []]; try destruct Hin.
      discriminate H.
    + exfalso. cbn [emits] in Hin. destruct Hin.
Qed.

Theorem nstep_justified : forall s ev l t,
  In (Some (l, t)) (snd (nstep Cur s ev)) -> justified s (fst (nstep Cur s ev)) ev l t.
Proof.
  intros s ev l t Hin. destruct ev as [e | e | pt].
  - exact (nstep_e_justified s e l t Hin).
  - (* NFlush: with the guard, state and notifications are those of the request *)
    rewrite nstep_flush_notes_cur in Hin. rewrite nstep_flush_state.
    exact (nstep_e_justified s e l t Hin).
  - (* NAck *)
    unfold nstep in *. unfold justified.
    destruct (en_role (nn_e s)) eqn:Hr; cbn [snd] in Hin; try (destruct Hin; fail).
    destruct (en_term (nn_e s) <? pt); cbn [snd] in Hin; [destruct Hin as [H | []]; discriminate H |].
    destruct (pt <? en_term (nn_e s)); cbn [snd] in Hin; [destruct Hin |].
    destruct (nn_noop s); cbn [snd] in Hin; [| destruct Hin].
    destruct Hin as [H | []]. injection H as H1 H2. subst l t.
    cbn [fst nn_e]. split; [reflexivity |]. left. split; [reflexivity | exact Hr].
Qed.

(* a notification carries the term the node holds after the step *)
Corollary nstep_note_term : forall s ev l t,
  In (Some (l, t)) (snd (nstep Cur s ev)) -> t = en_term (nn_e (fst (nstep Cur s ev))).
Proof. intros s ev l t H. exact (proj1 (nstep_justified s ev l t H)). Qed.

(* ---------- (a) notified terms never decrease ---------- *)
Definition term_le (a b : N * N) : Prop := snd a <= snd b.

Lemma nno_kill_cons : forall ev evs, nno_kill (ev :: evs) -> nnonkill ev /\ nno_kill evs.
Proof. intros ev evs H. inversion H as [| ev' evs' He Hes]; subst. split; assumption. Qed.

Lemma nnotes_lower : forall evs s, nno_kill evs ->
  forall x, In x (nnotes Cur s evs) -> en_term (nn_e s) <= snd x.
Proof.
  induction evs as [| ev evs IH]; intros s Hnk x Hin.
  - destruct Hin.
  - apply nno_kill_cons in Hnk. destruct Hnk as [He Hes].
    pose proof (nstep_term_mono Cur s ev He) as Hm.
    cbn [nnotes] in Hin. apply in_app_or in Hin. destruct Hin as [Hin | Hin].
    + destruct x as [l t]. apply in_somes in Hin. apply nstep_note_term in Hin. cbn [snd]. lia.
    + pose proof (IH _ Hes x Hin). lia.
Qed.

Lemma ss_app : forall (l1 l2 : list (N * N)) T,
  (forall x, In x l1 -> snd x = T) -> (forall y, In y l2 -> T <= snd y) ->
  StronglySorted term_le l2 -> StronglySorted term_le (l1 ++ l2).
Proof.
  induction l1 as [| a l1 IH]; intros l2 T H1 H2 Hs.
  - exact Hs.
  - cbn [app]. constructor.
    + apply (IH l2 T); [intros x Hx; apply H1; right; exact Hx | exact H2 | exact Hs].
    + apply Forall_forall. intros y Hy. unfold term_le.
      pose proof (H1 a (or_introl eq_refl)) as Ha.
      apply in_app_or in Hy. destruct Hy as [Hy | Hy].
      * pose proof (H1 y (or_intror Hy)) as Hy'. lia.
      * pose proof (H2 y Hy) as Hy'. lia.
Qed.

Theorem nnotes_sorted : forall evs s, nno_kill evs -> StronglySorted term_le (nnotes Cur s evs).
Proof.
  induction evs as [| ev evs IH]; intros s Hnk.
  - constructor.
  - apply nno_kill_cons in Hnk. destruct Hnk as [He Hes].
    cbn [nnotes].
    apply (ss_app _ _ (en_term (nn_e (fst (nstep Cur s ev))))).
    + intros [l t] Hx. apply in_somes in Hx. apply nstep_note_term in Hx. cbn [snd]. exact Hx.
    + intros y Hy. exact (nnotes_lower evs _ Hes y Hy).
    + apply IH. exact Hes.
Qed.

(* the same as "an earlier notification never carries a larger term than a later one" *)
Corollary nnotes_terms_never_decrease : forall evs s, nno_kill evs ->
  forall pre a mid b post, nnotes Cur s evs = pre ++ a :: mid ++ b :: post -> snd a <= snd b.
Proof.
  intros evs s Hnk pre a mid b post Heq.
  pose proof (nnotes_sorted evs s Hnk) as Hs. rewrite Heq in Hs.
  assert (Hs2 : StronglySorted term_le (a :: mid ++ b :: post)).
  { clear Heq. induction pre as [| p pre IHp]; [exact Hs |].
    apply IHp. cbn [app] in Hs. apply StronglySorted_inv in Hs. exact (proj1 Hs). }
  apply StronglySorted_inv in Hs2. destruct Hs2 as [_ Hall].
  rewrite Forall_forall in Hall. apply (Hall b). apply in_or_app. right. left. reflexivity.
Qed.

(* what the observer records is drawn from what was emitted *)
Lemma push_in : forall acc x y, In y (push acc x) -> In y acc \/ y = x.
Proof.
  intros acc x y H. unfold push in H. destruct (rev acc) as [| z zs].
  - destruct H as [H | []]. right. symmetry. exact H.
  - destruct (pair_eqb x z); [left; exact H |].
    apply in_app_or in H. destruct H as [H | [H | []]]; [left; exact H | right; symmetry; exact H].
Qed.

Lemma record_in : forall ns acc y, In y (record acc ns) -> In y acc \/ In (Some y) ns.
Proof.
  intros ns acc y H. unfold record in H.
  assert (Hgen : forall l a, In y (fold_left push l a) -> In y a \/ In y l).
  { induction l as [| x l IHl]; intros a Ha.
    - left. exact Ha.
    - cbn [fold_left] in Ha. apply IHl in Ha. destruct Ha as [Ha | Ha].
      + apply push_in in Ha. destruct Ha as [Ha | Ha]; [left; exact Ha | right; left; symmetry; exact Ha].
      + right. right. exact Ha. }
  apply Hgen in H. destruct H as [H | H]; [left; exact H | right; apply in_somes; exact H].
Qed.

(* the recorded list is a subsequence of the emitted notifications, hence ordered as well *)
Lemma ss_remove : forall (a : list (N * N)) x l,
  StronglySorted term_le (a ++ x :: l) -> StronglySorted term_le (a ++ l).
Proof.
  induction a as [| h a IH]; intros x l Hs.
  - cbn [app] in *. apply StronglySorted_inv in Hs. exact (proj1 Hs).
  - cbn [app] in *. apply StronglySorted_inv in Hs. destruct Hs as [Hs Hall]. constructor.
    + exact (IH x l Hs).
    + rewrite Forall_forall in *. intros y Hy. apply Hall.
      apply in_app_or in Hy. apply in_or_app. destruct Hy as [Hy | Hy]; [left; exact Hy | right; right; exact Hy].
Qed.

Lemma fold_push_sorted : forall l acc rest,
  StronglySorted term_le (acc ++ l ++ rest) -> StronglySorted term_le (fold_left push l acc ++ rest).
Proof.
  induction l as [| x l IH]; intros acc rest Hs.
  - exact Hs.
  - cbn [fold_left]. apply IH. unfold push. cbn [app] in Hs.
    destruct (rev acc) as [| z zs] eqn:Hrev.
    + apply (f_equal (@rev (N * N))) in Hrev. rewrite rev_involutive in Hrev. cbn [rev] in Hrev. subst acc.
      exact Hs.
    + destruct (pair_eqb x z).
      * exact (ss_remove acc x (l ++ rest) Hs).
      * rewrite <- app_assoc. cbn [app]. exact Hs.
Qed.

Lemma nrecorded_sorted_gen : forall evs s acc,
  StronglySorted term_le (acc ++ nnotes Cur s evs) -> StronglySorted term_le (nrecorded Cur s evs acc).
Proof.
  induction evs as [| ev evs IH]; intros s acc Hs.
  - cbn [nrecorded nnotes] in *. rewrite app_nil_r in Hs. exact Hs.
  - cbn [nrecorded nnotes] in *. apply IH. unfold record. apply fold_push_sorted. exact Hs.
Qed.

Theorem nrecorded_sorted : forall evs s, nno_kill evs -> StronglySorted term_le (nrecorded Cur s evs []).
Proof.
  intros evs s Hnk. apply nrecorded_sorted_gen. cbn [app]. apply nnotes_sorted. exact Hnk.
Qed.

Lemma nrecorded_in : forall evs s acc y, In y (nrecorded Cur s evs acc) -> In y acc \/ In y (nnotes Cur s evs).
Proof.
  induction evs as [| ev evs IH]; intros s acc y H.
  - left. exact H.
  - cbn [nrecorded nnotes] in *. apply IH in H. destruct H as [H | H].
    + apply record_in in H. destruct H as [H | H]; [left; exact H |].
      right. apply in_or_app. left. apply in_somes. exact H.
    + right. apply in_or_app. right. exact H.
Qed.

(* ---------- (b), run form ---------- *)
Theorem nnotes_justified : forall evs s l t, In (l, t) (nnotes Cur s evs) ->
  (l = en_id (nn_e s) /\ In t (nled Cur s evs)) \/ In (l, t) (naccepted Cur s evs).
Proof.
  induction evs as [| ev evs IH]; intros s l t Hin.
  - destruct Hin.
  - cbn [nnotes] in Hin. cbn [nled naccepted]. apply in_app_or in Hin. destruct Hin as [Hin | Hin].
    + apply in_somes in Hin. apply nstep_justified in Hin. destruct Hin as [Ht [[Hl Hr] | [Hev [Hacc _]]]].
      * left. split; [rewrite Hl; apply nstep_id |].
        apply in_or_app. left. rewrite Hr. left. symmetry. exact Ht.
      * right. apply in_or_app. left. rewrite Hev, Hacc. left. reflexivity.
    + destruct (IH _ l t Hin) as [[Hl Hled] | Hacc].
      * left. split; [rewrite Hl; apply nstep_id | apply in_or_app; right; exact Hled].
      * right. apply in_or_app. right. exact Hacc.
Qed.

(* ---------- (c) cluster level: one run per node ---------- *)
Definition nruns := list (N * (N * N) * list nev).   (* node id, its last log id at start, its events *)

(* the leaders of the history contain every (node, term) in which a node turned Leader, and every accepted
   AppendEntries of term t was sent by a leader of t (only a leader sends AppendEntries, with its own term) *)
Definition history_hyps (c : code) (Ls : leaders) (runs : nruns) : Prop :=
  forall id last evs, In (id, last, evs) runs ->
    (forall t, In t (nled c (nnode0 id last) evs) -> In (id, t) Ls) /\
    (forall l t, In (l, t) (naccepted c (nnode0 id last) evs) -> In (l, t) Ls).

(* all notifications of all nodes name, per term, one node; and that node led the term *)
Definition notifications_consistent (c : code) (Ls : leaders) (runs : nruns) : Prop :=
  forall id1 last1 evs1 id2 last2 evs2 l1 l2 t,
    In (id1, last1, evs1) runs -> In (id2, last2, evs2) runs ->
    In (l1, t) (nnotes c (nnode0 id1 last1) evs1) -> In (l2, t) (nnotes c (nnode0 id2 last2) evs2) ->
    l1 = l2 /\ In (l1, t) Ls.

Lemma notified_is_leader : forall Ls runs, history_hyps Cur Ls runs ->
  forall id last evs l t, In (id, last, evs) runs -> In (l, t) (nnotes Cur (nnode0 id last) evs) -> In (l, t) Ls.
Proof.
  intros Ls runs Hh id last evs l t Hrun Hin.
  destruct (Hh id last evs Hrun) as [Hled Hacc].
  destruct (nnotes_justified evs _ l t Hin) as [[Hl Ht] | Ha].
  - cbn [nnode0 nn_e enode0 en_id] in Hl. subst l. apply Hled. exact Ht.
  - apply Hacc. exact Ha.
Qed.

Theorem notify_cluster : forall U G Ls runs,
  vote_once G -> backed U G Ls -> history_hyps Cur Ls runs -> notifications_consistent Cur Ls runs.
Proof.
  intros U G Ls runs Hvo Hbk Hh id1 last1 evs1 id2 last2 evs2 l1 l2 t Hr1 Hr2 H1 H2.
  pose proof (notified_is_leader Ls runs Hh id1 last1 evs1 l1 t Hr1 H1) as HL1.
  pose proof (notified_is_leader Ls runs Hh id2 last2 evs2 l2 t Hr2 H2) as HL2.
  split; [| exact HL1].
  exact (election_safety U G Ls Hvo Hbk l1 l2 t HL1 HL2).
Qed.

(* with the proved-sound checkers of C01 (what the driver evaluates on the recorded histories) *)
Corollary notify_cluster_checked : forall U G Ls runs, NoDup U ->
  vote_once_b G = true -> backed_b U G Ls = true -> history_hyps Cur Ls runs ->
  notifications_consistent Cur Ls runs.
Proof.
  intros U G Ls runs _ Hvo Hbk Hh.
  exact (notify_cluster U G Ls runs (vote_once_b_sound G Hvo) (backed_b_sound U G Ls Hbk) Hh).
Qed.

(* ---------- non-vacuity ---------- *)
(* node 1 wins term 2 with one granted vote, its noop commits, it hears of leader 3 of term 5 (twice), restarts
   gracefully, hears the same leader again, times out (candidate of term 6), hears leader 2 of term 6 *)
Definition ex_evs : list nev :=
  [NE (ETimeout 1 0 2 0); NAck 2; NE (EAppend 3 5); NE (EAppend 3 5); NE (ERestart true); NE (EAppend 3 5);
   NE (ETimeout 0 0 2 0); NE (EAppend 2 6)].

Example ex_notes : nnotes Cur (nnode0 1 (0, 0)) ex_evs = [(1, 2); (3, 5); (3, 5); (3, 5); (2, 6)].
Proof. vm_compute. reflexivity. Qed.

(* the recorded list de-duplicates; the restart keeps it *)
Example ex_recorded : nrecorded Cur (nnode0 1 (0, 0)) ex_evs [] = [(1, 2); (3, 5); (2, 6)].
Proof. vm_compute. reflexivity. Qed.

Example ex_no_kill : nno_kill ex_evs.
Proof. repeat constructor. Qed.

Example ex_led_accepted :
  nled Cur (nnode0 1 (0, 0)) ex_evs = [2; 2] /\
  naccepted Cur (nnode0 1 (0, 0)) ex_evs = [(3, 5); (3, 5); (3, 5); (2, 6)].
Proof. split; vm_compute; reflexivity. Qed.

(* a 3-node history: 1 leads term 2 (votes of 1 and 2), 3 leads term 5 (votes of 3 and 2), 2 leads term 6
   (votes of 2 and 3); node 1 runs ex_evs, node 2 hears leader 1 of term 2 and leader 3 of term 5 and then wins
   term 6, node 3 wins term 5 and hears leader 2 of term 6 *)
Definition n_U : list N := [1; 2; 3].
Definition n_G : grants := [(1,2,1); (2,2,1); (3,2,3); (3,3,3); (3,4,3); (3,5,3); (2,5,3); (2,6,2); (3,6,2); (1,6,1)].
Definition n_Ls : leaders := [(1,2); (3,5); (2,6)].
Definition ex_runs : nruns :=
  [(1, (0, 0), ex_evs);
   (2, (0, 0), [NE (EVoteReq 1 2 0 0); NE (EAppend 1 2); NE (EVoteReq 3 5 1 2); NE (EAppend 3 5);
                NE (ETimeout 1 0 2 0); NAck 6]);
   (3, (0, 0), [NE (ETimeout 0 0 2 1); NE (ETimeout 0 0 2 0); NE (ETimeout 0 0 2 0); NE (ETimeout 1 0 2 0); NAck 5;
                NE (EVoteReq 2 6 2 5); NE (EAppend 2 6)])].

Ltac pick := first [reflexivity | left; reflexivity | right; pick].

Example ex_history_hyps : history_hyps Cur n_Ls ex_runs.
Proof.
  intros id last evs Hin. unfold ex_runs in Hin.
  destruct Hin as [H | [H | [H | []]]]; inversion H; subst; clear H;
    (split; vm_compute;
     [ intros t Ht; repeat (destruct Ht as [<- | Ht]; [pick |]); destruct Ht
     | intros l t Ht; repeat (destruct Ht as [Ht | Ht]; [injection Ht as <- <-; pick |]); destruct Ht ]).
Qed.

Example ex_notified :
  nnotes Cur (nnode0 2 (0, 0)) (snd (nth 1 ex_runs (0, (0, 0), []))) = [(1, 2); (3, 5); (2, 6)] /\
  nnotes Cur (nnode0 3 (0, 0)) (snd (nth 2 ex_runs (0, (0, 0), []))) = [(3, 5); (2, 6)].
Proof. split; vm_compute; reflexivity. Qed.

Example ex_consistent : notifications_consistent Cur n_Ls ex_runs.
Proof.
  apply (notify_cluster_checked n_U n_G n_Ls ex_runs).
  - repeat constructor; cbn [In]; intros H; repeat destruct H as [H | H]; try discriminate H; exact H.
  - vm_compute. reflexivity.
  - vm_compute. reflexivity.
  - exact ex_history_hyps.
Qed.

(* ---------- the behaviour before fix 7cd2780 (version Old) ---------- *)
(* leader 1 of term 2 hears leader 3 of term 5: it announced "3 leads term 2" *)
Definition old_evs : list nev := [NE (ETimeout 1 0 2 0); NAck 2; NE (EAppend 3 5)].

Example old_notes :
  nnotes Old (nnode0 1 (0, 0)) old_evs = [(1, 2); (3, 2); (3, 5)] /\
  nnotes Cur (nnode0 1 (0, 0)) old_evs = [(1, 2); (3, 5); (3, 5)].
Proof. split; vm_compute; reflexivity. Qed.

(* node level: a notification that is neither the node's own leadership nor an accepted AppendEntries *)
Theorem old_behaviour_unjustified_refuted :
  exists s evs l t, nno_kill evs /\ In (l, t) (nnotes Old s evs) /\
    ~ ((l = en_id (nn_e s) /\ In t (nled Old s evs)) \/ In (l, t) (naccepted Old s evs)).
Proof.
  exists (nnode0 1 (0, 0)), old_evs, 3, 2.
  split; [repeat constructor |]. split; [vm_compute; right; left; reflexivity |].
  vm_compute. intros [[H _] | [H | []]]; discriminate H.
Qed.

(* cluster level: the hypotheses of notify_cluster hold, its conclusion fails: two nodes are named for term 2,
   and node 3 never led term 2 *)
Definition old_G : grants := [(1,2,1); (2,2,1); (3,5,3); (2,5,3)].
Definition old_Ls : leaders := [(1,2); (3,5)].
Definition old_runs : nruns := [(1, (0, 0), old_evs)].

Theorem old_behaviour_cluster_refuted :
  exists U G Ls runs, NoDup U /\ vote_once G /\ backed U G Ls /\ history_hyps Old Ls runs /\
    ~ notifications_consistent Old Ls runs.
Proof.
  exists n_U, old_G, old_Ls, old_runs.
  split; [repeat constructor; cbn [In]; intros H; repeat destruct H as [H | H]; try discriminate H; exact H |].
  split; [apply vote_once_b_sound; vm_compute; reflexivity |].
  split; [apply backed_b_sound; vm_compute; reflexivity |].
  split.
  - intros id last evs [H | []]. injection H as <- <- <-. split; vm_compute.
    + intros t [<- | [<- | []]]; left; reflexivity.
    + intros l t [H | []]. injection H as <- <-. right. left. reflexivity.
  - intros Hc.
    destruct (Hc 1 (0, 0) old_evs 1 (0, 0) old_evs 1 3 2) as [Heq _].
    + left. reflexivity.
    + left. reflexivity.
    + vm_compute. left. reflexivity.
    + vm_compute. right. left. reflexivity.
    + discriminate Heq.
Qed.

(* ---------- the behaviour before the NoopCommitted guard (single-voter race) ---------- *)
(* node 1, only voter, wins term 2; the flush of its noop is queued in front of an AppendEntries of term 5 from
   node 2 (a deposing vote request in the second run) *)
Definition race_evs : list nev := [NE (ETimeout 0 0 0 0); NFlush (EAppend 2 5)].
Definition race_evs_vote : list nev := [NE (ETimeout 0 0 0 0); NFlush (EVoteReq 2 5 3 3)].

Example race_notes :
  nnotes Cur (nnode0 1 (0, 0)) race_evs = [(2, 5); (2, 5)] /\
  nrecorded Cur (nnode0 1 (0, 0)) race_evs [] = [(2, 5)] /\
  nnotes NoGuard (nnode0 1 (0, 0)) race_evs = [(2, 5); (1, 2); (2, 5)] /\
  nrecorded NoGuard (nnode0 1 (0, 0)) race_evs [] = [(2, 5); (1, 2); (2, 5)] /\
  nnotes Cur (nnode0 1 (0, 0)) race_evs_vote = [] /\
  nnotes NoGuard (nnode0 1 (0, 0)) race_evs_vote = [(1, 2)].
Proof. repeat split; vm_compute; reflexivity. Qed.

(* the race really takes the racing branch of the model (the leader is deposed with its noop pending) *)
Example race_branch_taken :
  let s := nfinal Cur (nnode0 1 (0, 0)) [NE (ETimeout 0 0 0 0)] in
  deposes (nn_e s) (EAppend 2 5) && nn_noop s = true /\ en_role (nn_e (fst (nstep Cur s (NFlush (EAppend 2 5))))) = Follower.
Proof. split; vm_compute; reflexivity. Qed.

Example race_no_kill : nno_kill race_evs.
Proof. repeat constructor. Qed.

(* (a) failed: (1, 2) was announced after (2, 5) *)
Theorem noguard_terms_decrease_refuted :
  exists s evs, nno_kill evs /\ ~ StronglySorted term_le (nnotes NoGuard s evs).
Proof.
  exists (nnode0 1 (0, 0)), race_evs. split; [exact race_no_kill |].
  assert (E : nnotes NoGuard (nnode0 1 (0, 0)) race_evs = [(2, 5); (1, 2); (2, 5)]) by (vm_compute; reflexivity).
  rewrite E. intros H. apply StronglySorted_inv in H. destruct H as [_ H].
  rewrite Forall_forall in H. specialize (H (1, 2) (or_introl eq_refl)). unfold term_le in H. cbn [snd] in H. lia.
Qed.

Theorem noguard_recorded_terms_decrease_refuted :
  exists s evs, nno_kill evs /\ ~ StronglySorted term_le (nrecorded NoGuard s evs []).
Proof.
  exists (nnode0 1 (0, 0)), race_evs. split; [exact race_no_kill |].
  assert (E : nrecorded NoGuard (nnode0 1 (0, 0)) race_evs [] = [(2, 5); (1, 2); (2, 5)]) by (vm_compute; reflexivity).
  rewrite E. intros H. apply StronglySorted_inv in H. destruct H as [_ H].
  rewrite Forall_forall in H. specialize (H (1, 2) (or_introl eq_refl)). unfold term_le in H. cbn [snd] in H. lia.
Qed.

(* (b) failed: (self, 2) was announced by a follower of term 5 *)
Theorem noguard_step_unjustified_refuted :
  exists s ev l t, In (Some (l, t)) (snd (nstep NoGuard s ev)) /\ ~ justified s (fst (nstep NoGuard s ev)) ev l t.
Proof.
  exists (nfinal NoGuard (nnode0 1 (0, 0)) [NE (ETimeout 0 0 0 0)]), (NFlush (EAppend 2 5)), 1, 2.
  split; [vm_compute; right; left; reflexivity |].
  unfold justified. intros [Ht _]. vm_compute in Ht. discriminate Ht.
Qed.

(* ---------- kill-restart: the hard state is lost (C02), so the notified terms can decrease ---------- *)
Example kill_notified_term_decreases :
  exists evs, nnotes Cur (nnode0 1 (0, 0)) evs = [(3, 5); (2, 3)].
Proof. exists [NE (EAppend 3 5); NE (ERestart false); NE (EAppend 2 3)]. vm_compute. reflexivity. Qed.

Print Assumptions nstep_justified.
Print Assumptions nnotes_sorted.
Print Assumptions nrecorded_sorted.
Print Assumptions nnotes_justified.
Print Assumptions notify_cluster.
Print Assumptions old_behaviour_cluster_refuted.
Print Assumptions noguard_terms_decrease_refuted.
Print Assumptions noguard_step_unjustified_refuted.
