(* Pinned statements of property C31. Nothing else lives here. *)
From Coq Require Import NArith List Sorting.Sorted.
From DE Require Import Val Election Notify proofs.C02 proofs.C01 proofs.C31.
Import ListNotations.
Open Scope N_scope.

(* All statements are about code version [Cur] (the code as it is) and all events of DE.Notify, including
   [NFlush e] = the single-voter race (noop flush queued in front of a deposing request). *)

(* (a) along every run of one node without kill-restart (graceful restarts allowed), from any state, the terms
   of the emitted Some-notifications never decrease *)
Theorem C31_notified_terms_never_decrease : forall evs s, nno_kill evs ->
  StronglySorted (fun a b => snd a <= snd b) (nnotes Cur s evs).
Proof. exact nnotes_sorted. Qed.
Print Assumptions C31_notified_terms_never_decrease.

Theorem C31_earlier_notification_has_no_larger_term : forall evs s, nno_kill evs ->
  forall pre a mid b post, nnotes Cur s evs = pre ++ a :: mid ++ b :: post -> snd a <= snd b.
Proof. exact nnotes_terms_never_decrease. Qed.
Print Assumptions C31_earlier_notification_has_no_larger_term.

(* the list an observer of the watch channel records along such a run (distinct consecutive Some values; a restart
   keeps it) is ordered the same way, and everything in it was emitted *)
Theorem C31_recorded_terms_never_decrease : forall evs s, nno_kill evs ->
  StronglySorted (fun a b => snd a <= snd b) (nrecorded Cur s evs []).
Proof. exact nrecorded_sorted. Qed.
Print Assumptions C31_recorded_terms_never_decrease.

Theorem C31_recorded_was_emitted_run : forall evs s acc y,
  In y (nrecorded Cur s evs acc) -> In y acc \/ In y (nnotes Cur s evs).
Proof. exact nrecorded_in. Qed.
Print Assumptions C31_recorded_was_emitted_run.

(* (b) every Some-notification (l, t), for every state and event: t is the node's term at emission, and either
   the node announces itself while Leader of t, or it has just accepted an AppendEntries of term t from l and
   its vote record is (l, t, committed) *)
Theorem C31_notification_justified : forall s ev l t,
  In (Some (l, t)) (snd (nstep Cur s ev)) ->
  let s' := fst (nstep Cur s ev) in
  t = en_term (nn_e s') /\
  ((l = en_id (nn_e s') /\ en_role (nn_e s') = Leader) \/
   (inbound_of ev = Some (EAppend l t) /\ ae_accepted (nn_e s) t = true /\
    en_vote (nn_e s') = Some {| v_id := l; v_term := t; v_committed := true |})).
Proof. exact nstep_justified. Qed.
Print Assumptions C31_notification_justified.

(* (b) over runs: a notified (l, t) is the node itself in a term it led, or the sender of an accepted
   AppendEntries of term t *)
Theorem C31_notifications_of_a_run_justified : forall evs s l t, In (l, t) (nnotes Cur s evs) ->
  (l = en_id (nn_e s) /\ In t (nled Cur s evs)) \/ In (l, t) (naccepted Cur s evs).
Proof. exact nnotes_justified. Qed.
Print Assumptions C31_notifications_of_a_run_justified.

(* what the observer of the watch channel records is drawn from the emitted notifications *)
Theorem C31_recorded_was_emitted : forall ns acc y, In y (record acc ns) -> In y acc \/ In (Some y) ns.
Proof. exact record_in. Qed.
Print Assumptions C31_recorded_was_emitted.

(* (c) cluster histories, one run per node: if the leaders Ls of the history contain every (node, term) in
   which a node turned Leader, every accepted AppendEntries of term t was sent by a leader of t, votes are cast
   once per term and every leader is backed by a majority of grants (C01), then all notifications of all nodes
   name, per term, one node - and that node led the term *)
Theorem C31_notifications_name_the_leader : forall U G Ls runs,
  vote_once G -> backed U G Ls ->
  (forall id last evs, In (id, last, evs) runs ->
     (forall t, In t (nled Cur (nnode0 id last) evs) -> In (id, t) Ls) /\
     (forall l t, In (l, t) (naccepted Cur (nnode0 id last) evs) -> In (l, t) Ls)) ->
  forall id1 last1 evs1 id2 last2 evs2 l1 l2 t,
    In (id1, last1, evs1) runs -> In (id2, last2, evs2) runs ->
    In (l1, t) (nnotes Cur (nnode0 id1 last1) evs1) -> In (l2, t) (nnotes Cur (nnode0 id2 last2) evs2) ->
    l1 = l2 /\ In (l1, t) Ls.
Proof. exact notify_cluster. Qed.
Print Assumptions C31_notifications_name_the_leader.

(* without the guard of the NoopCommitted notification (version NoGuard: the code before that fix) (a) and (b)
   fail in the single-voter race: (1, 2) is announced after (2, 5), by a follower of term 5 *)
Theorem C31_noguard_terms_decrease_refuted :
  exists s evs, nno_kill evs /\ ~ StronglySorted (fun a b => snd a <= snd b) (nnotes NoGuard s evs).
Proof. exact noguard_terms_decrease_refuted. Qed.
Print Assumptions C31_noguard_terms_decrease_refuted.

Theorem C31_noguard_recorded_terms_decrease_refuted :
  exists s evs, nno_kill evs /\ ~ StronglySorted (fun a b => snd a <= snd b) (nrecorded NoGuard s evs []).
Proof. exact noguard_recorded_terms_decrease_refuted. Qed.
Print Assumptions C31_noguard_recorded_terms_decrease_refuted.

Theorem C31_noguard_step_unjustified_refuted :
  exists s ev l t, In (Some (l, t)) (snd (nstep NoGuard s ev)) /\
    let s' := fst (nstep NoGuard s ev) in
    ~ (t = en_term (nn_e s') /\
       ((l = en_id (nn_e s') /\ en_role (nn_e s') = Leader) \/
        (inbound_of ev = Some (EAppend l t) /\ ae_accepted (nn_e s) t = true /\
         en_vote (nn_e s') = Some {| v_id := l; v_term := t; v_committed := true |}))).
Proof. exact noguard_step_unjustified_refuted. Qed.
Print Assumptions C31_noguard_step_unjustified_refuted.

(* without the term adoption before BecomeFollower(Some leader) (version Old: before fix 7cd2780) (b) and (c) fail *)
Theorem C31_old_behaviour_unjustified_refuted :
  exists s evs l t, nno_kill evs /\ In (l, t) (nnotes Old s evs) /\
    ~ ((l = en_id (nn_e s) /\ In t (nled Old s evs)) \/ In (l, t) (naccepted Old s evs)).
Proof. exact old_behaviour_unjustified_refuted. Qed.
Print Assumptions C31_old_behaviour_unjustified_refuted.

Theorem C31_old_behaviour_cluster_refuted :
  exists U G Ls runs, NoDup U /\ vote_once G /\ backed U G Ls /\ history_hyps Old Ls runs /\
    ~ notifications_consistent Old Ls runs.
Proof. exact old_behaviour_cluster_refuted. Qed.
Print Assumptions C31_old_behaviour_cluster_refuted.
