(* C30 — no accepted request is silently dropped.  Proved on DE.LeaderQ (core layer): what the role object does with
   every request it still holds when it leaves leadership, what the tick sweeps, and which queue has neither a
   deadline nor a drain (pending_write_apply).  The API layer (every wait on a response receiver is under
   tokio::time::timeout) is checked on the sources by props/C30.py. *)
From Coq Require Import NArith List Bool Lia Arith.
From DE Require Import Val LeaderQ proofs.LeaderQLemmas proofs.C29.
Import ListNotations.
Open Scope N_scope.

Ltac crunch := unfold ids_resp, ids_out, preads_ids, pca_ids in *;
  cbn [q_resp q_pbuf q_linbuf q_leaseq q_evq q_pcw q_pwa q_preads q_please q_pca set_vol answer set_pend set_bufs upd] in *;
  rewrite ?map_app, ?all_kind_ids in *; rewrite ?in_app_iff in *; cbn [flat_map map In app] in *.

(* BecomeFollower (drain_read_buffer, then the LeaderState is dropped): every request the leader still holds is
   resolved at that moment, and nothing is left behind *)
Theorem step_down_resolves_all :
  forall (s : lq) (id : N), q_leader s = true -> In id (ids_out s) ->
    In id (ids_resp (step s OStepDown)) /\ ids_out (step s OStepDown) = [].
Proof.
  intros s id L H. cbn [step]. unfold step_down. rewrite L. cbn [negb]. cbv zeta. unfold drop_all. cbv zeta.
  split; [|reflexivity]. crunch. tauto.
Qed.

(* FatalError arm, then the Raft loop ends and the role object is dropped *)
Theorem fatal_resolves_all :
  forall (s : lq) (id : N), q_leader s = true -> In id (ids_out s) ->
    In id (ids_resp (step s OFatal)) /\ ids_out (step s OFatal) = [].
Proof.
  intros s id L H. cbn [step]. unfold fatal. rewrite L. cbn [negb]. cbv zeta. unfold drop_all. cbv zeta.
  split; [|reflexivity]. crunch. tauto.
Qed.

(* ... but not all of them by a message: the writes waiting for their apply result and the join requests waiting
   for their commit are only resolved by the drop of their sender (the receiver sees "channel closed") *)
Theorem step_down_drops_apply_waiters_and_joins :
  forall (s : lq) (id : N), q_leader s = true -> In id (map snd (q_pwa s) ++ pca_ids (q_pca s)) ->
    In (id, K_DROPPED, 0) (q_resp (step s OStepDown)).
Proof.
  intros s id L H. cbn [step]. unfold step_down. rewrite L. cbn [negb]. cbv zeta. unfold drop_all. cbv zeta.
  unfold pca_ids in H.
  cbn [q_resp q_pbuf q_linbuf q_leaseq q_evq q_pcw q_pwa q_preads q_please q_pca set_vol answer set_pend set_bufs upd].
  apply in_or_app. right. unfold all_kind. apply in_map_iff. exists id. split; [reflexivity|].
  cbn [flat_map map app]. exact H.
Qed.
Theorem fatal_drops_unflushed_uncommitted_lease_and_joins :
  forall (s : lq) (id : N), q_leader s = true ->
    In id (q_pbuf s ++ flat_map b_ids (q_pcw s) ++ map fst (q_please s) ++ pca_ids (q_pca s)) ->
    In (id, K_DROPPED, 0) (q_resp (step s OFatal)).
Proof.
  intros s id L H. cbn [step]. unfold fatal. rewrite L. cbn [negb]. cbv zeta. unfold drop_all. cbv zeta.
  unfold pca_ids in H.
  cbn [q_resp q_pbuf q_linbuf q_leaseq q_evq q_pcw q_pwa q_preads q_please q_pca set_vol answer set_pend set_bufs upd].
  apply in_or_app. right. unfold all_kind. apply in_map_iff. exists id. split; [reflexivity|].
  cbn [flat_map map app]. rewrite !in_app_iff in *. tauto.
Qed.

(* the deadline sweep of tick: every expired entry of the four swept queues is answered deadline_exceeded *)
Theorem sweep_answers_expired :
  forall (s : lq) (id : N),
    (exists b, In b (q_pcw s) /\ b_dl b <= q_now s /\ In id (b_ids b)) \/
    (exists e, In e (q_preads s) /\ fst (snd e) <= q_now s /\ In id (snd (snd e))) \/
    (exists e, In e (q_please s) /\ snd e <= q_now s /\ fst e = id) \/
    (exists e, In e (q_pca s) /\ fst (snd e) <= q_now s /\ snd (snd e) = id) ->
    In (id, K_DEADLINE, 0) (q_resp (sweep s)).
Proof.
  intros s id H. unfold sweep. cbn [q_resp answer set_pend upd]. apply in_or_app. right.
  unfold all_kind. rewrite <- !map_app. apply in_map_iff. exists id. split; [reflexivity|].
  rewrite !in_app_iff. destruct H as [[b [Hb [Hd Hi]]]|[[e [He [Hd Hi]]]|[[e [He [Hd Hi]]]|[e [He [Hd Hi]]]]]].
  - left. apply in_flat_map. exists b. split; [apply filter_In; split; [exact Hb | apply N.leb_le; exact Hd] | exact Hi].
  - right. left. apply in_flat_map. exists e. split; [apply filter_In; split; [exact He | apply N.leb_le; exact Hd] | exact Hi].
  - right. right. left. apply in_map_iff. exists e. split; [exact Hi | apply filter_In; split; [exact He | apply N.leb_le; exact Hd]].
  - right. right. right. apply in_map_iff. exists e. split; [exact Hi | apply filter_In; split; [exact He | apply N.leb_le; exact Hd]].
Qed.
(* and a leader's tick always ends with that sweep, at the advanced clock *)
Theorem tick_ends_with_sweep :
  forall (s : lq) (dt : N), q_leader s = true -> exists s', tick s dt = sweep s' /\ q_now s' = q_now s + dt.
Proof.
  intros s dt L. unfold tick. cbn [q_leader set_vol upd]. rewrite L. cbn [negb].
  eexists. split; [reflexivity|]. cbn [q_hb q_now set_vol upd].
  destruct (q_hb s <=? q_now s + dt); [|reflexivity].
  unfold exec_rpc. destruct (q_pbuf _); reflexivity.
Qed.

(* the queue with neither a deadline nor a step-down drain: pending_write_apply.  No number of ticks answers
   a write that is committed but whose apply result never arrives; only ApplyCompleted, FatalError or the drop of
   the role object resolves it.  (At the API layer the wait is under a timeout.) *)
Lemma pwa_exec_rpc s w r : q_pwa (exec_rpc s w r) = q_pwa s.
Proof.
  unfold exec_rpc. destruct w, r; cbn; try reflexivity;
    destruct (negb _); cbn; try reflexivity; destruct (_ && _); reflexivity.
Qed.
Lemma pwa_tick s dt : q_pwa (tick s dt) = q_pwa s.
Proof.
  unfold tick. cbn [q_leader set_vol upd]. destruct (negb (q_leader s)); [reflexivity|].
  unfold sweep. cbn [q_pwa answer set_pend upd]. cbn [q_hb q_now set_vol upd].
  destruct (_ <=? _); [rewrite pwa_exec_rpc|]; reflexivity.
Qed.
Theorem apply_waiters_have_no_deadline :
  forall (dts : list N) (s : lq), q_pwa (run s (map OTick dts)) = q_pwa s.
Proof.
  induction dts as [|dt dts IH]; intros s; cbn [map run fold_left]; [reflexivity|].
  change (fold_left step (map OTick dts) (step s (OTick dt))) with (run (step s (OTick dt)) (map OTick dts)).
  rewrite IH. apply pwa_tick.
Qed.

(* non-vacuity *)
Example never_reaches_quorum_example :
  map (fun r => (rid r, rkind r)) (q_resp (run (init cfg_ex true) [OWrite 0; ORead 1; ORead 2; OFlush; OJoin; OTick 60; OTick 60; OTick 100])) =
    [(0, K_DEADLINE); (1, K_DEADLINE); (2, K_DEADLINE); (3, K_DEADLINE)].
Proof. vm_compute. reflexivity. Qed.
Example committed_unapplied_write_is_never_answered_by_ticks :
  let s := run (init cfg_ex true) [OWrite 2; OFlush; OAck 1; OTick 500; OTick 500; OTick 5000] in
  q_resp s = [] /\ q_pwa s = [(1, 0)].
Proof. vm_compute. split; reflexivity. Qed.
Example step_down_example :
  map (fun r => (rid r, rkind r)) (q_resp (run (init cfg_ex true) [OWrite 2; OFlush; OAck 1; OWrite 0; OFlush; OWrite 1; ORead 1; OJoin; OStepDown])) =
    [(3, K_UNAVAIL); (2, K_NOTLEADER); (1, K_PROPFAIL); (0, K_DROPPED); (4, K_DROPPED)].
Proof. vm_compute. reflexivity. Qed.
