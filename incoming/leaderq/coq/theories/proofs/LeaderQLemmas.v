(* Shared lemmas about DE.LeaderQ used by the proofs of C14, C29 and C30. *)
From Coq Require Import NArith List Bool Lia Arith.
From DE Require Import Val LeaderQ.
Import ListNotations.
Open Scope N_scope.

Definition rid (r : rsp) : N := fst (fst r).
Definition rkind (r : rsp) : N := snd (fst r).
Definition raux (r : rsp) : N := snd r.

Definition logids (s : lq) : list N := flat_map (fun e => match snd e with Some i => [i] | None => [] end) (q_log s).

Definition preads_ids (l : list (N * (N * list N))) : list N := flat_map (fun e => snd (snd e)) l.
Definition pca_ids (l : list (N * (N * N))) : list N := map (fun e => snd (snd e)) l.

(* every request id currently held by the role object *)
Definition ids_out (s : lq) : list N :=
  q_pbuf s ++ q_linbuf s ++ q_leaseq s ++ q_evq s ++ flat_map b_ids (q_pcw s) ++ map snd (q_pwa s)
  ++ preads_ids (q_preads s) ++ map fst (q_please s) ++ pca_ids (q_pca s).
Definition ids_resp (s : lq) : list N := map rid (q_resp s).

Lemma entry_at_app s i l e :
  entry_at s i = Some e -> nth_error (q_log s ++ l) (N.to_nat (i - 1)) = Some e.
Proof.
  unfold entry_at. destruct (i =? 0); [discriminate|]. intros H.
  rewrite nth_error_app1; [exact H|]. apply nth_error_Some. congruence.
Qed.

Lemma all_kind_kind k ids r : In r (all_kind k ids) -> rkind r = k.
Proof. unfold all_kind. rewrite in_map_iff. intros [x [<- _]]. reflexivity. Qed.
Lemma all_kind_ids k ids : map rid (all_kind k ids) = ids.
Proof. unfold all_kind. rewrite map_map. cbn. apply map_id. Qed.

Lemma in_pwa_remove k x l : In x (pwa_remove k l) -> In x l.
Proof.
  induction l as [|[k' v] l IH]; cbn [pwa_remove]; [tauto|].
  destruct (k' =? k); cbn [In]; tauto.
Qed.
Lemma in_pwa_insert k v x l : In x (pwa_insert k v l) -> x = (k, v) \/ In x l.
Proof.
  unfold pwa_insert. rewrite in_app_iff. cbn [In]. intros [H|[H|[]]]; [right; eapply in_pwa_remove; eauto | left; congruence].
Qed.
Lemma pwa_get_in k l v : pwa_get k l = Some v -> In (k, v) l.
Proof.
  induction l as [|[k' v'] l IH]; cbn [pwa_get]; [discriminate|].
  destruct (N.eqb_spec k' k) as [->|Hne]; [intros [= ->]; left; reflexivity | intros H; right; auto].
Qed.
