"""C14 — rejected writes are never applied."""
from dvlib import core, flow
from props import leaderq_common as L

ID = 'C14'
PROPS_FILE = 'theories/props/Properties_C14.v'
CONE = L.CONE_BASE + ['theories/proofs/C14.v']

def oracle(h, dist):
    def tag(t): dist[t] = dist.get(t, 0) + 1
    logged = set(x for x in h.log if x is not None)
    for rid in range(h.nreq):
        for pos, k, a in h.resps.get(rid, []):
            if k in L.REJECT_KINDS and h.kind_of[rid] in ('write', 'write-empty'):
                tag({L.K_NOTLEADER: 'rejected-not-leader', L.K_INVALID: 'rejected-empty', L.K_EXHAUSTED: 'rejected-backpressure'}[k])
                if h.left_at is not None and h.issued_at[rid] < h.left_at <= pos: tag('rejected-buffered-at-step-down')
                if rid in logged:
                    return 'write %d was rejected (kind %d) but has an entry in the log at index %s' % (rid, k, h.index_of(rid))
    return None

def classify(why): return 'rejected-write-in-log'

def check(run):
    run.assumptions += ["a write that never enters the leader's log cannot be replicated or applied by any node (entries reach followers and state machines only from the leader's log: C05/C06/C08)",
                        "writes already in the log whose sender is failed with ProposeFailed / TermOutdated / deadline_exceeded are indeterminate, not 'rejected' in the sense of this property (distinguished by response code)"]
    return L.standard_check(run, ID, PROPS_FILE, CONE, oracle, classify, L.RULE)

def replay(path):
    return L.standard_replay(path, oracle)

META = {
    'title': 'Rejected writes are never applied',
    'level': 'proof',
    'technique': "Rocq invariant over all op sequences of the leader/follower client-bookkeeping model (ids enter the log only from the propose buffer; a rejected id is never in the propose buffer or the log) + differential check against the real LeaderState/FollowerState",
    'text': "Rocq: C14_rejected_never_logged — for every configuration and every history of client writes (put/delete/CAS/empty), reads, scans, joins, flushes, acks, LogFlushed, ApplyCompleted, ticks, higher-term responses, step-downs, fatal errors and client ops on the node after it left leadership, a request answered NotLeader, invalid-argument or resource-exhausted never has an entry in the log, at the time of the answer or later; C14_buffered_writes_rejected_on_step_down — every write still in the propose buffer when the leader steps down is answered NotLeader (and by the first theorem is not in the log). The model is replayed against the real code on every check and the property is evaluated on the implementation's own log.",
    'note': "Trusted: Coq kernel, hand model LeaderQ (validated by the leaderq probe), and the step 'not in the leader's log => applied nowhere' which belongs to C05/C06/C08. One-node model: the other nodes only ever see the leader's log.",
    'design_ref': 'DESIGN.md §4 C14',
}
