"""Shared by C14 / C29 / C30: case generator for the `leaderq` probe, decoding of its outputs into per-request
histories, and the correspondence step (model DE.LeaderQ.leaderq_probe vs the real LeaderState / FollowerState).

case  = [[maxw, maxr, T, H, J, default_policy, allow_override, single_voter], noop_committed, [op...]]
op    = [0,wkind] write (0 put,1 delete,2 cas,3 request without command) | [1,req] read (0 none,1 lin,2 lease,3 eventual)
      | [2] scan | [3] join | [4] flush_cmd_buffers | [5,m] success ack of the voting peer, match m | [6] LogFlushed
      | [7,[flag..]] ApplyCompleted for the next committed indexes | [8,dt] advance the clock by dt ms and tick
      | [9] AppendResult with a higher term | [10] BecomeFollower (drain_read_buffer + drop) | [11] FatalError (+ drop)
out   = per op [[[id,kind,aux]..], commit, last, [[id]|[] per new log entry]]
kinds = 1 write ok(aux = succeeded) 2 read served(aux = policy) 3 not leader 4 invalid 5 exhausted 6 deadline 7 unavailable
        8 ProposeFailed 9 TermOutdated 10 internal(fatal) 11 sender dropped without a message 12 scan ok 13 join ok
"""
import json
from dvlib import core

IMPORTS = 'From DE Require Import LeaderQ.'
K_WOK, K_ROK, K_NOTLEADER, K_INVALID, K_EXHAUSTED, K_DEADLINE, K_UNAVAIL, K_PROPFAIL, K_TERMOUT, K_INTERNAL, K_DROPPED, K_SCANOK, K_JOINOK = range(1, 14)
REJECT_KINDS = (K_NOTLEADER, K_INVALID, K_EXHAUSTED)
CLIENT_OPS = (0, 1, 2, 3)

def gen_case(r, dist):
    def tag(t): dist[t] = dist.get(t, 0) + 1
    single = r.choice([0, 0, 1])
    cfg = [r.choice([0, 0, 2, 3]), r.choice([0, 0, 1, 2]), r.choice([100, 100, 40]), r.choice([50, 50, 1000]), r.choice([200, 60]),
           r.choice([1, 2, 3]), r.choice([0, 1]), single]
    noop = r.choice([1, 1, 1, 0])
    ops = []; nw = 0; left = False
    n = r.range(6, 26)
    for _ in range(n):
        x = r.below(100)
        if x < 26:
            k = r.choice([0, 0, 1, 2, 2, 2, 3]); ops.append([0, k]); nw += 1; tag('write' if k < 3 else 'write-empty')
        elif x < 38:
            ops.append([1, r.choice([0, 1, 2, 3])]); tag('read')
        elif x < 41:
            ops.append([2]); tag('scan')
        elif x < 44:
            ops.append([3]); nw += 1; tag('join')
        elif x < 60:
            ops.append([4]); tag('flush')
        elif x < 70:
            ops.append([5, r.range(0, nw + 1)]); tag('ack')
        elif x < 76:
            ops.append([6]); tag('log-flushed')
        elif x < 86:
            ops.append([7, [r.choice([1, 1, 0]) for _ in range(r.range(1, 4))]]); tag('apply')
        elif x < 94:
            ops.append([8, r.choice([10, 30, 50, 60, 100, 120, 250])]); tag('tick')
        elif x < 96:
            ops.append([9]); tag('higher-term')
        elif x < 98:
            ops.append([10]); tag('step-down' if not left else 'noop-after-left'); left = True
        else:
            ops.append([11]); tag('fatal' if not left else 'noop-after-left'); left = True
    tag('single-voter' if single else 'two-voters')
    return [cfg, noop, ops]

def boundary_cases():
    cs = []
    base = [0, 0, 100, 50, 200, 1, 1, 0]
    # batch of put/cas/delete committed by an ack, applied with mixed flags
    cs.append([base, 1, [[0, 0], [0, 2], [0, 1], [4], [5, 3], [7, [1, 0, 1]], [8, 300]]])
    # buffered writes at a leader that steps down before flushing them
    cs.append([base, 1, [[0, 0], [0, 2], [10], [0, 0], [1, 3], [2], [3]]])
    # committed but not applied when the leader steps down / fatal error / deadline passes
    cs.append([base, 1, [[0, 2], [4], [5, 1], [10]]])
    cs.append([base, 1, [[0, 2], [4], [5, 1], [11]]])
    cs.append([base, 1, [[0, 2], [4], [5, 1], [8, 500], [8, 500], [7, [0]]]])
    # never reaches quorum: every queue must be swept by its deadline
    cs.append([[0, 0, 100, 50, 200, 2, 0, 0], 1, [[0, 0], [1, 0], [1, 0], [4], [3], [8, 60], [8, 60], [8, 100]]])
    cs.append([[0, 0, 100, 50, 200, 1, 0, 0], 1, [[0, 0], [1, 0], [4], [8, 60], [8, 60]]])
    # back-pressure
    cs.append([[2, 1, 100, 50, 200, 1, 1, 1], 1, [[0, 0], [0, 0], [0, 0], [1, 1], [1, 1], [1, 2], [1, 2], [1, 3], [1, 3], [4], [6], [7, [1, 1]]]])
    # heartbeat tick flushes the propose buffer; higher term fails the batch
    cs.append([base, 1, [[0, 0], [8, 50], [9], [0, 0], [4], [10]]])
    # single voter
    cs.append([[0, 0, 100, 50, 200, 2, 1, 1], 0, [[0, 2], [1, 1], [1, 2], [4], [6], [7, [0]], [3], [6]]])
    return cs

def gen_cases(run, thorough, salt='leaderq'):
    r = run.rng(salt); dist = {}
    cases = boundary_cases()
    n = 6000 if thorough else 600
    for _ in range(n):
        cases.append(gen_case(r, dist))
    return cases, dist

class History:
    """Per-request view of one probe run."""
    def __init__(self, case, out):
        self.case = case; self.out = out
        self.kind_of = {}      # id -> 'write' | 'write-empty' | 'read' | 'scan' | 'join'
        self.issued_at = {}    # id -> op position
        self.resps = {}        # id -> [(pos, kind, aux)]
        self.log = []          # log[i-1] = id or None, for index i
        self.log_pos = {}      # index -> op position at which it was appended
        self.commit_at = []    # commit index after each op
        self.applied_flag = {} # index -> flag delivered by ApplyCompleted (only while a LeaderState is alive)
        self.applied_pos = {}
        self.time_at = []      # clock after each op
        self.left_at = None    # position of the step-down / fatal op
        nid = 0; applied = 0; commit = 0; now = 0
        for pos, (op, o) in enumerate(zip(case[2], out)):
            if op[0] in CLIENT_OPS:
                self.kind_of[nid] = {0: 'write' if op[0] == 0 and op[1] < 3 else 'write-empty', 1: 'read', 2: 'scan', 3: 'join'}[op[0]]
                self.issued_at[nid] = pos; nid += 1
            if op[0] == 8: now += op[1]
            if op[0] in (10, 11) and self.left_at is None: self.left_at = pos
            if op[0] == 7:
                n = min(len(op[1]), max(0, commit - applied))
                for i in range(n):
                    self.applied_flag[applied + 1 + i] = 1 if op[1][i] else 0; self.applied_pos[applied + 1 + i] = pos
                applied += n
            rs, c, last, newe = o
            for e in newe:
                self.log.append(e[0] if e else None); self.log_pos[len(self.log)] = pos
            for i, k, a in rs:
                self.resps.setdefault(i, []).append((pos, k, a))
            commit = c
            self.commit_at.append(c); self.time_at.append(now)
        self.nreq = nid
    def index_of(self, rid):
        return [i + 1 for i, x in enumerate(self.log) if x == rid]

def run_probe(cases):
    return core.probe_parallel('leaderq', cases)

def correspondence(pairs, tag):
    """Returns a list of broken items."""
    mism = core.coq_index_list(IMPORTS, '', 'leaderq_probe', pairs, tag=tag, shard=120)
    if mism:
        i = mism[0]
        return [('correspondence', 'DE.LeaderQ.step vs LeaderState/FollowerState (probe leaderq)',
                 '%d disagreements; first on %s -> impl %s' % (len(mism), json.dumps(pairs[i][0]), json.dumps(pairs[i][1])))], len(mism)
    return [], 0

TRUSTED = [
    "hand-written model DE.LeaderQ of the leader's client bookkeeping in raft_role/leader_state.rs (push_client_cmd, flush_cmd_buffers, execute_and_process_raft_rpc phases 2-3, drain_pending_client_writes, drain_commit_actions, handle_apply_completed, handle_log_flushed, handle_append_result, tick sweeps, drain_read_buffer, FatalError arm, handle_join_cluster) and of the default RaftRoleState::push_client_cmd, tied to the code by the leaderq probe",
    "harness: real LeaderState / FollowerState over a real BufferedRaftLog on a paused tokio clock; MockMembership (leader alone or leader + one voter), MockStateMachine.last_applied follows the probe's ApplyCompleted ops, MockTransport swallows AppendEntries; ApplyCompleted results are generated by the probe for the next committed indexes (the commit handler is C06/C15's subject)",
]

CONE_BASE = ['theories/LeaderQ.v', 'theories/proofs/LeaderQLemmas.v', 'theories/proofs/C29.v']

def standard_check(run, pid, props_file, cone, oracle, classify, rule, extra=None):
    """Common flow of C14/C29/C30: proof step, harness build, probe, property oracle on the implementation's outputs,
    correspondence of the model on every case."""
    from dvlib import flow
    from dvlib.core import Broken
    thorough = run.tier == 'thorough'
    run.cov['trusted_base'] += TRUSTED
    broken = flow.proof_step(run, props_file, cone)
    violations = []
    try:
        core.harness_build()
        cases, dist = gen_cases(run, thorough, salt='leaderq-' + pid)
        outs = run_probe(cases)
        pairs = []
        for c, o in zip(cases, outs):
            if isinstance(o, str):
                broken.append(('correspondence', 'leaderq probe error', o[:300])); continue
            pairs.append((c, o))
            h = History(c, o)
            why = oracle(h, dist)
            if why:
                violations.append({'class': classify(why), 'probe': 'leaderq', 'input': c, 'output': o, 'why': why})
        br, nd = correspondence(pairs, pid)
        broken += br
        run.cov['disagreements'] = nd
        if extra:
            extra(run, broken, violations, dist)
        run.add_cases(len(pairs), len({json.dumps(c) for c, _ in pairs}), [{'case': pairs[j][0], 'impl': pairs[j][1]} for j in (0, len(pairs) - 1)], dist, rule)
    except Broken as b:
        broken.append(('harness', b.what, b.detail))
    return flow.conclude(run, broken, violations)

def standard_replay(path, oracle):
    r = json.load(open(path))
    if r.get('kind') != 'counterexample':
        print('broken obligation:', [b['name'] for b in r.get('broken', [])]); return 1
    core.harness_build()
    out = core.probe('leaderq', [r['input']])[0]
    print('implementation output:', json.dumps(out))
    why = oracle(History(r['input'], out), {}) if not isinstance(out, str) else out
    print('VIOLATES: ' + why if why else 'ok'); return 1 if why else 0

RULE = ('seeded: leader alone or leader + one voter, back-pressure limits 0/2/3 and 0/1/2, default policy x override flag, noop committed or not; '
        '6-26 ops out of put/delete/CAS/empty writes, reads with every requested policy, scan, join, flush, peer acks with arbitrary match index, '
        'LogFlushed, ApplyCompleted with arbitrary flags, clock advances + tick, higher-term response, step-down, fatal error, and client ops '
        'after the node left leadership; plus 10 hand-written boundary histories; distinct = distinct cases')
