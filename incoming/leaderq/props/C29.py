"""C29 — each write gets one correct response."""
from dvlib import core, flow
from props import leaderq_common as L

ID = 'C29'
PROPS_FILE = 'theories/props/Properties_C29.v'
CONE = L.CONE_BASE

def oracle(h, dist):
    def tag(t): dist[t] = dist.get(t, 0) + 1
    for rid in range(h.nreq):
        rs = h.resps.get(rid, [])
        msgs = [x for x in rs if x[1] != L.K_DROPPED]
        if len(msgs) > 1:
            return 'request %d received %d responses: %s' % (rid, len(msgs), msgs)
        if len(rs) > 1:
            return 'request %d was resolved more than once: %s' % (rid, rs)
        if h.kind_of[rid] not in ('write', 'write-empty'): continue
        for pos, k, a in msgs:
            if k != L.K_WOK: continue
            tag('write-success-responses')
            idxs = h.index_of(rid)
            if len(idxs) != 1:
                return 'write %d answered success but has %d entries in the log' % (rid, len(idxs))
            idx = idxs[0]
            if h.commit_at[pos] < idx:
                return 'write %d answered success at op %d while its entry %d is not committed (commit %d)' % (rid, pos, idx, h.commit_at[pos])
            if idx not in h.applied_flag or h.applied_pos[idx] > pos:
                return 'write %d answered success at op %d before its entry %d was applied' % (rid, pos, idx)
            if h.applied_flag[idx] != a:
                return 'write %d (entry %d) answered succeeded=%d but the state machine reported %d at that index' % (rid, idx, a, h.applied_flag[idx])
            if a == 0: tag('cas-failure-responses')
    return None

def classify(why):
    if 'responses' in why or 'resolved more' in why: return 'duplicate-response'
    if 'reported' in why: return 'wrong-outcome-reported'
    return 'success-before-commit-apply'

def check(run):
    run.assumptions += ["the batch start index is last_entry_id()+1 and BufferedRaftLog allocates exactly that index for the first payload (C19/C08 cover the log; the leaderq probe observes the entries actually appended and would show a shift)",
                        "ApplyCompleted reports, for each index, the outcome the state machine computed at that index (C06/C22)",
                        "a sender dropped with the role object (write committed but not applied when the leader steps down) surfaces at the API layer as one error response (channel closed / deadline_exceeded), see C30"]
    return L.standard_check(run, ID, PROPS_FILE, CONE, oracle, classify, L.RULE)

def replay(path):
    return L.standard_replay(path, oracle)

META = {
    'title': 'Each write gets one correct response',
    'level': 'proof',
    'technique': "Rocq invariant over all op sequences of the leader's client-bookkeeping model (batches aligned with the entries they appended, apply waiters keyed by their own entry's index, success responses justified by commit + apply + the flag delivered for that index) + differential check against the real LeaderState/FollowerState with recording response channels",
    'text': "Rocq: C29_success_only_after_commit_and_apply — for every configuration and every sequence of client writes/reads/scans/joins, flushes, peer acks, LogFlushed, ApplyCompleted, ticks, higher-term responses, step-downs and fatal errors, a success response exists only for a request whose own entry sits at an index that is committed and applied on the leader, and its succeeded flag is the one ApplyCompleted delivered for that index (CAS outcome); C29_batch_alignment — every pending batch describes at start_idx+i the entry of its i-th sender and every apply waiter is keyed by its own entry's committed index. 'At most one response per request' is checked on the implementation's outputs on every run (oracle), not proved in Rocq (C29_one_response is missing: it needs a multiset-conservation invariant over all queues). The model is replayed against the real code on every check.",
    'note': "Trusted: Coq kernel, hand model LeaderQ (validated by the leaderq probe on every check), mocks for membership/transport/state machine. Not proved: at-most-one response (oracle only). A write that is committed but not yet applied when the leader steps down gets no message from the core (its sender is dropped): the client sees a channel-closed error and the write may still be applied — indeterminate, not a wrong success.",
    'design_ref': 'DESIGN.md §4 C29',
}
