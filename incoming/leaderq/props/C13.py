"""C13 — read policy routing is enforced."""
import json
from dvlib import core, flow
from dvlib.core import Broken

ID = 'C13'
PROPS_FILE = 'theories/props/Properties_C13.v'
CONE = ['theories/ReadRoute.v', 'theories/proofs/C13.v']
IMPORTS = 'From DE Require Import ReadRoute.'
# The embedded node's Raft loop never starts (a voter waits for its absent peers), so a fall-back to the command path ends in a
# timeout error whatever the configuration: only the fast-path decision is observable, and the model says it ignores the server
# configuration - hence the model is evaluated with a configuration under which the command path answers "Not leader".
EMB_DEFS = ("Definition emb_probe (v : val) : val := match route 2 0 R_LIN false (vn (vnth v 2)) false with "
            "ServedLocal _ => VL [VN 1] | _ => VL [VN 0] end.\n")

def effective(default, override, req):
    return req if (req != 0 and override) else default

def oracle_command(case, out):
    role, default, override, req = case
    eff = effective(default, override, req)
    if role != 3:
        if out == [0]: return None
        if out == [1, 3]:
            return None if eff == 3 else 'non-leader served a read locally although the effective policy is %d (default %d, override %d, requested %d)' % (eff, default, override, req)
        return 'unexpected non-leader outcome %s' % out
    if out[0] != 2: return 'unexpected leader outcome %s' % out
    if out[1] != eff:
        return 'leader processed the read under policy %d, effective policy is %d (default %d, override %d, requested %d)' % (out[1], eff, default, override, req)
    return None

def oracle_embedded(case, out):
    default, override, req = case
    eff = effective(default, override, req)
    if out == [1] and eff != 3:
        return ('embedded client read with requested policy %d was answered from the local state machine of a node that is not the leader; '
                'server default %d, allow_client_override %s, so the read had to be served under policy %d' % (req, default, bool(override), eff))
    return None

def check(run):
    run.cov['trusted_base'] += [
        "hand-written model DE.ReadRoute of role_state.rs push_client_cmd (Read), leader_state.rs determine_read_policy, grpc_raft_service.rs handle_client_read fast path, standalone_read_handle.rs / read_actor.rs, embedded_read_handle.rs get_batch; command path and embedded path tied to the code by the probes readroute / readroute_embedded; the gRPC path is modelled from the source only (not driven: it needs a running Node)",
        "harness: real FollowerState / CandidateState / LearnerState / LeaderState for the command path; a real EmbeddedEngine (file storage, file state machine, one voter of three, peers absent) for the embedded path",
    ]
    run.assumptions += ["'policy actually used' on the leader's command path is observed through the behaviour of flush_cmd_buffers (linearizable -> LeaderNotReady, lease -> parked, eventual -> served) on a two-voter leader without committed noop and without lease",
                        "a read lease is valid only on a leader (renewed by quorum acks, revoked on step-down: C12)"]
    broken = flow.proof_step(run, PROPS_FILE, CONE)
    violations = []
    try:
        core.harness_build()
        cases = [[role, d, o, q] for role in range(4) for d in (1, 2, 3) for o in (0, 1) for q in (0, 1, 2, 3)]
        outs = core.probe_parallel('readroute', cases)
        pairs = []
        dist = {}
        for c, o in zip(cases, outs):
            if isinstance(o, str):
                broken.append(('correspondence', 'readroute probe error', o[:300])); continue
            pairs.append((c, o))
            why = oracle_command(c, o)
            if why: violations.append({'class': 'command-path-wrong-policy', 'probe': 'readroute', 'input': c, 'output': o, 'why': why})
            k = 'command-path: ' + ('not-leader' if o == [0] else 'served-local-eventual' if o[0] == 1 else 'leader-policy-%d' % o[1]); dist[k] = dist.get(k, 0) + 1
        mism = core.coq_index_list(IMPORTS, '', 'readroute_probe', pairs, tag='C13')
        if mism:
            i = mism[0]
            broken.append(('correspondence', 'DE.ReadRoute.command_path vs role states (probe readroute)', '%d disagreements; first on %s -> impl %s' % (len(mism), json.dumps(pairs[i][0]), json.dumps(pairs[i][1]))))
        ecases = [[d, o, q] for d in (1, 2, 3) for o in (0, 1) for q in (1, 2, 3)]
        eouts = core.probe('readroute_embedded', ecases, timeout=600)
        epairs = []
        for c, o in zip(ecases, eouts):
            if isinstance(o, str):
                broken.append(('correspondence', 'readroute_embedded probe error', o[:300])); continue
            epairs.append((c, o))
            why = oracle_embedded(c, o)
            if why: violations.append({'class': 'fast-path-ignores-server-policy', 'probe': 'readroute_embedded', 'input': c, 'output': o, 'why': why})
            k = 'embedded-path non-leader: ' + ('served-local' if o == [1] else 'error'); dist[k] = dist.get(k, 0) + 1
        emism = core.coq_index_list(IMPORTS, EMB_DEFS, 'emb_probe', epairs, tag='C13e')
        if emism:
            i = emism[0]
            broken.append(('correspondence', 'DE.ReadRoute.embedded_path vs EmbeddedClient (probe readroute_embedded)', '%d disagreements; first on %s -> impl %s' % (len(emism), json.dumps(epairs[i][0]), json.dumps(epairs[i][1]))))
        run.cov['disagreements'] = len(mism) + len(emism)
        allp = pairs + epairs
        run.add_cases(len(allp), len(allp), [{'case': pairs[0][0], 'impl': pairs[0][1]}, {'case': epairs[0][0], 'impl': epairs[0][1]}] if pairs and epairs else [], dist,
                      'exhaustive: 4 roles x 3 defaults x 2 override flags x (3 requested policies + none) on the Raft command path (96 cases); 3 defaults x 2 override flags x 3 requested policies through EmbeddedClient on a real non-leader node (18 cases)')
    except Broken as b:
        broken.append(('harness', b.what, b.detail))
    return flow.conclude(run, broken, violations)

def replay(path):
    r = json.load(open(path))
    if r.get('kind') != 'counterexample':
        print('broken obligation:', [b['name'] for b in r.get('broken', [])]); return 1
    core.harness_build()
    out = core.probe(r['probe'], [r['input']])[0]
    print('implementation output:', json.dumps(out))
    why = (oracle_embedded if r['probe'] == 'readroute_embedded' else oracle_command)(r['input'], out)
    print('VIOLATES: ' + why if why else 'ok'); return 1 if why else 0

META = {
    'title': 'Read policy routing is enforced',
    'level': 'proof',
    'technique': 'Rocq theorems on the routing model (general over role, default, override flag, requested policy) with a refutation witness for the API fast paths + exhaustive differential check against the real role states and a real embedded node',
    'text': "Rocq: C13_command_path_sound — on the Raft command path, for every role, server default, override flag and requested policy, a served read is served under the effective policy (the default when overrides are disabled), a non-leader serves locally only eventual reads and otherwise answers 'Not leader', the leader processes the read under the effective policy; C13_non_leader_never_serves_lin_or_lease — on all three paths a non-leader never serves a linearizable or lease read from local state; C13_override_disabled_fast_path_refuted — the second sentence of the property does NOT hold on the gRPC and embedded fast paths as coded (they never consult allow_client_override or the default policy): witness replayed on a real embedded node at every run (known finding). All 96 command-path combinations and 18 embedded-path combinations run against the real code on every check.",
    'note': "Trusted: Coq kernel, hand model ReadRoute. The gRPC path (handle_client_read -> StandaloneReadHandle -> ReadActor) is modelled from the source and shares the defect by reading, but is not driven by a probe. Genuine defect: fast-path-ignores-server-policy, see known_findings.json.",
    'design_ref': 'DESIGN.md §4 C13',
}
