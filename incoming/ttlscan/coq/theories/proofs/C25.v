(* C25 — scan results match their revision. Proved / refuted on DE.Scan. *)
From Coq Require Import NArith List Bool Lia Arith.
From DE Require Import Val Scan.
Import ListNotations.
Open Scope N_scope.

(* ---------- chunking ---------- *)
Lemma fold_chunks_concat (done : list (list cmd)) : forall s,
  fold_left apply_chunk done s = fold_left apply_cmd (concat done) s.
Proof.
  induction done as [|ch done IH]; intros s; cbn [fold_left concat]; [reflexivity|].
  rewrite fold_left_app. unfold apply_chunk at 2. apply IH.
Qed.

Lemma firstn_length_app {A} (l l' : list A) : firstn (length l) (l ++ l') = l.
Proof. induction l as [|x l IH]; cbn [length firstn app]; [destruct l'; reflexivity|]. rewrite IH. reflexivity. Qed.

Definition idx (done : list (list cmd)) : N := N.of_nat (length (concat done)).

Lemma state_at_done done todo : state_at (done ++ todo) (idx done) = fold_left apply_chunk done [].
Proof.
  unfold state_at, idx. rewrite Nat2N.id, concat_app, firstn_length_app. symmetry. apply fold_chunks_concat.
Qed.

Lemma idx_snoc done ch : idx (done ++ [ch]) = idx done + N.of_nat (length ch).
Proof.
  unfold idx. rewrite concat_app. cbn [concat]. rewrite app_nil_r, app_length. lia.
Qed.

(* ---------- the invariant of every schedule ---------- *)
Definition Inv (chunks : list (list cmd)) (m : mach) : Prop :=
  exists done, chunks = done ++ m_todo m /\ m_data m = fold_left apply_chunk done [] /\
    match m_mid m with
    | None => m_applied m = idx done
    | Some n => n = idx done /\ m_applied m <= idx done
    end.

Lemma inv_init chunks : Inv chunks (minit chunks).
Proof. exists []. cbn. repeat split; reflexivity. Qed.

Lemma inv_step en chunks m l : Inv chunks m -> Inv chunks (mstep en m l).
Proof.
  intros HI. pose proof HI as [done [Hc [Hd Hm]]].
  destruct l as [| |p|]; cbn [mstep].
  - destruct (m_mid m) as [n|] eqn:Emid; [exact HI|].
    destruct (m_todo m) as [|ch rest] eqn:Etodo; [exact HI|].
    assert (Hen : Inv chunks
      {| m_data := apply_chunk (m_data m) ch; m_applied := m_applied m;
         m_mid := Some (m_applied m + N.of_nat (length ch)); m_todo := rest; m_iter := m_iter m; m_out := m_out m |}).
    { exists (done ++ [ch]). cbn [m_todo m_data m_mid m_applied]. split; [|split; [|split]].
      - rewrite <- app_assoc. exact Hc.
      - rewrite fold_left_app, <- Hd. reflexivity.
      - rewrite idx_snoc, Hm. reflexivity.
      - rewrite idx_snoc, Hm. lia. }
    destruct en; destruct (m_iter m); assumption.
  - destruct (m_mid m) as [n|] eqn:Emid; [|exact HI].
    exists done. cbn [m_todo m_data m_mid m_applied]. destruct Hm as [Hn _]. split; [exact Hc|split; [exact Hd|exact Hn]].
  - destruct (m_iter m); [exact HI|]. exists done. cbn [m_todo m_data m_mid m_applied]. split; [exact Hc|split; [exact Hd|exact Hm]].
  - destruct (m_iter m); [|exact HI]. exists done. cbn [m_todo m_data m_mid m_applied]. split; [exact Hc|split; [exact Hd|exact Hm]].
Qed.

Lemma inv_run en chunks ls : forall m, Inv chunks m -> Inv chunks (mrun en ls m).
Proof.
  induction ls as [|l ls IH]; intros m H; cbn [mrun fold_left]; [exact H|]. apply IH, inv_step, H.
Qed.

(* whenever no apply is between its two steps, the data is the state at last_applied *)
Lemma quiescent_data en chunks ls :
  let m := mrun en ls (minit chunks) in
  m_mid m = None -> m_data m = state_at chunks (m_applied m).
Proof.
  intros m Hmid. destruct (inv_run en chunks ls _ (inv_init chunks)) as [done [Hc [Hd Hm]]].
  fold m in Hc, Hd, Hm. rewrite Hmid in Hm. rewrite Hm, Hd, Hc. symmetry. apply state_at_done.
Qed.

(* a scan both of whose steps run while apply_chunk is not between its two steps and that is not overtaken by an
   apply step returns the iteration over the state at exactly the revision it reports — for every schedule before it *)
Lemma quiescent_scan_consistent en chunks ls p :
  let m := mrun en ls (minit chunks) in
  m_mid m = None -> m_iter m = None ->
  m_out (mrun en [LIter p; LRev] m) = m_out m ++ [(iter_of en p (state_at chunks (m_applied m)), m_applied m)].
Proof.
  intros m Hmid Hit. pose proof (quiescent_data en chunks ls Hmid) as Hd. fold m in Hd.
  cbn [mrun fold_left mstep]. rewrite Hit. cbn [m_iter m_out m_applied]. rewrite Hd. reflexivity.
Qed.

Example quiescent_scan_nonvacuous :
  let chunks := [[CPut [97;255] [1]; CPut [98] [2]]; [CDel [98]; CPut [97;255;0] [3]]] in
  let m := mrun ERocks [LWrite; LPublish; LWrite; LPublish] (minit chunks) in
  m_mid m = None /\ m_iter m = None /\
  m_out (mrun ERocks [LIter [97;255]; LRev] m) = [([([97;255],[1]); ([97;255;0],[3])], 4)].
Proof. vm_compute. repeat split; reflexivity. Qed.

(* the File iteration is the specification itself; the RocksDB one is compared on every key set / prefix over the
   alphabet {0x00, 'a', 0xFE, 0xFF} with keys and prefixes of length <= 2 (bounded; the general statement
   "bytes < 256 -> p <> [] -> rocks_iter p s = scan_spec p s for sorted s" is NOT proved here) *)
Lemma file_scan_exact p s : file_iter p s = scan_spec p s.
Proof. reflexivity. Qed.

Definition alpha : list N := [0; 97; 254; 255].
Definition words2 : list bytes := map (fun x => [x]) alpha ++ flat_map (fun x => map (fun y => [x; y]) alpha) alpha.
Definition full_store : store := fold_left (fun s k => sput s k [1]) (words2 ++ [[255;255;255]; [97;255;255]; [97;255;0]]) [].
Lemma rocks_scan_exact_small_scope :
  forallb (fun p => beqb (map (fun e => hd 0 (snd e)) (rocks_iter p full_store)) (map (fun e => hd 0 (snd e)) (scan_spec p full_store))
                    && (N.of_nat (length (rocks_iter p full_store)) =? N.of_nat (length (scan_spec p full_store)))
                    && forallb (fun e => starts_with p (fst e)) (rocks_iter p full_store))
          (words2 ++ [[255;255;255]; [97;255;255]]) = true.
Proof. vm_compute. reflexivity. Qed.

Example prefix_successor_examples :
  prefix_successor [97; 255] = Some [98] /\ prefix_successor [255; 255] = None /\ prefix_successor [47] = Some [48] /\
  prefix_successor [] = None /\ prefix_successor [97; 255; 255] = Some [98] /\ prefix_successor [97; 254] = Some [97; 255].
Proof. vm_compute. repeat split; reflexivity. Qed.

(* RocksDB answers the empty prefix with no entries (documented; File returns everything) *)
Example rocks_empty_prefix_returns_nothing : rocks_iter [] [([97],[1])] = [] /\ file_iter [] [([97],[1])] = [([97],[1])].
Proof. vm_compute. split; reflexivity. Qed.

(* =====================  refutations  ===================== *)
(* RocksDB: iterator created, then a whole apply_chunk, then the revision read: the scan reports revision 2 but does
   not contain the entry with index 2 — the documented watch-first/scan-second filter (skip events with
   revision <= scan revision) then drops that update for good. *)
Lemma rocks_scan_race :
  let chunks := [[CPut [112;47;97] [1]]; [CPut [112;47;120] [2]]] in
  let m := mrun ERocks [LWrite; LPublish; LIter [112;47]; LWrite; LPublish; LRev] (minit chunks) in
  m_out m = [([([112;47;97],[1])], 2)] /\
  scan_spec [112;47] (state_at chunks 2) = [([112;47;97],[1]); ([112;47;120],[2])].
Proof. vm_compute. split; reflexivity. Qed.

(* both engines: a scan between the two steps of apply_chunk returns entries NEWER than the revision it reports *)
Lemma scan_between_apply_steps en :
  let chunks := [[CPut [112;47;97] [1]]; [CPut [112;47;120] [2]]] in
  let m := mrun en [LWrite; LPublish; LWrite; LIter [112;47]; LRev; LPublish] (minit chunks) in
  m_out m = [([([112;47;97],[1]); ([112;47;120],[2])], 1)] /\
  scan_spec [112;47] (state_at chunks 1) = [([112;47;97],[1])].
Proof. destruct en; vm_compute; split; reflexivity. Qed.

(* File: the read lock excludes the RocksDB schedule (the write step is not enabled while a scan is in progress) *)
Lemma file_scan_blocks_write :
  let chunks := [[CPut [112;47;97] [1]]; [CPut [112;47;120] [2]]] in
  let m := mrun EFile [LWrite; LPublish; LIter [112;47]; LWrite; LPublish; LRev] (minit chunks) in
  m_out m = [([([112;47;97],[1])], 1)].
Proof. vm_compute. reflexivity. Qed.
