"""C25 — scan results match their revision."""
import json
from dvlib import core, flow
from dvlib.core import Broken

ID = 'C25'
PROPS_FILE = 'theories/props/Properties_C25.v'
CONE = ['theories/Scan.v', 'theories/proofs/C25.v']
IMPORTS = 'From DE Require Import Scan.'

ALPH = [0x2f, 0x61, 0x62, 0xfe, 0xff, 0x00]

def gen_cases(run, thorough):
    r = run.rng('scan'); cases = []; dist = {}
    def tag(t): dist[t] = dist.get(t, 0) + 1
    def rkey(maxlen=3):
        # keys over a tiny alphabet that contains the boundary bytes 0xFF, 0xFE and 0x00
        return [r.choice(ALPH) for _ in range(r.range(1, maxlen))]
    n = 1500 if thorough else 220
    for _ in range(n):
        ops = []; keys = [rkey() for _ in range(r.range(2, 7))]
        # keys that share a prefix ending in 0xFF, and the immediate successors of such prefixes
        if r.chance(1, 2):
            p = rkey(2); keys += [p + [0xff], p + [0xff, 0xff], p + [0xff, 0x00], p[:-1] + [min(p[-1] + 1, 255)], p]
        vals = [[1], [2], [3], [4, 5]]
        for _ in range(r.range(2, 9)):
            if r.chance(3, 5):
                ch = []
                for _ in range(r.range(1, 4)):
                    x = r.below(10); k = r.choice(keys)
                    if x < 6: ch.append([0, k, r.choice(vals)]); tag('put')
                    elif x < 8: ch.append([1, k]); tag('delete')
                    elif x < 9: ch.append([2, k, r.choice([[], [r.choice(vals)]]), r.choice(vals)]); tag('cas')
                    else: ch.append([3]); tag('noop')
                ops.append([0, ch])
            else:
                k = r.choice(keys); x = r.below(10)
                if x < 5: p = k[:r.range(1, len(k))]
                elif x < 7: p = k[:-1] + [0xff]
                elif x < 8: p = [0xff] * r.range(1, 2)
                elif x < 9: p = []
                else: p = rkey(2)
                tag('scan-empty-prefix' if not p else ('scan-prefix-ends-ff' if p[-1] == 0xff else 'scan'))
                ops.append([1, p])
        ops.append([1, r.choice(keys)[:1]]); tag('scan')
        cases.append([ops])
    # fixed boundary cases
    cases.append([[[0, [[0, [0x61, 0xff], [1]], [0, [0x61, 0xff, 0xff], [2]], [0, [0x62], [3]], [0, [0x61], [4]], [0, [0xff, 0xff, 1], [5]], [0, [0xff], [6]]]],
                   [1, [0x61, 0xff]], [1, [0x61]], [1, [0xff]], [1, [0xff, 0xff]], [1, []], [1, [0x62]]]]); tag('fixed-ff')
    return cases, dist

def oracle(case, out, rocks):
    """The property on the implementation's outputs: each scan = exactly the keys with the prefix and their values in the
    state after all entries up to the reported revision (sequential probe: reference state kept here)."""
    st = {}; hist = {0: {}}; idx = 0; j = 0
    for op in case[0]:
        if op[0] == 0:
            for c in op[1]:
                idx += 1
                if c[0] == 0: st[tuple(c[1])] = c[2]
                elif c[0] == 1: st.pop(tuple(c[1]), None)
                elif c[0] == 2:
                    cur = st.get(tuple(c[1])); exp = c[2][0] if c[2] else None
                    if cur == exp: st[tuple(c[1])] = c[3]
                hist[idx] = dict(st)
        else:
            p = op[1]; ents, rev = out[j]; j += 1
            if rev not in hist: return 'scan-bad-revision', 'scan reports revision %d, never an applied index' % rev
            if rocks and not p:
                continue   # documented RocksDB behaviour: an empty prefix returns no entries (test_scan_prefix_empty_prefix_returns_empty)
            want = sorted([list(k), v] for k, v in hist[rev].items() if list(k[:len(p)]) == p)
            if ents != want:
                return 'scan-not-state-at-revision', 'scan %s at revision %d returned %s, state at that revision has %s' % (p, rev, ents, want)
    return None

def race_oracle(engine, out):
    scans, stale, ahead, exs, exa = out
    res = []
    if stale:
        res.append(('scan-revision-newer-than-entries',
                    '%s: %d of %d concurrent scans report a revision whose entry is missing from the entries (p/x=%s, revision=%s)' % (engine, stale, scans, exs[0], exs[1])))
    if ahead:
        res.append(('scan-entries-newer-than-revision',
                    '%s: %d of %d concurrent scans return entries newer than the reported revision (p/x=%s, revision=%s)' % (engine, ahead, scans, exa[0], exa[1])))
    return res

def check(run):
    thorough = run.tier == 'thorough'
    run.cov['trusted_base'] += [
        "hand-written model DE.Scan (scan_prefix of both state machines, prefix_successor, two-step apply / two-step scan interleaving), tied to the code by the scan probe (sequential) — the interleaved steps themselves are not observable without hook H5",
        "harness: real FileStateMachine / RocksDBStateMachine in temporary directories; scan_race = two OS threads, not deterministic",
    ]
    run.assumptions += ["a RocksDB iterator reads the implicit snapshot of its creation time (RocksDB documentation)",
                        "one apply task (apply_chunk calls are serial), scans run on another thread (leader_state.rs ClientCmd::Scan calls scan_prefix inline on the Raft loop while StateMachineWorker applies)"]
    broken = flow.proof_step(run, PROPS_FILE, CONE)
    violations = []
    try:
        core.harness_build()
        cases, dist = gen_cases(run, thorough)
        outs = core.probe_parallel('scan', cases)
        pairs = []; pcases = []
        for c, o in zip(cases, outs):
            for en in (0, 1):
                if isinstance(o, str) or isinstance(o[en], str):
                    broken.append(('correspondence', 'scan probe error', str(o)[:300])); continue
                pairs.append(([en, c[0]], o[en])); pcases.append(c)
                why = oracle(c, o[en], en == 1)
                if why:
                    violations.append({'class': why[0] + ('-rocksdb' if en else '-file'), 'probe': 'scan', 'input': c, 'output': o[en], 'why': why[1], 'engine': en})
        mism = core.coq_index_list(IMPORTS, '', 'scan_probe', pairs, tag='C25')
        if mism:
            i = mism[0]
            broken.append(('correspondence', 'DE.Scan.scan_probe vs scan_prefix (probe scan)',
                           '%d disagreements; first on %s -> impl %s' % (len(mism), json.dumps(pairs[i][0]), json.dumps(pairs[i][1]))))
        run.cov['disagreements'] = len(mism)
        # concurrent apply, real threads (search only; the outcome is not deterministic)
        rcases = [[1, 2000, 400], [1, 0, 3000], [0, 2000, 300], [0, 0, 300]] * (3 if thorough else 1)
        routs = core.probe('scan_race', rcases, timeout=600)
        for c, o in zip(rcases, routs):
            if isinstance(o, str):
                broken.append(('harness', 'scan_race probe error', o[:300])); continue
            dist['race-scans'] = dist.get('race-scans', 0) + o[0]
            for cls, why in race_oracle('RocksDBStateMachine' if c[0] else 'FileStateMachine', o):
                violations.append({'class': cls + ('-rocksdb' if c[0] else '-file'), 'probe': 'scan_race', 'input': c, 'output': o, 'why': why})
        run.add_cases(len(pairs), len({json.dumps(c) for c, _ in pairs}), [{'case': pairs[j][0], 'impl': pairs[j][1]} for j in (0, len(pairs) - 1)], dist,
                      'seeded: 2-12 keys over the alphabet {/,a,b,0x00,0xFE,0xFF} incl. families p+FF, p+FF FF, successor(p); 2-9 ops (chunks of 1-4 put/delete/CAS/noop, scans with prefixes of existing keys, prefixes ending in 0xFF, all-0xFF, empty); each case on both engines; plus %d threaded scan/apply races' % len(rcases))
    except Broken as b:
        broken.append(('harness', b.what, b.detail))
    return flow.conclude(run, broken, violations)

def replay(path):
    r = json.load(open(path))
    if r.get('kind') != 'counterexample':
        print('broken obligation:', [b['name'] for b in r.get('broken', [])]); return 1
    core.harness_build()
    if r.get('probe') == 'scan_race':
        bad = 0
        for _ in range(5):
            out = core.probe('scan_race', [r['input']], timeout=600)[0]
            print('implementation output:', json.dumps(out))
            for cls, why in race_oracle('engine %d' % r['input'][0], out):
                print('VIOLATES: ' + why); bad = 1
        if not bad: print('ok (race not hit in 5 runs)')
        return bad
    out = core.probe('scan', [r['input']])[0]
    print('implementation output:', json.dumps(out)); bad = 0
    for en in (0, 1):
        why = oracle(r['input'], out[en], en == 1)
        if why: print('VIOLATES (%s): %s' % ('rocksdb' if en else 'file', why[1])); bad = 1
    if not bad: print('ok')
    return bad

META = {
    'title': 'Scan results match their revision',
    'level': 'proof',
    'technique': 'Rocq theorems on the scan model (two-step scan vs two-step apply over all schedules by an invariant; RocksDB seek/upper-bound iteration = prefix filter only as a bounded vm_compute comparison) + differential check of scan_prefix on both real state machines + threaded race search',
    'text': "Rocq: C25_quiescent_scan_consistent (for every chunk list and every schedule of apply steps / scans: a scan that starts while apply_chunk is not between its two steps and is not overtaken returns the iteration over the state after all entries up to exactly the revision it reports), C25_file_scan_exact (File iteration = exactly the entries with the prefix), C25_rocks_scan_exact_partial (RocksDB seek + prefix_successor bound + starts_with guard = the entries with the prefix, bounded: all prefixes of length <= 2 over {00,'a',FE,FF}; the general byte-string theorem is not proved), C25_rocks_scan_race_refuted (iterator, whole apply_chunk, revision read: the reported revision covers an update the entries miss, which breaks the documented watch-first/scan-second filter) and C25_scan_between_apply_steps_refuted (both engines: entries newer than the reported revision). The model is replayed against both real engines on seeded cases with 0xFF/0x00 boundary bytes and the property is evaluated on the implementation's outputs; the races are reproduced on the real engines with two threads.",
    'note': "Trusted: Coq kernel, hand model Scan (validated sequentially by the probe). The unchanged tree violates the property under a concurrent apply (known findings). RocksDB's scan of the empty prefix returns nothing by documented design (File returns everything); not counted as a violation.",
    'design_ref': 'DESIGN.md §4 C25',
}
