//! probes `ttl` and `ttl_sample` (property C23): the real FileStateMachine and RocksDBStateMachine with a real
//! TtlLease, constructed exactly as the node does (SM::new -> set_lease(TtlLease::new(cfg)) -> start()).
//!
//! The lease reads `SystemTime::now()` directly (no injectable clock), so the probe runs on REAL time with a
//! tick of 500 ms: the case fixes a virtual tick counter, `advance d` sleeps until wall time t0 + tick*500ms.
//! The generator applies TTL writes only at even ticks and clock-reading operations (cleanup, restart,
//! snapshot install) only at odd ticks, so with every operation finishing < 470 ms after its tick started (i.e. inside its own tick) no
//! comparison `expire_at <= now` can flip: expiries lie inside even ticks, clock reads inside odd ticks. An operation that finishes later
//! than that makes the whole engine run answer the string "LATE" (the case is then discarded by the check).
//!
//! ttl — input [nkeys, [op...]], op =
//!   [0,k,v,ttl]   apply Insert key k value v, ttl seconds (0 = no TTL)
//!   [1,k]         apply Delete
//!   [2,k,exp,v]   apply CompareAndSwap (exp 0 = expect absent, else expected value id)
//!   [3,d]         advance d ticks (sleep)
//!   [4]           lease_background_cleanup()
//!   [5]           graceful restart: stop(); drop; new(); set_lease(fresh TtlLease); start()
//!   [6]           generate_snapshot_data into a fresh directory (the snapshot slot)
//!   [7]           apply_snapshot_from_file of the slot (no-op when no snapshot was taken)
//! output [file_run, rocks_run]; run = "LATE" | "ERR .." | [obs per op],
//!   obs = [[ [] | [v] per key ], [ [] | [expiry tick] per key ], has_lease_keys]
//!
//! ttl_sample — input [engine(0 file,1 rocks), nfar, rounds]: one key with ttl 1 s plus `nfar` keys with ttl 1000 s,
//!   wait 1.5 s, run cleanup `rounds` times. output [short key still readable (0/1), lease len, cleanup returned keys (count)]
use bytes::Bytes;
use d_engine_core::config::LeaseConfig;
use d_engine_core::{ApplyEntry, Command, StateMachine};
use d_engine_proto::common::LogId;
use d_engine_proto::server::storage::SnapshotMetadata;
use d_engine_server::storage::TtlLease;
use d_engine_server::{FileStateMachine, RocksDBStateMachine};
use serde_json::{json, Value};
use std::path::{Path, PathBuf};
use std::sync::Arc;
use std::time::{Duration, SystemTime};

const TICK_MS: u64 = 500;
const SLACK_MS: u64 = 470;

pub fn kb(k: u64) -> Bytes {
    Bytes::from(format!("k{k}").into_bytes())
}
pub fn vb(v: u64) -> Bytes {
    Bytes::from(format!("v{v}").into_bytes())
}
fn vid(b: &[u8]) -> u64 {
    std::str::from_utf8(&b[1..]).ok().and_then(|s| s.parse().ok()).unwrap_or(999_999)
}

pub type Sm = Arc<dyn StateMachine>;

pub async fn open_engine(engine: u64, dir: &Path) -> Result<(Sm, Arc<TtlLease>), String> {
    let lease = Arc::new(TtlLease::new(LeaseConfig::default()));
    if engine == 0 {
        let mut sm = FileStateMachine::new(dir.to_path_buf()).await.map_err(|e| format!("file new: {e}"))?;
        sm.set_lease(lease.clone());
        let sm: Sm = Arc::new(sm);
        sm.start().await.map_err(|e| format!("file start: {e}"))?;
        Ok((sm, lease))
    } else {
        let mut sm = RocksDBStateMachine::new(dir).map_err(|e| format!("rocks new: {e}"))?;
        sm.set_lease(lease.clone());
        let sm: Sm = Arc::new(sm);
        sm.start().await.map_err(|e| format!("rocks start: {e}"))?;
        Ok((sm, lease))
    }
}

struct Clock {
    t0: SystemTime,
    tick: u64,
}
impl Clock {
    fn since(&self) -> Duration {
        SystemTime::now().duration_since(self.t0).unwrap_or(Duration::ZERO)
    }
    fn late(&self) -> bool {
        self.since() > Duration::from_millis(self.tick * TICK_MS + SLACK_MS)
    }
    async fn advance(&mut self, d: u64) {
        self.tick += d;
        let target = Duration::from_millis(self.tick * TICK_MS);
        let now = self.since();
        if target > now {
            tokio::time::sleep(target - now).await;
        }
    }
}

async fn run_engine(engine: u64, nkeys: u64, ops: &[Value]) -> Result<Value, String> {
    let base = tempfile::Builder::new().prefix("dprobe-ttl").tempdir().map_err(|e| e.to_string())?;
    let dir: PathBuf = base.path().join("sm");
    let (mut sm, mut lease) = open_engine(engine, &dir).await?;
    // t0 is aligned to a whole UNIX second: FileStateMachine's WAL stores expire_at truncated to seconds, so with an
    // aligned start the WAL deadline of a TTL write at an even tick equals the start of its expiry tick.
    let frac = SystemTime::now().duration_since(std::time::UNIX_EPOCH).map(|d| d.subsec_millis() as u64).unwrap_or(0);
    tokio::time::sleep(Duration::from_millis(1000 - frac)).await;
    let t0 = SystemTime::now();
    let t0 = t0 - Duration::from_nanos(t0.duration_since(std::time::UNIX_EPOCH).map(|d| d.subsec_nanos() as u64).unwrap_or(0));
    let mut clock = Clock { t0, tick: 0 };
    let mut index = 0u64;
    let mut snap: Option<(PathBuf, LogId)> = None;
    let mut nsnap = 0;
    let mut outs = vec![];
    for op in ops {
        match op[0].as_u64().unwrap_or(99) {
            0 | 1 | 2 => {
                index += 1;
                let k = kb(op[1].as_u64().unwrap());
                let command = match op[0].as_u64().unwrap() {
                    0 => {
                        let ttl = op[3].as_u64().unwrap();
                        Command::Insert { key: k, value: vb(op[2].as_u64().unwrap()), ttl_secs: if ttl == 0 { None } else { Some(ttl) } }
                    }
                    1 => Command::Delete { key: k },
                    _ => {
                        let e = op[2].as_u64().unwrap();
                        Command::CompareAndSwap { key: k, expected: if e == 0 { None } else { Some(vb(e)) }, value: vb(op[3].as_u64().unwrap()) }
                    }
                };
                sm.apply_chunk(&[ApplyEntry { index, term: 1, command }]).await.map_err(|e| format!("apply: {e}"))?;
            }
            3 => clock.advance(op[1].as_u64().unwrap()).await,
            4 => {
                sm.lease_background_cleanup().await.map_err(|e| format!("cleanup: {e}"))?;
            }
            5 => {
                sm.stop().map_err(|e| format!("stop: {e}"))?;
                drop(lease);
                drop(sm);
                let r = open_engine(engine, &dir).await?;
                sm = r.0;
                lease = r.1;
            }
            6 => {
                nsnap += 1;
                let sdir = base.path().join(format!("snap{nsnap}"));
                let li = LogId { index, term: 1 };
                sm.generate_snapshot_data(sdir.clone(), li).await.map_err(|e| format!("snapshot: {e}"))?;
                snap = Some((sdir, li));
            }
            7 => {
                if let Some((sdir, li)) = &snap {
                    let md = SnapshotMetadata { last_included: Some(*li), checksum: Bytes::from(vec![0u8; 32]) };
                    sm.apply_snapshot_from_file(&md, sdir.clone()).await.map_err(|e| format!("install: {e}"))?;
                }
            }
            k => return Err(format!("unknown op {k}")),
        }
        if clock.late() {
            return Ok(json!("LATE"));
        }
        let mut gets = vec![];
        let mut exps = vec![];
        for k in 0..nkeys {
            let g = sm.get(&kb(k)).map_err(|e| format!("get: {e}"))?;
            gets.push(match g { Some(b) => json!([vid(&b)]), None => json!([]) });
            exps.push(match lease.get_expiration(&kb(k)) {
                Some(t) => {
                    let ms = t.duration_since(clock.t0).unwrap_or(Duration::ZERO).as_millis() as u64;
                    json!([ms / TICK_MS])
                }
                None => json!([]),
            });
        }
        use d_engine_core::Lease;
        outs.push(json!([gets, exps, if lease.has_lease_keys() { 1 } else { 0 }]));
    }
    let _ = sm.stop();
    drop(sm);
    Ok(Value::Array(outs))
}

pub fn run(rt: &tokio::runtime::Runtime, case: Value) -> Value {
    let nkeys = case[0].as_u64().unwrap_or(0);
    let ops: Vec<Value> = case[1].as_array().cloned().unwrap_or_default();
    rt.block_on(async {
        // both engines run concurrently on the same schedule (they share nothing)
        let (a, b) = tokio::join!(run_engine(0, nkeys, &ops), run_engine(1, nkeys, &ops));
        let f = |r: Result<Value, String>| match r { Ok(v) => v, Err(e) => json!(format!("ERR {e}")) };
        json!([f(a), f(b)])
    })
}

pub fn sample(rt: &tokio::runtime::Runtime, case: Value) -> Value {
    let engine = case[0].as_u64().unwrap_or(0);
    let nfar = case[1].as_u64().unwrap_or(0);
    let rounds = case[2].as_u64().unwrap_or(1);
    let r: Result<Value, String> = rt.block_on(async {
        let base = tempfile::Builder::new().prefix("dprobe-ttls").tempdir().map_err(|e| e.to_string())?;
        let dir = base.path().join("sm");
        let (sm, lease) = open_engine(engine, &dir).await?;
        let mut chunk = vec![ApplyEntry { index: 1, term: 1, command: Command::Insert { key: kb(0), value: vb(1), ttl_secs: Some(1) } }];
        for i in 1..=nfar {
            chunk.push(ApplyEntry { index: 1 + i, term: 1, command: Command::Insert { key: kb(i), value: vb(1), ttl_secs: Some(1000) } });
        }
        sm.apply_chunk(&chunk).await.map_err(|e| format!("apply: {e}"))?;
        tokio::time::sleep(Duration::from_millis(1500)).await;
        let mut removed = 0;
        for _ in 0..rounds {
            removed += sm.lease_background_cleanup().await.map_err(|e| format!("cleanup: {e}"))?.len();
        }
        let alive = sm.get(&kb(0)).map_err(|e| format!("get: {e}"))?.is_some();
        use d_engine_core::Lease;
        let n = lease.len();
        let _ = sm.stop();
        Ok(json!([if alive { 1 } else { 0 }, n, removed]))
    });
    match r { Ok(v) => v, Err(e) => json!(format!("ERR {e}")) }
}
