//! probes `store_log` and `store_meta`: the real FileStorageEngine and RocksDBStorageEngine (log store and
//! meta store) in temporary directories, including reopen and crash emulation by copying files.
//!
//! store_log — input [[op...]] with op =
//!   [0, [[idx,term,pl]...]]        persist_entries
//!   [1, from]                      truncate
//!   [2, from, [[idx,term,pl]...]]  replace_range
//!   [3, idx, term]                 purge(LogId)
//!   [4]                            reset
//!   [5]                            flush
//!   [6]                            reopen (drop every handle, open the same directory again)
//! output [[file_obs per op], [rocks_obs per op]], obs = [[entries of get_entries(0..=1000)], last_index(),
//!   load_purge_boundary() as [] | [idx,term], 1 iff entry(i) agrees with get_entries for every i in 0..=130]
//!
//! store_meta — input [0, old, new] with old/new = [] (nothing saved before; only for old) | [term, [] | [id, vterm, committed]]
//!   output [[file: old_bytes, new_bytes, [loaded at crash point 0..=len(new)+3], loaded_after_return, loaded_live,
//!            tmp file left after save (0/1), loaded after a real save over a left-over half-written tmp file, tmp left then (0/1)],
//!           [rocks: loaded_before, loaded_after_return, loaded_live]]
//!     save_to_file = File::create(hard_state.bin.tmp); write_all; flush + sync_all; rename(tmp -> hard_state.bin)
//!     crash point 0 = before File::create (hard_state.bin as left by the previous save, or absent; no tmp),
//!     crash point 1+k (k = 0..=len) = tmp created and k bytes written, len+2 = tmp synced, len+3 = renamed.
//!   loaded = [] (None) | [term, vote] | [9] (load or open returned Err)
//! input [1, [bytes]]: hard_state.bin with exactly these bytes, output = loaded through FileMetaStore
use crate::sim::*;
use d_engine_core::{HardState, LogStore, MetaStore, StorageEngine};
use d_engine_proto::common::LogId;
use d_engine_proto::server::election::VotedFor;
use d_engine_server::{FileStorageEngine, RocksDBStorageEngine};
use serde_json::{json, Value};
use std::path::{Path, PathBuf};
use std::sync::Arc;

fn tmp() -> tempfile::TempDir {
    tempfile::Builder::new().prefix("dprobe-store").tempdir().expect("tempdir")
}

async fn observe<S: LogStore>(s: &Arc<S>) -> Result<Value, String> {
    let es = s.get_entries(0..=1000).map_err(|e| format!("get_entries: {e}"))?;
    let mut consistent = 1;
    for i in 0..=130u64 {
        let a = s.entry(i).await.map_err(|e| format!("entry: {e}"))?;
        let b = es.iter().find(|e| e.index == i).cloned();
        if a != b {
            consistent = 0;
        }
    }
    let b = s.load_purge_boundary().map_err(|e| format!("load_purge_boundary: {e}"))?;
    Ok(json!([es.iter().map(entry_json).collect::<Vec<_>>(), s.last_index(), lid_json(b), consistent]))
}

async fn drive<S: LogStore, H>(ops: &[Value], open: &dyn Fn() -> Result<(H, Arc<S>), String>) -> Result<Value, String> {
    let mut outs = vec![];
    let mut cur: Option<(H, Arc<S>)> = Some(open()?);
    for op in ops {
        let s = cur.as_ref().unwrap().1.clone();
        match op[0].as_u64().unwrap_or(99) {
            0 => s.persist_entries(entries_of(&op[1])).await.map_err(|e| format!("persist: {e}"))?,
            1 => s.truncate(op[1].as_u64().unwrap()).await.map_err(|e| format!("truncate: {e}"))?,
            2 => s.replace_range(op[1].as_u64().unwrap(), entries_of(&op[2])).await.map_err(|e| format!("replace_range: {e}"))?,
            3 => s.purge(LogId { index: op[1].as_u64().unwrap(), term: op[2].as_u64().unwrap() }).await.map_err(|e| format!("purge: {e}"))?,
            4 => s.reset().await.map_err(|e| format!("reset: {e}"))?,
            5 => s.flush().map_err(|e| format!("flush: {e}"))?,
            6 => {
                drop(s);
                drop(cur.take()); // every handle dropped: Drop impls flush, RocksDB releases its lock
                cur = Some(open()?);
            }
            k => return Err(format!("unknown op {k}")),
        }
        let s = cur.as_ref().unwrap().1.clone();
        outs.push(observe(&s).await?);
    }
    Ok(Value::Array(outs))
}

pub fn log(rt: &tokio::runtime::Runtime, case: Value) -> Value {
    let ops: Vec<Value> = case[0].as_array().cloned().unwrap_or_default();
    let d1 = tmp();
    let d2 = tmp();
    let p1: PathBuf = d1.path().join("f");
    let p2: PathBuf = d2.path().join("r");
    let r = rt.block_on(async {
        let f = drive(&ops, &|| {
            let e = FileStorageEngine::new(p1.clone()).map_err(|e| format!("open file engine: {e}"))?;
            let l = e.log_store();
            Ok((e, l))
        })
        .await?;
        let r = drive(&ops, &|| {
            let e = RocksDBStorageEngine::new(p2.clone()).map_err(|e| format!("open rocksdb engine: {e}"))?;
            let l = e.log_store();
            Ok((e, l))
        })
        .await?;
        Ok::<Value, String>(json!([f, r]))
    });
    match r {
        Ok(v) => v,
        Err(e) => Value::String(format!("ERROR {e}")),
    }
}

// ------------------------------------------------------------------ meta store
fn hs_of(v: &Value) -> Option<HardState> {
    let a = v.as_array()?;
    if a.is_empty() {
        return None;
    }
    let vf = a[1].as_array().cloned().unwrap_or_default();
    let voted_for = if vf.is_empty() {
        None
    } else {
        Some(VotedFor { voted_for_id: vf[0].as_u64().unwrap() as u32, voted_for_term: vf[1].as_u64().unwrap(), committed: vf[2].as_u64().unwrap() != 0 })
    };
    Some(HardState { current_term: a[0].as_u64().unwrap(), voted_for })
}
fn hs_json(r: Result<Option<HardState>, String>) -> Value {
    match r {
        Err(_) => json!([9]),
        Ok(None) => json!([]),
        Ok(Some(h)) => match h.voted_for {
            None => json!([h.current_term, []]),
            Some(v) => json!([h.current_term, [v.voted_for_id, v.voted_for_term, if v.committed { 1 } else { 0 }]]),
        },
    }
}
fn copy_dir(from: &Path, to: &Path) {
    std::fs::create_dir_all(to).unwrap();
    for e in std::fs::read_dir(from).unwrap() {
        let e = e.unwrap();
        let p = e.path();
        let q = to.join(e.file_name());
        if p.is_dir() {
            copy_dir(&p, &q);
        } else {
            std::fs::copy(&p, &q).unwrap();
        }
    }
}
fn load_file_engine(dir: &Path) -> Result<Option<HardState>, String> {
    let e = FileStorageEngine::new(dir.to_path_buf()).map_err(|e| e.to_string())?;
    e.meta_store().load_hard_state().map_err(|e| e.to_string())
}
fn load_rocks_engine(dir: &Path) -> Result<Option<HardState>, String> {
    let e = RocksDBStorageEngine::new(dir).map_err(|e| e.to_string())?;
    e.meta_store().load_hard_state().map_err(|e| e.to_string())
}
/// a FileStorageEngine directory whose meta/hard_state.bin holds exactly `content` (None = no such file)
fn load_file_with(content: Option<&[u8]>) -> Value {
    let d = tmp();
    let root = d.path().join("f");
    std::fs::create_dir_all(root.join("meta")).unwrap();
    if let Some(c) = content {
        std::fs::write(root.join("meta").join("hard_state.bin"), c).unwrap();
    }
    hs_json(load_file_engine(&root))
}
/// a FileStorageEngine directory whose meta/ holds hard_state.bin = `main` and hard_state.bin.tmp = `tmpf`
fn load_dir_with(main: Option<&[u8]>, tmpf: Option<&[u8]>) -> Value {
    let d = tmp();
    let root = d.path().join("f");
    std::fs::create_dir_all(root.join("meta")).unwrap();
    if let Some(c) = main {
        std::fs::write(root.join("meta").join("hard_state.bin"), c).unwrap();
    }
    if let Some(c) = tmpf {
        std::fs::write(root.join("meta").join("hard_state.bin.tmp"), c).unwrap();
    }
    hs_json(load_file_engine(&root))
}
fn bytes_json(b: &Option<Vec<u8>>) -> Value {
    match b {
        None => json!([]),
        Some(b) => json!([b.iter().map(|x| *x as u64).collect::<Vec<_>>()]),
    }
}

pub fn meta(_rt: &tokio::runtime::Runtime, case: Value) -> Value {
    if case[0].as_u64() == Some(1) {
        let bytes: Vec<u8> = crate::ints(&case[1]).into_iter().map(|x| x as u8).collect();
        return load_file_with(Some(&bytes));
    }
    let old = hs_of(&case[1]);
    let new = match hs_of(&case[2]) {
        Some(n) => n,
        None => return Value::String("ERROR new hard state missing".into()),
    };
    // ---- File engine
    let d = tmp();
    let root = d.path().join("f");
    let hs_path = root.join("meta").join("hard_state.bin");
    let fe = match FileStorageEngine::new(root.clone()) {
        Ok(e) => e,
        Err(e) => return Value::String(format!("ERROR {e}")),
    };
    let fm = fe.meta_store();
    if let Some(o) = &old {
        if let Err(e) = fm.save_hard_state(o) {
            return Value::String(format!("ERROR {e}"));
        }
    }
    let old_bytes: Option<Vec<u8>> = std::fs::read(&hs_path).ok();
    if let Err(e) = fm.save_hard_state(&new) {
        return Value::String(format!("ERROR {e}"));
    }
    let new_bytes: Vec<u8> = std::fs::read(&hs_path).unwrap_or_default();
    // the store is still open (no graceful shutdown): the files as they are now are what a process crash leaves
    let after = {
        let c = tmp();
        copy_dir(&root, &c.path().join("f"));
        hs_json(load_file_engine(&c.path().join("f")))
    };
    let live = hs_json(fm.load_hard_state().map_err(|e| e.to_string()));
    // crash inside save_to_file (as coded now): File::create(hard_state.bin.tmp), write_all delivers the bytes in
    // order, flush + sync_all, rename(tmp -> hard_state.bin). Crash point cp = number of completed steps:
    //   0: nothing yet; 1+k (k = 0..=len): tmp holds k bytes; len+2: tmp synced; len+3: renamed.
    let n = new_bytes.len();
    let mut at = vec![load_dir_with(old_bytes.as_deref(), None)];
    for k in 0..=n {
        at.push(load_dir_with(old_bytes.as_deref(), Some(&new_bytes[..k])));
    }
    at.push(load_dir_with(old_bytes.as_deref(), Some(&new_bytes[..])));
    at.push(load_dir_with(Some(&new_bytes[..]), None));
    let tmp_left = if root.join("meta").join("hard_state.bin.tmp").exists() { 1 } else { 0 };
    // a left-over temporary file (crash before the rename, here with half of the bytes) must not disturb the next save
    let (rec, rec_tmp_left) = {
        let c = tmp();
        let r2 = c.path().join("f");
        std::fs::create_dir_all(r2.join("meta")).unwrap();
        if let Some(o) = &old_bytes {
            std::fs::write(r2.join("meta").join("hard_state.bin"), o).unwrap();
        }
        std::fs::write(r2.join("meta").join("hard_state.bin.tmp"), &new_bytes[..n / 2]).unwrap();
        let saved = FileStorageEngine::new(r2.clone()).map_err(|e| e.to_string()).and_then(|e| e.meta_store().save_hard_state(&new).map_err(|e| e.to_string()));
        let l = match saved {
            Ok(()) => hs_json(load_file_engine(&r2)),
            Err(_) => json!([9]),
        };
        (l, if r2.join("meta").join("hard_state.bin.tmp").exists() { 1 } else { 0 })
    };
    let file_out = json!([bytes_json(&old_bytes), bytes_json(&Some(new_bytes)), at, after, live, tmp_left, rec, rec_tmp_left]);
    drop(fm);
    drop(fe);
    // ---- RocksDB engine: put_cf is one WAL record; crash = copy of the directory while the DB is still open
    let d2 = tmp();
    let rroot = d2.path().join("r");
    let re = match RocksDBStorageEngine::new(&rroot) {
        Ok(e) => e,
        Err(e) => return Value::String(format!("ERROR {e}")),
    };
    let rm = re.meta_store();
    if let Some(o) = &old {
        if let Err(e) = rm.save_hard_state(o) {
            return Value::String(format!("ERROR {e}"));
        }
    }
    let before = {
        let c = tmp();
        copy_dir(&rroot, &c.path().join("r"));
        hs_json(load_rocks_engine(&c.path().join("r")))
    };
    if let Err(e) = rm.save_hard_state(&new) {
        return Value::String(format!("ERROR {e}"));
    }
    let rafter = {
        let c = tmp();
        copy_dir(&rroot, &c.path().join("r"));
        hs_json(load_rocks_engine(&c.path().join("r")))
    };
    let rlive = hs_json(rm.load_hard_state().map_err(|e| e.to_string()));
    json!([file_out, [before, rafter, rlive]])
}
