(* C21 — proofs over DE.MetaStore: the bincode round trip, every strict prefix of an encoded hard state
   is undecodable, and from these the outcome of a crash at every point of save_hard_state for the
   File and the RocksDB meta store under process-crash and power-loss semantics. *)
From Coq Require Import NArith Arith List Bool Lia.
From DE Require Import Val MetaStore.
Import ListNotations.
Open Scope N_scope.

(* ---------- bincode ---------- *)
Lemma of_le_bytes : forall k n, of_le (le_bytes k n) = n mod 256 ^ N.of_nat k.
Proof.
  induction k as [|k IH]; intros n.
  - cbn [le_bytes of_le]. change (N.of_nat 0) with 0. rewrite N.pow_0_r, N.mod_1_r. reflexivity.
  - cbn [le_bytes of_le]. rewrite IH.
    replace (N.of_nat (S k)) with (N.succ (N.of_nat k)) by lia.
    rewrite N.pow_succ_r by lia.
    rewrite N.mod_mul_r; [reflexivity|lia|].
    apply N.pow_nonzero. lia.
Qed.

Lemma of_le_bytes_small : forall k n, n < 256 ^ N.of_nat k -> of_le (le_bytes k n) = n.
Proof. intros k n H. rewrite of_le_bytes. apply N.mod_small. assumption. Qed.

Lemma decode_encode : forall h, wf_hs h -> decode (encode h) = Some h.
Proof.
  intros [t [[i vt c]|]] [Ht Hv]; cbn [h_term h_vote v_id v_term] in *.
  - destruct Hv as [Hi Hvt].
    unfold encode. cbn [h_term h_vote v_id v_term v_committed le_bytes app]. cbn [decode].
    change (1 =? 0) with false. change (1 =? 1) with true. cbn iota.
    pose proof (of_le_bytes_small 8 t Ht) as E1. cbn [le_bytes] in E1.
    pose proof (of_le_bytes_small 4 i Hi) as E2. cbn [le_bytes] in E2.
    pose proof (of_le_bytes_small 8 vt Hvt) as E3. cbn [le_bytes] in E3.
    destruct c.
    + change (1 =? 0) with false. change (1 =? 1) with true. cbn iota. rewrite E1, E2, E3. reflexivity.
    + change (0 =? 0) with true. cbn iota. rewrite E1, E2, E3. reflexivity.
  - unfold encode. cbn [h_term h_vote le_bytes app]. cbn [decode].
    change (0 =? 0) with true. cbn iota.
    pose proof (of_le_bytes_small 8 t Ht) as E1. cbn [le_bytes] in E1. rewrite E1. reflexivity.
Qed.

Lemma encode_length : forall h, length (encode h) = match h_vote h with None => 9%nat | Some _ => 22%nat end.
Proof. intros [t [[i vt c]|]]; reflexivity. Qed.

(* a torn write never looks like a value: every strict prefix is rejected by bincode *)
Lemma decode_prefix : forall h k, (k < length (encode h))%nat -> decode (firstn k (encode h)) = None.
Proof.
  intros [t [[i vt c]|]] k Hk; rewrite encode_length in Hk; cbn [h_vote] in Hk;
    unfold encode; cbn [h_term h_vote v_id v_term v_committed le_bytes app].
  - do 22 (destruct k as [|k]; [reflexivity|]). lia.
  - do 9 (destruct k as [|k]; [reflexivity|]). lia.
Qed.

(* ---------- RocksDB ---------- *)
Theorem rmeta_process_crash : forall w new cp, wf_hs new ->
  k_outcomes Process (k_save_crash w new cp) =
  [ match cp with O => f_load (kw_mem w) | S _ => Some new end ].
Proof.
  intros w new cp Hn. destruct cp as [|k]; cbn [k_save_crash k_outcomes kw_mem f_load]; [reflexivity|].
  rewrite decode_encode by assumption. reflexivity.
Qed.

Theorem rmeta_power_loss_synced : forall w old new cp, wf_hs old -> wf_hs new ->
  kw_unsynced w = [Some (encode old)] ->
  forall o, In o (k_outcomes Power (k_save_crash w new cp)) -> o = Some old \/ o = Some new.
Proof.
  intros w old new cp Ho Hn Hw o Hin. destruct cp as [|k]; cbn [k_save_crash k_outcomes kw_unsynced] in Hin.
  - rewrite Hw in Hin. cbn [map f_load] in Hin. rewrite decode_encode in Hin by assumption.
    destruct Hin as [H|[]]. left. symmetry. assumption.
  - rewrite Hw in Hin. cbn [map app f_load] in Hin. rewrite !decode_encode in Hin by assumption.
    destruct Hin as [H|[H|[]]]; [left|right]; symmetry; assumption.
Qed.

(* whatever was saved before, a put is never torn: the outcome of any crash is a value that was saved
   (or the initial absence), never an undecodable one *)
Definition saved_or_initial (saves : list hs) (o : option hs) : Prop := o = None \/ exists h, In h saves /\ o = Some h.

Theorem rmeta_never_undecodable : forall saves m, Forall wf_hs saves ->
  forall o, In o (k_outcomes m (fold_left k_save saves kw0)) -> saved_or_initial saves o.
Proof.
  intros saves m Hwf.
  assert (H : forall w done, Forall wf_hs saves ->
            (forall c, In c (kw_mem w :: kw_unsynced w) -> saved_or_initial done (f_load c)) ->
            forall c, In c (kw_mem (fold_left k_save saves w) :: kw_unsynced (fold_left k_save saves w)) ->
                      saved_or_initial (done ++ saves) (f_load c)).
  { clear Hwf. induction saves as [|h saves IH]; intros w done Hwf Hw c Hc; cbn [fold_left] in Hc.
    - rewrite app_nil_r. apply Hw. assumption.
    - inversion Hwf as [|? ? Hh Hrest]; subst.
      replace (done ++ h :: saves) with ((done ++ [h]) ++ saves) by (rewrite <- app_assoc; reflexivity).
      apply (IH (k_save w h) (done ++ [h]) Hrest); [|assumption].
      intros c' Hc'. unfold k_save, k_save_crash in Hc'. cbn [kw_mem kw_unsynced] in Hc'.
      assert (Hnew : saved_or_initial (done ++ [h]) (f_load (Some (encode h)))).
      { right. exists h. split; [apply in_or_app; right; left; reflexivity|]. cbn [f_load]. apply decode_encode. assumption. }
      destruct Hc' as [Hc'|Hc']; [subst c'; exact Hnew|].
      apply in_app_or in Hc'. destruct Hc' as [Hc'|[Hc'|[]]]; [|subst c'; exact Hnew].
      destruct (Hw c' (or_intror Hc')) as [Hn|[h' [Hin Hh']]]; [left; assumption|].
      right. exists h'. split; [apply in_or_app; left; assumption|assumption]. }
  intros o Hin.
  specialize (H kw0 [] Hwf).
  assert (H0 : forall c, In c (kw_mem kw0 :: kw_unsynced kw0) -> saved_or_initial [] (f_load c)).
  { intros c [Hc|[Hc|[]]]; subst c; left; reflexivity. }
  specialize (H H0). cbn [app] in H.
  destruct m; cbn [k_outcomes] in Hin.
  - destruct Hin as [Hin|[]]. subst o. apply H. left. reflexivity.
  - apply in_map_iff in Hin. destruct Hin as [c [Hc Hin]]. subst o. apply H. right. assumption.
Qed.

(* ---------- File (current code: temporary file, sync, rename) ---------- *)
(* the File save seen as a RocksDB-like atomic put: OS view of hard_state.bin + candidates after power loss *)
Definition f2k (w : fworld) : kworld := {| kw_mem := fw_main w; kw_unsynced := fw_disk w |}.

Definition tmp_step (s : fstep) : Prop :=
  match s with SCreateTmp | SWriteTmp _ | SSyncTmp => True | _ => False end.

Lemma tmp_steps_keep_main : forall steps w, Forall tmp_step steps ->
  f2k (fold_left exec steps w) = f2k w.
Proof.
  induction steps as [|s steps IH]; intros w H; cbn [fold_left]; [reflexivity|].
  inversion H as [|? ? Hs Hr]; subst. rewrite IH by assumption.
  destruct s; cbn [tmp_step] in Hs; try contradiction; cbn [exec]; destruct (fw_tmp w); reflexivity.
Qed.

Lemma Forall_firstn_ : forall (A : Type) (P : A -> Prop) (l : list A) n, Forall P l -> Forall P (firstn n l).
Proof.
  intros A P l. induction l as [|a l IH]; intros n H; destruct n; cbn [firstn]; try constructor.
  - inversion H; assumption.
  - apply IH. inversion H; assumption.
Qed.

Definition pre_v2 (bs : list N) : list fstep := SCreateTmp :: map SWriteTmp bs ++ [SSyncTmp].
Lemma prog_v2_split : forall bs, prog_v2 bs = pre_v2 bs ++ [SRename].
Proof. intros. unfold prog_v2, pre_v2. cbn [app]. rewrite <- app_assoc. reflexivity. Qed.
Lemma pre_v2_length : forall bs, length (pre_v2 bs) = (length bs + 2)%nat.
Proof. intros. unfold pre_v2. cbn [length]. rewrite app_length, map_length. cbn [length]. lia. Qed.
Lemma pre_v2_tmp : forall bs, Forall tmp_step (pre_v2 bs).
Proof.
  intros. unfold pre_v2. constructor; [exact I|]. apply Forall_app. split.
  - apply Forall_forall. intros s Hs. apply in_map_iff in Hs. destruct Hs as [b [Hb _]]. subst s. exact I.
  - constructor; [exact I|constructor].
Qed.

Lemma writes_tmp : forall bs w i, fw_tmp w = Some i ->
  exists d, fw_tmp (fold_left exec (map SWriteTmp bs) w) = Some {| i_cache := i_cache i ++ bs; i_dur := d |}.
Proof.
  induction bs as [|b bs IH]; intros w i Hw; cbn [map fold_left].
  - exists (i_dur i). rewrite app_nil_r. destruct i; assumption.
  - destruct (IH (exec w (SWriteTmp b)) {| i_cache := i_cache i ++ [b]; i_dur := i_dur i ++ [i_cache i ++ [b]] |}) as [d Hd].
    + cbn [exec]. rewrite Hw. reflexivity.
    + exists d. rewrite Hd. cbn [i_cache]. rewrite <- app_assoc. reflexivity.
Qed.

(* after create, write_all and sync_all the temporary inode holds exactly the value, durably *)
Lemma pre_v2_tmp_content : forall bs w,
  fw_tmp (fold_left exec (pre_v2 bs) w) = Some {| i_cache := bs; i_dur := [bs] |}.
Proof.
  intros bs w. unfold pre_v2. cbn [fold_left]. rewrite fold_left_app. cbn [fold_left].
  destruct (writes_tmp bs (exec w SCreateTmp) {| i_cache := []; i_dur := match fw_tmp w with Some i => i_dur i ++ [[]] | None => [[]] end |} eq_refl) as [d Hd].
  cbn [exec]. cbn [exec] in Hd. rewrite Hd. reflexivity.
Qed.

(* THE refinement: a crash after cp steps of the current save_to_file is a crash before (cp < len+3) or
   after (cp >= len+3) one atomic put; the commit point is the rename *)
Lemma f_crash_as_put : forall w h cp,
  f2k (f_save_crash w h cp) =
  k_save_crash (f2k w) h (if (cp <? length (encode h) + 3)%nat then 0%nat else 1%nat).
Proof.
  intros w h cp. unfold f_save_crash. rewrite prog_v2_split.
  destruct (Nat.ltb_spec cp (length (encode h) + 3)) as [Hlt|Hge].
  - rewrite firstn_app. rewrite pre_v2_length.
    replace (cp - (length (encode h) + 2))%nat with 0%nat by lia. cbn [firstn]. rewrite app_nil_r.
    cbn [k_save_crash]. apply tmp_steps_keep_main. apply Forall_firstn_. apply pre_v2_tmp.
  - rewrite firstn_all2 by (rewrite app_length, pre_v2_length; cbn [length]; lia).
    rewrite fold_left_app.
    pose proof (pre_v2_tmp_content (encode h) w) as Ht.
    pose proof (tmp_steps_keep_main (pre_v2 (encode h)) w (pre_v2_tmp _)) as Hk.
    set (w1 := fold_left exec (pre_v2 (encode h)) w) in *.
    change (fold_left exec [SRename] w1) with (exec w1 SRename).
    cbn [exec]. rewrite Ht. unfold f2k in *. cbn [fw_main fw_disk i_cache i_dur map k_save_crash kw_mem kw_unsynced].
    injection Hk as Hm Hd. rewrite Hd. reflexivity.
Qed.

Lemma f_save_as_put : forall w h, f2k (f_save w h) = k_save (f2k w) h.
Proof.
  intros w h. pose proof (f_crash_as_put w h (length (encode h) + 3)) as H.
  unfold f_save_crash in H. rewrite firstn_all2 in H by (rewrite prog_v2_split, app_length, pre_v2_length; cbn [length]; lia).
  destruct (Nat.ltb_spec (length (encode h) + 3) (length (encode h) + 3)) as [Hlt|_]; [lia|]. exact H.
Qed.

Lemma f_outcomes_f2k : forall m w, f_outcomes m w = k_outcomes m (f2k w).
Proof. intros [|] w; reflexivity. Qed.

(* process crash: at EVERY crash point the restart loads what was loaded before the save, or the new value *)
Theorem fmeta_process_crash : forall w new cp, wf_hs new ->
  f_outcomes Process (f_save_crash w new cp) =
  [ if (cp <? length (encode new) + 3)%nat then f_load (fw_main w) else Some new ].
Proof.
  intros w new cp Hn. rewrite f_outcomes_f2k, f_crash_as_put, rmeta_process_crash by assumption.
  destruct (cp <? length (encode new) + 3)%nat; reflexivity.
Qed.

Corollary fmeta_old_or_new : forall w old new cp, wf_hs old -> wf_hs new -> fw_main w = Some (encode old) ->
  forall o, In o (f_outcomes Process (f_save_crash w new cp)) -> o = Some old \/ o = Some new.
Proof.
  intros w old new cp Ho Hn Hw o Hin. rewrite fmeta_process_crash in Hin by assumption.
  destruct Hin as [Hin|[]]. subst o. destruct (cp <? length (encode new) + 3)%nat; [left|right; reflexivity].
  rewrite Hw. cbn [f_load]. apply decode_encode. assumption.
Qed.

Corollary fmeta_saved_survives_process_crash : forall w new, wf_hs new ->
  f_outcomes Process (f_save w new) = [Some new].
Proof.
  intros w new Hn. rewrite f_outcomes_f2k, f_save_as_put. unfold k_save.
  rewrite rmeta_process_crash by assumption. reflexivity.
Qed.

(* power loss: old-or-new needs the directory entry of the previous save to be durable (a directory fsync,
   which FileMetaStore never issues) *)
Theorem fmeta_power_loss_synced : forall w old new cp, wf_hs old -> wf_hs new ->
  fw_disk w = [Some (encode old)] ->
  forall o, In o (f_outcomes Power (f_save_crash w new cp)) -> o = Some old \/ o = Some new.
Proof.
  intros w old new cp Ho Hn Hw o Hin. rewrite f_outcomes_f2k, f_crash_as_put in Hin.
  apply (rmeta_power_loss_synced (f2k w) old new _ Ho Hn Hw o Hin).
Qed.

Lemma f_saves_as_puts : forall saves w, f2k (fold_left f_save saves w) = fold_left k_save saves (f2k w).
Proof.
  induction saves as [|h saves IH]; intros w; cbn [fold_left]; [reflexivity|].
  rewrite IH, f_save_as_put. reflexivity.
Qed.

(* whatever the crash mode and the crash point: the loaded state is a saved one or the initial absence,
   never a torn, undecodable or invented one *)
Theorem fmeta_never_undecodable : forall saves new cp m, Forall wf_hs saves -> wf_hs new ->
  forall o, In o (f_outcomes m (f_save_crash (fold_left f_save saves fw0) new cp)) ->
    saved_or_initial (saves ++ [new]) o.
Proof.
  intros saves new cp m Hs Hn o Hin.
  rewrite f_outcomes_f2k, f_crash_as_put, f_saves_as_puts in Hin. change (f2k fw0) with kw0 in Hin.
  destruct (cp <? length (encode new) + 3)%nat.
  - cbn [k_save_crash] in Hin. destruct (rmeta_never_undecodable saves m Hs o Hin) as [H|[h [Hh Ho]]]; [left; assumption|].
    right. exists h. split; [apply in_or_app; left; assumption|assumption].
  - change (k_save_crash (fold_left k_save saves kw0) new 1) with (k_save (fold_left k_save saves kw0) new) in Hin.
    replace (k_save (fold_left k_save saves kw0) new) with (fold_left k_save (saves ++ [new]) kw0) in Hin
      by (rewrite fold_left_app; reflexivity).
    apply (rmeta_never_undecodable (saves ++ [new]) m); [|assumption].
    apply Forall_app. split; [assumption|constructor; [assumption|constructor]].
Qed.

(* ---------- File, HISTORY: the variant before the fix (truncate the live file, write, no sync) ---------- *)
Lemma writes_main : forall bs w c, fw_main w = Some c ->
  fw_main (fold_left exec (map SWriteMain bs) w) = Some (c ++ bs).
Proof.
  induction bs as [|b bs IH]; intros w c Hw; cbn [map fold_left]; [rewrite app_nil_r; assumption|].
  rewrite (IH _ (c ++ [b])); [rewrite <- app_assoc; reflexivity|]. cbn [exec fw_main]. rewrite Hw. reflexivity.
Qed.

Theorem history_v1_atomic_refuted : forall w new cp, (1 <= cp <= length (encode new))%nat ->
  f_outcomes Process (f_save_crash_v1 w new cp) = [None].
Proof.
  intros w new cp Hcp. destruct cp as [|k]; [lia|].
  unfold f_save_crash_v1, prog_v1. cbn [firstn fold_left f_outcomes]. rewrite firstn_map.
  rewrite (writes_main _ _ []) by reflexivity. cbn [app f_load]. rewrite decode_prefix by lia. reflexivity.
Qed.

Theorem history_v1_saved_survives : forall w new, wf_hs new -> f_outcomes Process (f_save_v1 w new) = [Some new].
Proof.
  intros w new Hn. unfold f_save_v1, prog_v1. cbn [fold_left f_outcomes].
  rewrite (writes_main _ _ []) by reflexivity. cbn [app f_load]. rewrite decode_encode by assumption. reflexivity.
Qed.

(* ---------- non-vacuity and witnesses ---------- *)
Definition hA : hs := {| h_term := 3; h_vote := Some {| v_id := 2; v_term := 3; v_committed := true |} |}.
Definition hB : hs := {| h_term := 4; h_vote := None |}.
Definition hC : hs := {| h_term := 5; h_vote := Some {| v_id := 1; v_term := 5; v_committed := false |} |}.
Lemma wf_A : wf_hs hA. Proof. unfold wf_hs, hA; cbn; lia. Qed.
Lemma wf_B : wf_hs hB. Proof. unfold wf_hs, hB; cbn; lia. Qed.
Lemma wf_C : wf_hs hC. Proof. unfold wf_hs, hC; cbn; lia. Qed.

(* all 13 crash points of saving hB (9 bytes) over hA: old until the rename, new after it *)
Example file_crash_points_example :
  map (fun cp => f_outcomes Process (f_save_crash (f_save fw0 hA) hB cp)) (seq 0 14)
  = repeat [Some hA] 12 ++ [[Some hB]; [Some hB]].
Proof. vm_compute. reflexivity. Qed.

Example file_world_example :
  fw_main (f_save fw0 hA) = Some (encode hA) /\ fw_tmp (f_save fw0 hA) = None /\
  fw_disk (f_save fw0 hA) = [None; Some (encode hA)] /\ length (encode hA) = 22%nat.
Proof. vm_compute. repeat split. Qed.

(* HISTORY: the same save with the previous variant of the code *)
Example history_v1_crash_points_example :
  map (fun cp => f_outcomes Process (f_save_crash_v1 (f_save fw0 hA) hB cp)) (seq 0 11)
  = [[Some hA]; [None]; [None]; [None]; [None]; [None]; [None]; [None]; [None]; [None]; [Some hB]].
Proof. vm_compute. reflexivity. Qed.

Example rocks_synced_example :
  kw_unsynced (k_flush (k_save kw0 hA)) = [Some (encode hA)] /\
  k_outcomes Power (k_save (k_flush (k_save kw0 hA)) hB) = [Some hA; Some hB].
Proof. vm_compute. split; reflexivity. Qed.

(* without a WAL sync between saves, a power loss can return a state older than the previous one *)
Lemma rmeta_power_loss_unsynced_refuted :
  In (Some hA) (k_outcomes Power (k_save (k_save (k_save (k_flush kw0) hA) hB) hC)) /\
  In None (k_outcomes Power (k_save (k_save (k_save (k_flush kw0) hA) hB) hC)) /\
  Some hA <> Some hB /\ Some hA <> Some hC.
Proof. vm_compute. repeat split; try (intro H; discriminate); tauto. Qed.

(* the same for the File store: the renames are never made durable by a directory fsync, so after save
   returned a power loss can bring back an older state, or none *)
Lemma fmeta_power_loss_unsynced_refuted :
  f_outcomes Power (f_save (f_save (f_save fw0 hA) hB) hC) = [None; Some hA; Some hB; Some hC].
Proof. vm_compute. reflexivity. Qed.
