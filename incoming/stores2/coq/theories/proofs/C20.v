(* C20 — proofs: FileLogStore and RocksDBLogStore (as coded, DE.Store) refine the reference store on the
   class good_f / good_k of operation sequences, live and after reopen; replace_range is one step of the
   reference for every state and input; witnesses for each way the engines leave the reference outside
   the class. *)
From Coq Require Import NArith List Bool Lia Sorted.
From DE Require Import Val BufLog Store.
Import ListNotations.
Open Scope N_scope.

Definition ilt (a b : entry) : Prop := e_idx a < e_idx b.
Definition sorted (l : list entry) : Prop := StronglySorted ilt l.

(* ---------- lists sorted by index ---------- *)
Lemma ins1_append : forall l e, Forall (fun x => e_idx x < e_idx e) l -> ins1 l e = l ++ [e].
Proof.
  induction l as [|x l IH]; intros e H; cbn [ins1 app]; [reflexivity|].
  inversion H as [|? ? Hx Hl]; subst.
  destruct (N.ltb_spec (e_idx e) (e_idx x)) as [Hlt|Hge]; [lia|].
  destruct (N.eqb_spec (e_idx e) (e_idx x)) as [Heq|Hne]; [lia|].
  rewrite IH by assumption. reflexivity.
Qed.

Lemma pins_append : forall m k v, Forall (fun kv => fst kv < k) m -> pins m k v = m ++ [(k, v)].
Proof.
  induction m as [|[k' v'] m IH]; intros k v H; cbn [pins app]; [reflexivity|].
  inversion H as [|? ? Hx Hl]; subst. cbn [fst] in Hx.
  destruct (N.ltb_spec k k') as [Hlt|Hge]; [lia|].
  destruct (N.eqb_spec k k') as [Heq|Hne]; [lia|].
  rewrite IH by assumption. reflexivity.
Qed.

Lemma maxkey_app : forall l r, maxkey (l ++ r) = N.max (maxkey l) (maxkey r).
Proof. induction l as [|x l IH]; intros r; cbn [maxkey app]; [lia|]. rewrite IH. lia. Qed.

Lemma maxkey_ge : forall l x, In x l -> e_idx x <= maxkey l.
Proof.
  induction l as [|y l IH]; intros x Hin; [contradiction|]. cbn [maxkey].
  destruct Hin as [Heq|Hin]; [subst; lia|]. specialize (IH x Hin). lia.
Qed.

Lemma maxkey_lt_all : forall l k, maxkey l < k -> Forall (fun x => e_idx x < k) l.
Proof.
  intros l k H. apply Forall_forall. intros x Hin. pose proof (maxkey_ge l x Hin). lia.
Qed.

Lemma sorted_app : forall l r, sorted l -> sorted r ->
  (forall x y, In x l -> In y r -> ilt x y) -> sorted (l ++ r).
Proof.
  induction l as [|a l IH]; intros r Hl Hr Hx; cbn [app]; [assumption|].
  apply StronglySorted_inv in Hl. destruct Hl as [Hl Ha].
  apply SSorted_cons.
  - apply IH; [assumption|assumption|]. intros x y Hi Hj. apply Hx; [right; assumption|assumption].
  - apply Forall_app. split; [assumption|]. apply Forall_forall. intros y Hy. apply Hx; [left; reflexivity|assumption].
Qed.

Lemma sorted_filter : forall p l, sorted l -> sorted (filter p l).
Proof.
  intros p l H. induction H as [|a l Hl IH Ha]; cbn [filter]; [constructor|].
  destruct (p a); [|assumption].
  apply SSorted_cons; [assumption|].
  apply Forall_forall. intros x Hx. apply filter_In in Hx. destruct Hx as [Hx _].
  rewrite Forall_forall in Ha. apply Ha. assumption.
Qed.

Lemma sorted_app_lt : forall l e r, sorted (l ++ e :: r) -> Forall (fun x => e_idx x < e_idx e) l.
Proof.
  induction l as [|a l IH]; intros e r H; [constructor|].
  cbn [app] in H. apply StronglySorted_inv in H. destruct H as [Hl Ha].
  constructor.
  - rewrite Forall_forall in Ha. apply (Ha e). apply in_or_app. right. left. reflexivity.
  - apply (IH e r). assumption.
Qed.

(* ---------- batches of the class ---------- *)
Lemma incr_sorted : forall es m, incr_above m es = true ->
  sorted es /\ Forall (fun x => m < e_idx x) es.
Proof.
  induction es as [|e es IH]; intros m H; [split; constructor|].
  cbn [incr_above] in H. apply andb_prop in H. destruct H as [Hm Hr].
  apply N.ltb_lt in Hm. destruct (IH _ Hr) as [Hs Hf].
  split.
  - apply SSorted_cons; [assumption|]. exact Hf.
  - constructor; [assumption|]. apply Forall_forall. intros x Hx. rewrite Forall_forall in Hf.
    specialize (Hf x Hx). lia.
Qed.

Lemma incr_app_sorted : forall l es, sorted l -> incr_above (maxkey l) es = true -> sorted (l ++ es).
Proof.
  intros l es Hl H. destruct (incr_sorted _ _ H) as [Hs Hf].
  apply sorted_app; [assumption|assumption|].
  intros x y Hx Hy. unfold ilt. rewrite Forall_forall in Hf. specialize (Hf y Hy).
  pose proof (maxkey_ge l x Hx). lia.
Qed.

Lemma ins_all_append : forall es l, incr_above (maxkey l) es = true -> ins_all l es = l ++ es.
Proof.
  unfold ins_all. induction es as [|e es IH]; intros l H; cbn [fold_left]; [rewrite app_nil_r; reflexivity|].
  cbn [incr_above] in H. apply andb_prop in H. destruct H as [Hm Hr]. apply N.ltb_lt in Hm.
  rewrite ins1_append by (apply maxkey_lt_all; assumption).
  rewrite IH.
  - rewrite <- app_assoc. reflexivity.
  - rewrite maxkey_app. cbn [maxkey]. replace (N.max (maxkey l) (N.max (e_idx e) 0)) with (e_idx e) by lia. assumption.
Qed.

Lemma incr_maxkey : forall es m, es <> [] -> incr_above m es = true -> N.max m (maxkey es) = maxkey es.
Proof.
  intros [|e es] m Hne H; [contradiction|]. cbn [incr_above] in H. apply andb_prop in H.
  destruct H as [Hm _]. apply N.ltb_lt in Hm. cbn [maxkey]. lia.
Qed.

(* ---------- arbitrary batches: the map keeps its order and its largest key is the max ---------- *)
Lemma maxkey_ins1 : forall l e, maxkey (ins1 l e) = N.max (maxkey l) (e_idx e).
Proof.
  induction l as [|x l IH]; intros e; cbn [ins1 maxkey]; [lia|].
  destruct (N.ltb_spec (e_idx e) (e_idx x)) as [Hlt|Hge]; [cbn [maxkey]; lia|].
  destruct (N.eqb_spec (e_idx e) (e_idx x)) as [Heq|Hne]; cbn [maxkey]; [lia|]. rewrite IH. lia.
Qed.

Lemma maxkey_ins_all : forall es l, maxkey (ins_all l es) = N.max (maxkey l) (maxkey es).
Proof.
  unfold ins_all. induction es as [|e es IH]; intros l; cbn [fold_left maxkey]; [lia|].
  rewrite IH, maxkey_ins1. lia.
Qed.

Lemma ins1_in : forall l e y, In y (ins1 l e) -> y = e \/ In y l.
Proof.
  induction l as [|x l IH]; intros e y H; cbn [ins1] in H.
  - destruct H as [H|[]]. left. symmetry. assumption.
  - destruct (e_idx e <? e_idx x).
    + destruct H as [H|H]; [left; symmetry; assumption|right; assumption].
    + destruct (e_idx e =? e_idx x).
      * destruct H as [H|H]; [left; symmetry; assumption|right; right; assumption].
      * destruct H as [H|H]; [right; left; assumption|].
        destruct (IH e y H) as [H1|H1]; [left; assumption|right; right; assumption].
Qed.

Lemma ins1_sorted : forall l e, sorted l -> sorted (ins1 l e).
Proof.
  induction l as [|x l IH]; intros e Hs; cbn [ins1]; [repeat constructor|].
  pose proof Hs as Hs0. apply StronglySorted_inv in Hs. destruct Hs as [Hl Hx].
  destruct (N.ltb_spec (e_idx e) (e_idx x)) as [Hlt|Hge].
  - apply SSorted_cons; [assumption|]. constructor; [exact Hlt|].
    apply Forall_forall. intros y Hy. rewrite Forall_forall in Hx. specialize (Hx y Hy). unfold ilt in *. lia.
  - destruct (N.eqb_spec (e_idx e) (e_idx x)) as [Heq|Hne].
    + apply SSorted_cons; [assumption|].
      apply Forall_forall. intros y Hy. rewrite Forall_forall in Hx. specialize (Hx y Hy). unfold ilt in *. lia.
    + apply SSorted_cons; [apply IH; assumption|].
      apply Forall_forall. intros y Hy. destruct (ins1_in l e y Hy) as [H1|H1].
      * subst y. unfold ilt. lia.
      * rewrite Forall_forall in Hx. apply Hx. assumption.
Qed.

Lemma ins_all_sorted : forall es l, sorted l -> sorted (ins_all l es).
Proof.
  unfold ins_all. induction es as [|e es IH]; intros l Hs; cbn [fold_left]; [assumption|].
  apply IH. apply ins1_sorted. assumption.
Qed.

(* ---------- the File engine on sorted content ---------- *)
Definition f_of' (l : list entry) (x : N) : fstore :=
  {| f_ents := l; f_file := map SRec l; f_pos := numbered 0 l; f_last := x |}.
Definition f_of (l : list entry) : fstore := f_of' l (maxkey l).

Lemma numbered_app : forall l r b, numbered b (l ++ r) = numbered b l ++ numbered (b + N.of_nat (length l)) r.
Proof.
  induction l as [|a l IH]; intros r b; cbn [numbered app length].
  - replace (b + N.of_nat 0) with b by lia. reflexivity.
  - rewrite IH. replace (b + 1 + N.of_nat (length l)) with (b + N.of_nat (S (length l))) by lia. reflexivity.
Qed.

Lemma numbered_keys_lt : forall l b k, Forall (fun x => e_idx x < k) l -> Forall (fun kv => fst kv < k) (numbered b l).
Proof.
  induction l as [|a l IH]; intros b k H; cbn [numbered]; [constructor|].
  inversion H as [|? ? Ha Hl]; subst. constructor; [exact Ha|]. apply IH. assumption.
Qed.

Lemma f_write1_of : forall l x e, Forall (fun y => e_idx y < e_idx e) l ->
  f_write1 (f_of' l x) e = f_of' (l ++ [e]) x.
Proof.
  intros l x e H. unfold f_write1, f_of'. cbn [f_ents f_file f_pos f_last].
  rewrite ins1_append by assumption.
  rewrite pins_append by (apply numbered_keys_lt; assumption).
  rewrite map_app, numbered_app. cbn [map numbered].
  unfold flen. rewrite app_length, map_length. cbn [length].
  replace (N.of_nat (length l + 1)) with (0 + N.of_nat (length l) + 1) by lia. reflexivity.
Qed.

Lemma f_write_fold : forall es l x, incr_above (maxkey l) es = true ->
  fold_left f_write1 es (f_of' l x) = f_of' (l ++ es) x.
Proof.
  induction es as [|e es IH]; intros l x H; cbn [fold_left]; [rewrite app_nil_r; reflexivity|].
  cbn [incr_above] in H. apply andb_prop in H. destruct H as [Hm Hr]. apply N.ltb_lt in Hm.
  rewrite f_write1_of by (apply maxkey_lt_all; assumption).
  rewrite IH.
  - rewrite <- app_assoc. reflexivity.
  - rewrite maxkey_app. cbn [maxkey]. replace (N.max (maxkey l) (N.max (e_idx e) 0)) with (e_idx e) by lia. assumption.
Qed.

(* in a sorted list, nothing below [from] follows an entry at or above [from] *)
Lemma del_ge_nil : forall from l, Forall (fun x => from <= e_idx x) l -> del_ge from l = [].
Proof.
  intros from l H. unfold del_ge. induction H as [|a l Ha Hl IH]; cbn [filter]; [reflexivity|].
  destruct (N.ltb_spec (e_idx a) from) as [Hlt|Hge]; [lia|]. exact IH.
Qed.

Lemma sorted_tail_ge : forall from a l, sorted (a :: l) -> from <= e_idx a -> Forall (fun x => from <= e_idx x) l.
Proof.
  intros from a l H Hge. apply StronglySorted_inv in H. destruct H as [_ Ha].
  apply Forall_forall. intros x Hx. rewrite Forall_forall in Ha. specialize (Ha x Hx). unfold ilt in Ha. lia.
Qed.

Definition epb_f (from : N) := fun (acc : N) (kv : N * N) => if fst kv <? from then snd kv else acc.

Lemma epb_none : forall from l b acc, Forall (fun x => from <= e_idx x) l ->
  fold_left (epb_f from) (numbered b l) acc = acc.
Proof.
  intros from l. induction l as [|a l IH]; intros b acc H; cbn [numbered fold_left]; [reflexivity|].
  inversion H as [|? ? Ha Hl]; subst. unfold epb_f at 2. cbn [fst snd].
  destruct (N.ltb_spec (e_idx a) from) as [Hlt|Hge]; [lia|]. apply IH. assumption.
Qed.

Lemma epb_sorted : forall from l b, sorted l ->
  fold_left (epb_f from) (numbered b l) b = b + N.of_nat (length (del_ge from l)).
Proof.
  intros from l. induction l as [|a l IH]; intros b Hs; cbn [numbered fold_left].
  - cbn. lia.
  - unfold epb_f at 2. cbn [fst snd]. unfold del_ge. cbn [filter]. fold (del_ge from l).
    destruct (N.ltb_spec (e_idx a) from) as [Hlt|Hge].
    + rewrite IH by (apply StronglySorted_inv in Hs; tauto). cbn [length]. lia.
    + pose proof (sorted_tail_ge from a l Hs Hge) as Hall.
      rewrite epb_none by assumption. rewrite del_ge_nil by assumption. cbn [length]. lia.
Qed.

Lemma del_ge_prefix : forall from l, sorted l -> firstn (length (del_ge from l)) l = del_ge from l.
Proof.
  intros from l. induction l as [|a l IH]; intros Hs; [reflexivity|].
  unfold del_ge. cbn [filter]. fold (del_ge from l).
  destruct (N.ltb_spec (e_idx a) from) as [Hlt|Hge].
  - cbn [length firstn]. rewrite IH by (apply StronglySorted_inv in Hs; tauto). reflexivity.
  - rewrite (del_ge_nil from l) by (eapply sorted_tail_ge; eassumption). reflexivity.
Qed.

Lemma pos_filter : forall from l b, sorted l ->
  filter (fun kv => fst kv <? from) (numbered b l) = numbered b (del_ge from l).
Proof.
  intros from l. induction l as [|a l IH]; intros b Hs; [reflexivity|].
  cbn [numbered filter fst]. unfold del_ge. cbn [filter]. fold (del_ge from l).
  destruct (N.ltb_spec (e_idx a) from) as [Hlt|Hge].
  - cbn [numbered]. rewrite IH by (apply StronglySorted_inv in Hs; tauto). reflexivity.
  - pose proof (sorted_tail_ge from a l Hs Hge) as Hall.
    rewrite (del_ge_nil from l) by assumption. cbn [numbered].
    clear IH Hs. revert b. induction Hall as [|c l Hc Hl IH]; intros b; cbn [numbered filter fst]; [reflexivity|].
    destruct (N.ltb_spec (e_idx c) from) as [Hlt|Hge2]; [lia|]. apply IH.
Qed.

Lemma del_ge_length_le : forall from l, (length (del_ge from l) <= length l)%nat.
Proof.
  intros from l. unfold del_ge. induction l as [|a l IH]; cbn [filter length]; [lia|].
  destruct (e_idx a <? from); cbn [length]; lia.
Qed.

Lemma f_cut_of : forall l x from, sorted l -> f_cut (f_of' l x) from = f_of' (del_ge from l) x.
Proof.
  intros l x from Hs. unfold f_cut, f_of'. cbn [f_ents f_file f_pos f_last].
  rewrite pos_filter by assumption.
  unfold end_pos_before. change (fun (acc : N) (kv : N * N) => if fst kv <? from then snd kv else acc) with (epb_f from).
  rewrite epb_sorted by assumption.
  unfold set_len, flen. rewrite map_length.
  pose proof (del_ge_length_le from l) as Hle.
  destruct (N.leb_spec (0 + N.of_nat (length (del_ge from l))) (N.of_nat (length l))) as [_|Hgt]; [|lia].
  replace (N.to_nat (0 + N.of_nat (length (del_ge from l)))) with (length (del_ge from l)) by lia.
  rewrite firstn_map. rewrite del_ge_prefix by assumption. reflexivity.
Qed.

Lemma load_fold : forall r l, sorted (l ++ r) ->
  fold_left load_slot (map SRec r) (l, numbered 0 l, maxkey l, N.of_nat (length l))
  = (l ++ r, numbered 0 (l ++ r), maxkey (l ++ r), N.of_nat (length (l ++ r))).
Proof.
  induction r as [|e r IH]; intros l Hs; cbn [map fold_left]; [rewrite app_nil_r; reflexivity|].
  pose proof (sorted_app_lt l e r Hs) as Hlt.
  unfold load_slot at 2.
  rewrite ins1_append by assumption.
  rewrite pins_append by (apply numbered_keys_lt; assumption).
  replace (numbered 0 l ++ [(e_idx e, N.of_nat (length l) + 1)]) with (numbered 0 (l ++ [e]))
    by (rewrite numbered_app; cbn [numbered]; reflexivity).
  replace (N.max (maxkey l) (e_idx e)) with (maxkey (l ++ [e])) by (rewrite maxkey_app; cbn [maxkey]; lia).
  replace (N.of_nat (length l) + 1) with (N.of_nat (length (l ++ [e]))) by (rewrite app_length; cbn [length]; lia).
  rewrite IH by (rewrite <- app_assoc; exact Hs).
  rewrite <- app_assoc. reflexivity.
Qed.

Lemma f_reopen_of : forall l x, sorted l -> f_reopen (f_of' l x) = f_of l.
Proof.
  intros l x Hs. unfold f_reopen, f_of'. cbn [f_file].
  pose proof (load_fold l [] Hs) as H. cbn [app numbered maxkey length] in H. change (N.of_nat 0) with 0 in H.
  unfold amap in *. rewrite H. reflexivity.
Qed.

Lemma maxkey_del_le : forall i l, maxkey (del_le i l) = if i <? maxkey l then maxkey l else 0.
Proof.
  intros i l. induction l as [|a l IH]; [cbn; destruct (i <? 0); reflexivity|].
  unfold del_le. cbn [filter maxkey]. fold (del_le i l).
  destruct (N.ltb_spec i (e_idx a)) as [Ha|Ha]; cbn [maxkey]; rewrite IH;
    destruct (N.ltb_spec i (maxkey l)) as [Hl|Hl]; destruct (N.ltb_spec i (N.max (e_idx a) (maxkey l))) as [Hm|Hm]; lia.
Qed.

Definition mk (l : list entry) (pb : option (N * N)) : rstore := {| r_ents := l; r_pb := pb |}.

Lemma f_step_ok : forall s o, sorted (r_ents s) -> good_f s o = true ->
  f_step (f_of (r_ents s)) o = f_of (r_ents (ref_step s o)) /\ sorted (r_ents (ref_step s o)).
Proof.
  intros [l pb] o Hs Hg. cbn [r_ents] in Hs. destruct o as [es|from|from es|i t| | |]; cbn [ref_step r_ents f_step good_f] in *.
  - (* persist *)
    unfold ref_last in Hg. cbn [r_ents] in Hg.
    rewrite ins_all_append by assumption. split; [|apply incr_app_sorted; assumption].
    destruct es as [|e es]; [rewrite app_nil_r; reflexivity|].
    unfold f_of. rewrite f_write_fold by assumption.
    unfold f_set_last, f_of'. cbn [f_ents f_file f_pos f_last].
    rewrite maxkey_app. reflexivity.
  - (* truncate *)
    split; [|apply sorted_filter; assumption].
    unfold f_of at 1. rewrite f_cut_of by assumption. reflexivity.
  - (* replace_range *)
    pose proof (sorted_filter (fun e => e_idx e <? from) l Hs) as Hs'. fold (del_ge from l) in Hs'.
    rewrite ins_all_append by assumption. split; [|apply incr_app_sorted; assumption].
    unfold f_of. rewrite !f_cut_of by assumption. rewrite !f_write_fold by assumption. reflexivity.
  - (* purge *)
    split; [|apply sorted_filter; assumption].
    unfold f_of, f_of'. cbn [f_ents f_last]. f_equal.
    unfold ref_last in Hg. cbn [r_ents] in Hg. rewrite maxkey_del_le.
    apply orb_prop in Hg. destruct Hg as [Hg|Hg].
    + rewrite Hg. reflexivity.
    + apply N.eqb_eq in Hg. rewrite Hg. destruct (i <? 0); reflexivity.
  - split; [reflexivity|constructor].
  - split; [reflexivity|assumption].
  - split; [apply f_reopen_of; assumption|assumption].
Qed.

Lemma f_run_ok : forall ops s, sorted (r_ents s) -> good_run good_f s ops = true ->
  fold_left f_step ops (f_of (r_ents s)) = f_of (r_ents (fold_left ref_step ops s)).
Proof.
  induction ops as [|o ops IH]; intros s Hs Hg; cbn [fold_left]; [reflexivity|].
  cbn [good_run] in Hg. apply andb_prop in Hg. destruct Hg as [Ho Hr].
  destruct (f_step_ok s o Hs Ho) as [Heq Hs']. rewrite Heq. apply IH; assumption.
Qed.

Lemma run_sorted : forall g, (forall s o, sorted (r_ents s) -> g s o = true -> sorted (r_ents (ref_step s o))) ->
  forall ops s, sorted (r_ents s) -> good_run g s ops = true -> sorted (r_ents (fold_left ref_step ops s)).
Proof.
  intros g Hg. induction ops as [|o ops IH]; intros s Hs H; cbn [fold_left]; [assumption|].
  cbn [good_run] in H. apply andb_prop in H. destruct H as [Ho Hr]. apply IH; [apply Hg; assumption|assumption].
Qed.

Theorem fstore_refines : forall ops, good_run good_f ref0 ops = true ->
  let f := f_run ops in let r := ref_run ops in
  (f_ents f = r_ents r /\ f_last f = ref_last r) /\
  (f_ents (f_reopen f) = r_ents r /\ f_last (f_reopen f) = ref_last r).
Proof.
  intros ops Hg. cbn zeta. unfold f_run, ref_run.
  assert (Hs0 : sorted (r_ents ref0)) by constructor.
  change file0 with (f_of (r_ents ref0)).
  rewrite (f_run_ok ops ref0 Hs0 Hg).
  pose proof (run_sorted good_f (fun s o H1 H2 => proj2 (f_step_ok s o H1 H2)) ops ref0 Hs0 Hg) as Hs.
  unfold f_of at 3 4. rewrite f_reopen_of by assumption.
  unfold f_of, f_of', ref_last. cbn [f_ents f_last]. repeat split.
Qed.

(* live entries of the File engine follow the reference for EVERY sequence without reopen *)
Lemma f_write_ents : forall es f, f_ents (fold_left f_write1 es f) = ins_all (f_ents f) es.
Proof.
  unfold ins_all. induction es as [|e es IH]; intros f; cbn [fold_left]; [reflexivity|].
  rewrite IH. reflexivity.
Qed.

Definition no_reopen (o : sop) : bool := match o with SReopen => false | _ => true end.

Lemma f_ents_step : forall f s o, no_reopen o = true -> f_ents f = r_ents s ->
  f_ents (f_step f o) = r_ents (ref_step s o).
Proof.
  intros f s o Hn He. destruct o as [es|from|from es|i t| | |]; cbn [f_step ref_step r_ents]; try discriminate.
  - destruct es as [|e es]; [cbn; assumption|]. cbn [f_set_last f_ents]. rewrite f_write_ents, He. reflexivity.
  - cbn [f_set_last f_cut f_ents]. rewrite He. reflexivity.
  - cbn [f_set_last f_ents]. rewrite f_write_ents. cbn [f_cut f_ents]. rewrite He. reflexivity.
  - cbn [f_ents]. rewrite He. reflexivity.
  - reflexivity.
  - assumption.
Qed.

Theorem fstore_live_entries : forall ops, forallb no_reopen ops = true ->
  f_ents (f_run ops) = r_ents (ref_run ops).
Proof.
  intros ops. unfold f_run, ref_run.
  assert (H0 : f_ents file0 = r_ents ref0) by reflexivity. revert H0. generalize file0 ref0.
  induction ops as [|o ops IH]; intros f s He Hn; cbn [fold_left]; [assumption|].
  cbn [forallb] in Hn. apply andb_prop in Hn. destruct Hn as [Ho Hr].
  apply IH; [apply f_ents_step; assumption|assumption].
Qed.

(* replace_range is ONE step: for every state and every input the entries afterwards are exactly the
   entries below [from] with the new ones written over them — no other state is ever produced *)
Theorem replace_single_step_file : forall f from es,
  f_ents (f_step f (SReplace from es)) = ins_all (del_ge from (f_ents f)) es.
Proof. intros. cbn [f_step f_set_last f_ents]. rewrite f_write_ents. reflexivity. Qed.
Theorem replace_single_step_rocks : forall k from es,
  k_db (k_step k (SReplace from es)) = ins_all (del_ge from (k_db k)) es.
Proof. reflexivity. Qed.
Theorem replace_is_truncate_then_persist_ref : forall s from es,
  ref_step s (SReplace from es) = ref_step (ref_step s (STruncate from)) (SPersist es).
Proof. reflexivity. Qed.

(* ---------- the RocksDB engine on sorted content ---------- *)
Definition k_of (s : rstore) : kstore := {| k_db := r_ents s; k_last := maxkey (r_ents s); k_pb := r_pb s |}.

Lemma take_until_all : forall m c, sorted c -> Forall (fun x => e_idx x <= m) c ->
  take_until (fun e => m <=? e_idx e) c = c.
Proof.
  intros m c Hs. induction Hs as [|a c Hc IH Ha]; intros Hf; cbn [take_until]; [reflexivity|].
  inversion Hf as [|? ? Hle Hrest]; subst.
  destruct (N.leb_spec m (e_idx a)) as [Hm|Hm].
  - destruct c as [|b c]; [reflexivity|]. exfalso.
    inversion Ha as [|? ? Hab _]; subst. inversion Hrest as [|? ? Hb _]; subst. unfold ilt in Hab. lia.
  - rewrite IH by assumption. reflexivity.
Qed.

Lemma truncate_deletes : forall from l,
  filter (fun e => negb (memb (e_idx e) (map e_idx (filter (fun e => from <=? e_idx e) l)))) l = del_ge from l.
Proof.
  intros from l. unfold del_ge. apply filter_ext_in. intros e He.
  destruct (N.ltb_spec (e_idx e) from) as [Hlt|Hge].
  - apply negb_true_iff. unfold memb. destruct (existsb _ _) eqn:Hex; [|reflexivity]. exfalso.
    apply existsb_exists in Hex. destruct Hex as [k [Hk Heq]]. apply N.eqb_eq in Heq. subst k.
    apply in_map_iff in Hk. destruct Hk as [e' [Hi Hin]]. apply filter_In in Hin. destruct Hin as [_ Hle].
    apply N.leb_le in Hle. lia.
  - apply negb_false_iff. unfold memb. apply existsb_exists. exists (e_idx e). split; [|apply N.eqb_refl].
    apply in_map. apply filter_In. split; [assumption|]. apply N.leb_le. assumption.
Qed.

Lemma k_step_ok : forall s o, sorted (r_ents s) -> good_k s o = true ->
  k_step (k_of s) o = k_of (ref_step s o) /\ sorted (r_ents (ref_step s o)).
Proof.
  intros [l pb] o Hs Hg. cbn [r_ents] in Hs.
  destruct o as [es|from|from es|i t| | |]; unfold k_of; cbn [ref_step r_ents r_pb k_step good_k k_db k_last k_pb] in *.
  - (* persist: any batch *)
    split; [|apply ins_all_sorted; assumption].
    f_equal. rewrite maxkey_ins_all.
    destruct (N.ltb_spec 0 (maxkey es)) as [H0|H0]; lia.
  - (* truncate *)
    split; [|apply sorted_filter; assumption].
    apply N.eqb_eq in Hg.
    rewrite take_until_all.
    + rewrite truncate_deletes. f_equal. symmetry. exact Hg.
    + apply sorted_filter. assumption.
    + apply Forall_forall. intros x Hx. apply filter_In in Hx. destruct Hx as [Hx _]. apply maxkey_ge. assumption.
  - (* replace_range *)
    apply andb_prop in Hg. destruct Hg as [Hi He].
    pose proof (sorted_filter (fun e => e_idx e <? from) l Hs) as Hs'. fold (del_ge from l) in Hs'.
    split; [|rewrite ins_all_append by assumption; apply incr_app_sorted; assumption].
    f_equal. rewrite ins_all_append by assumption. rewrite maxkey_app.
    destruct es as [|e es].
    + apply N.eqb_eq in He. cbn [last_entry rev maxkey]. lia.
    + rewrite (incr_maxkey (e :: es) _) by (congruence || assumption).
      destruct (incr_sorted _ _ Hi) as [Hse _].
      (* the last element of a sorted batch carries its largest index *)
      clear - Hse. unfold last_entry.
      assert (Hl : forall (r : list entry), sorted r -> r <> [] ->
                match rev r with [] => 0 | x :: _ => e_idx x end = maxkey r).
      { induction r as [|a r IH]; intros Hr Hne; [contradiction|].
        apply StronglySorted_inv in Hr. destruct Hr as [Hr Ha].
        destruct r as [|b r].
        - cbn. lia.
        - specialize (IH Hr ltac:(discriminate)).
          change (rev (a :: b :: r)) with (rev (b :: r) ++ [a]).
          destruct (rev (b :: r)) as [|x xs] eqn:Hrev.
          + apply (f_equal (@length entry)) in Hrev. rewrite rev_length in Hrev. discriminate.
          + cbn [app]. rewrite IH. cbn [maxkey].
            inversion Ha as [|? ? Hab Hrest]; subst. unfold ilt in Hab.
            assert (e_idx a < N.max (e_idx b) (maxkey r)) by lia. lia. }
      specialize (Hl (e :: es) Hse ltac:(discriminate)).
      destruct (rev (e :: es)) as [|x xs] eqn:Hrev.
      * apply (f_equal (@length entry)) in Hrev. rewrite rev_length in Hrev. discriminate.
      * exact Hl.
  - (* purge *)
    split; [|apply sorted_filter; assumption].
    f_equal. unfold ref_last in Hg. cbn [r_ents] in Hg. rewrite maxkey_del_le.
    apply orb_prop in Hg. destruct Hg as [Hg|Hg].
    + rewrite Hg. reflexivity.
    + apply N.eqb_eq in Hg. rewrite Hg. destruct (i <? 0); reflexivity.
  - split; [reflexivity|constructor].
  - split; [reflexivity|assumption].
  - split; [reflexivity|assumption].
Qed.

Lemma k_run_ok : forall ops s, sorted (r_ents s) -> good_run good_k s ops = true ->
  fold_left k_step ops (k_of s) = k_of (fold_left ref_step ops s).
Proof.
  induction ops as [|o ops IH]; intros s Hs Hg; cbn [fold_left]; [reflexivity|].
  cbn [good_run] in Hg. apply andb_prop in Hg. destruct Hg as [Ho Hr].
  destruct (k_step_ok s o Hs Ho) as [Heq Hs']. rewrite Heq. apply IH; assumption.
Qed.

Theorem rstore_refines : forall ops, good_run good_k ref0 ops = true ->
  let k := k_run ops in let r := ref_run ops in
  (k_db k = r_ents r /\ k_last k = ref_last r /\ k_pb k = r_pb r) /\
  (k_db (k_step k SReopen) = r_ents r /\ k_last (k_step k SReopen) = ref_last r /\ k_pb (k_step k SReopen) = r_pb r).
Proof.
  intros ops Hg. cbn zeta. unfold k_run, ref_run.
  assert (Hs0 : sorted (r_ents ref0)) by constructor.
  change rocks0 with (k_of ref0).
  rewrite (k_run_ok ops ref0 Hs0 Hg).
  unfold k_of, ref_last. cbn [k_step k_db k_last k_pb]. repeat split.
Qed.

Theorem engines_agree : forall ops, good_run good_f ref0 ops = true -> good_run good_k ref0 ops = true ->
  let f := f_run ops in let k := k_run ops in
  (f_ents f = k_db k /\ f_last f = k_last k) /\
  (f_ents (f_reopen f) = k_db (k_step k SReopen) /\ f_last (f_reopen f) = k_last (k_step k SReopen)).
Proof.
  intros ops Hf Hk. cbn zeta.
  destruct (fstore_refines ops Hf) as [[F1 F2] [F3 F4]].
  destruct (rstore_refines ops Hk) as [[K1 [K2 _]] [K3 [K4 _]]].
  repeat split; congruence.
Qed.

(* with fetch_max, persist_entries never breaks the cached last index: any state, any batch *)
Theorem persist_keeps_last_file : forall f es, f_last f = maxkey (f_ents f) ->
  f_last (f_step f (SPersist es)) = maxkey (f_ents (f_step f (SPersist es))).
Proof.
  intros f es H. cbn [f_step]. destruct es as [|e es]; [assumption|].
  cbn [f_set_last f_last f_ents]. rewrite f_write_ents, maxkey_ins_all, H. reflexivity.
Qed.
Theorem persist_keeps_last_rocks : forall k es, k_last k = maxkey (k_db k) ->
  k_last (k_step k (SPersist es)) = maxkey (k_db (k_step k (SPersist es))).
Proof.
  intros k es H. cbn [k_step k_last k_db]. rewrite maxkey_ins_all, H.
  destruct (N.ltb_spec 0 (maxkey es)) as [H0|H0]; lia.
Qed.

(* ---------- non-vacuity ---------- *)
Definition E (i t : N) : entry := {| e_idx := i; e_term := t; e_pl := i |}.
Definition ops_good : list sop :=
  [SPersist [E 1 1; E 2 1; E 3 1]; SPersist [E 4 2; E 6 2]; SFlush; SReplace 3 [E 3 3; E 4 3];
   STruncate 4; SPurge 1 1; SReopen; SPersist [E 9 4]; SReplace 10 []; SReset; SPersist [E 5 5]].
Example ops_good_in_class :
  good_run good_f ref0 ops_good = true /\ good_run good_k ref0 ops_good = true /\
  r_ents (ref_run ops_good) = [E 5 5] /\ r_pb (ref_run ops_good) = Some (1, 1).
Proof. vm_compute. repeat split. Qed.
Example replace_example :
  k_db (k_step (k_run [SPersist [E 1 1; E 2 1; E 3 1]]) (SReplace 2 [E 2 2])) = [E 1 1; E 2 2].
Proof. vm_compute. reflexivity. Qed.

(* ---------- outside the class: what the engines do instead (each witness is replayed on the real code) ---------- *)
(* HISTORY: before the fetch_max fix persist_entries cached the maximum of the *last batch*; the former
   witness now agrees with the reference, and the old arithmetic is kept for the record *)
Definition w_last : list sop := [SPersist [E 1 1; E 2 1; E 3 1]; SPersist [E 2 2]].
Example rewritten_batch_last_index_now_right :
  f_last (f_run w_last) = 3 /\ k_last (k_run w_last) = 3 /\ ref_last (ref_run w_last) = 3.
Proof. vm_compute. repeat split. Qed.
Lemma history_persist_v1_refuted :
  persist_last_v1 3 [E 2 2] = 2 /\ maxkey (ins_all [E 1 1; E 2 1; E 3 1] [E 2 2]) = 3.
Proof. vm_compute. split; reflexivity. Qed.
Example rocks_any_batch_in_class :
  good_run good_k ref0 [SPersist [E 5 1; E 2 1]; SPersist [E 2 2; E 9 2; E 1 2]; SReopen] = true /\
  k_db (k_run [SPersist [E 5 1; E 2 1]; SPersist [E 2 2; E 9 2; E 1 2]; SReopen]) = [E 1 2; E 2 2; E 5 1; E 9 2].
Proof. vm_compute. split; reflexivity. Qed.

(* File truncate cuts the file at the position of the largest smaller *index*, not at the first record
   to remove: a rewritten or out-of-order entry moves that position, and cut entries return on reopen *)
Definition w_resurrect : list sop := [SPersist [E 1 1; E 2 1; E 3 1]; SPersist [E 2 2]; STruncate 3].
Lemma file_reopen_refuted :
  f_ents (f_run w_resurrect) = [E 1 1; E 2 2] /\ r_ents (ref_run w_resurrect) = [E 1 1; E 2 2] /\
  f_ents (f_reopen (f_run w_resurrect)) = [E 1 1; E 2 2; E 3 1].
Proof. vm_compute. repeat split. Qed.
(* ... or are lost on reopen although still served live *)
Definition w_lost : list sop := [SPersist [E 2 1]; SPersist [E 1 1]; STruncate 3].
Lemma file_reopen_lost_refuted :
  f_ents (f_run w_lost) = [E 1 1; E 2 1] /\ f_ents (f_reopen (f_run w_lost)) = [E 2 1].
Proof. vm_compute. split; reflexivity. Qed.
(* ... and a stale position beyond the end of the file makes set_len EXTEND it with zero bytes, which
   load_from_file reads as entries with index 0 *)
Definition w_phantom : list sop := [SPersist [E 2 1]; SPersist [E 1 1]; STruncate 3; STruncate 2].
Lemma file_reopen_phantom_refuted :
  f_ents (f_run w_phantom) = [E 1 1] /\ f_ents (f_reopen (f_run w_phantom)) = [dflt_entry; E 2 1].
Proof. vm_compute. split; reflexivity. Qed.

(* File never reports a purge boundary *)
Definition w_purge : list sop := [SPersist [E 1 1; E 2 1; E 3 1]; SPurge 2 1].
Lemma file_boundary_refuted : f_pb (f_run w_purge) = None /\ r_pb (ref_run w_purge) = Some (2, 1) /\ k_pb (k_run w_purge) = Some (2, 1).
Proof. vm_compute. repeat split. Qed.

(* a purge that removes the last entry leaves the cached last index behind; reopen disagrees with live *)
Definition w_purge_all : list sop := [SPersist [E 1 1; E 2 1]; SPurge 2 1].
Lemma purge_all_last_index_refuted :
  f_last (f_run w_purge_all) = 2 /\ f_last (f_reopen (f_run w_purge_all)) = 0 /\
  k_last (k_run w_purge_all) = 2 /\ k_last (k_step (k_run w_purge_all) SReopen) = 0 /\
  ref_last (ref_run w_purge_all) = 0.
Proof. vm_compute. repeat split. Qed.

(* RocksDB truncate(from) sets last_index := from - 1 whatever the store holds *)
Definition w_trunc_beyond : list sop := [SPersist [E 1 1; E 2 1; E 3 1]; STruncate 7].
Lemma rocks_truncate_last_refuted : k_last (k_run w_trunc_beyond) = 6 /\ ref_last (ref_run w_trunc_beyond) = 3.
Proof. vm_compute. split; reflexivity. Qed.
(* ... and stops deleting at the cached last index, so with a stale cache (left by replace_range) entries survive a truncate *)
Definition w_trunc_stale : list sop := [SPersist [E 1 1; E 2 1; E 3 1; E 4 1]; SReplace 5 [E 2 2]; STruncate 2].
Lemma rocks_truncate_entries_refuted :
  k_db (k_run w_trunc_stale) = [E 1 1; E 3 1; E 4 1] /\ r_ents (ref_run w_trunc_stale) = [E 1 1].
Proof. vm_compute. split; reflexivity. Qed.
(* RocksDB replace_range sets last_index := index of the last new entry, or from - 1 *)
Definition w_replace : list sop := [SPersist [E 1 1; E 2 1; E 3 1]; SReplace 5 []].
Lemma rocks_replace_last_refuted : k_last (k_run w_replace) = 4 /\ ref_last (ref_run w_replace) = 3.
Proof. vm_compute. split; reflexivity. Qed.
