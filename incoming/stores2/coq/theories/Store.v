(* Store — executable models for property C20:
     * the reference LogStore (a map index -> entry plus the purge boundary of the last purge call),
     * FileLogStore as coded in d-engine-server/src/storage/adaptors/file/file_storage_engine.rs
       (in-memory BTreeMap `entries`, append-only file log.data, `index_end_pos`, cached `last_index`),
     * RocksDBLogStore as coded in .../rocksdb/rocksdb_storage_engine.rs (LOG_CF as an ordered map,
       cached `last_index` with the arithmetic of persist_entries / truncate / replace_range,
       PURGE_BOUNDARY_KEY in META_CF).
   Granularity of the file model: the file is a list of *slots*.  A slot is one record
   (8-byte length + prost-encoded Entry) or a run of zero bytes of the same size produced by
   `set_len` beyond the end of the file.  This is exact when every record has the same size and that
   size is a multiple of 8 (the probe's entries: index, term in 1..127, 8-byte command payload = 24
   bytes per record); then every `index_end_pos` value is a slot boundary, a zero slot parses as three
   empty records, and prost decodes an empty record as the default Entry (index 0, term 0, no payload,
   rendered with payload id 1000000 by the harness).  Positions are counted in slots.
   On the class of operation sequences of theorem C20_file_refines no stale position exists, so there
   the slot granularity is no restriction.
   History: until the fix "persist_entries: last_index.fetch_max" both engines stored the maximum of the
   last batch into the cached last index ([persist_last_v1] below keeps that variant for the record).
   Not modelled: index u64::MAX (delete_range_cf's end key is exclusive), IO errors.
   No proofs here. *)
From Coq Require Import NArith List Bool.
From DE Require Import Val BufLog.
Import ListNotations.
Open Scope N_scope.

(* ---------- ordered maps index -> entry: lists sorted by index (ins1 / ins_all of BufLog) ---------- *)
Fixpoint maxkey (l : list entry) : N :=
  match l with [] => 0 | e :: l' => N.max (e_idx e) (maxkey l') end.
Definition del_ge (from : N) (l : list entry) : list entry := filter (fun e => e_idx e <? from) l.
Definition del_le (c : N) (l : list entry) : list entry := filter (fun e => c <? e_idx e) l.

Inductive sop :=
| SPersist (es : list entry)
| STruncate (from : N)
| SReplace (from : N) (es : list entry)
| SPurge (idx term : N)
| SReset
| SFlush
| SReopen.

(* ---------- reference store ---------- *)
Record rstore := { r_ents : list entry; r_pb : option (N * N) }.
Definition ref0 : rstore := {| r_ents := []; r_pb := None |}.
Definition ref_last (s : rstore) : N := maxkey (r_ents s).
Definition ref_step (s : rstore) (o : sop) : rstore :=
  match o with
  | SPersist es => {| r_ents := ins_all (r_ents s) es; r_pb := r_pb s |}
  | STruncate from => {| r_ents := del_ge from (r_ents s); r_pb := r_pb s |}
  | SReplace from es => {| r_ents := ins_all (del_ge from (r_ents s)) es; r_pb := r_pb s |}
  | SPurge i t => {| r_ents := del_le i (r_ents s); r_pb := Some (i, t) |}
  | SReset => {| r_ents := []; r_pb := r_pb s |}
  | SFlush => s
  | SReopen => s
  end.
Definition ref_run (ops : list sop) : rstore := fold_left ref_step ops ref0.

(* ---------- FileLogStore as coded ---------- *)
Inductive slot := SRec (e : entry) | SZero.
Definition dflt_entry : entry := {| e_idx := 0; e_term := 0; e_pl := 1000000 |}.

(* BTreeMap<u64,u64> index_end_pos as a list sorted by key *)
Fixpoint pins (m : amap) (k v : N) : amap :=
  match m with
  | [] => [(k, v)]
  | (k', v') :: m' => if k <? k' then (k, v) :: m
                      else if k =? k' then (k, v) :: m'
                      else (k', v') :: pins m' k v
  end.
(* end_pos_before: value of the largest key below [from], 0 when there is none *)
Definition end_pos_before (m : amap) (from : N) : N :=
  fold_left (fun acc kv => if fst kv <? from then snd kv else acc) m 0.
(* positions of a file that holds exactly the records of l, in this order, starting after slot b *)
Fixpoint numbered (b : N) (l : list entry) : amap :=
  match l with [] => [] | e :: l' => (e_idx e, b + 1) :: numbered (b + 1) l' end.

Record fstore := { f_ents : list entry; f_file : list slot; f_pos : amap; f_last : N }.
Definition file0 : fstore := {| f_ents := []; f_file := []; f_pos := []; f_last := 0 |}.
Definition flen (f : list slot) : N := N.of_nat (length f).

(* File::set_len: cut, or extend with zero bytes *)
Definition set_len (file : list slot) (n : N) : list slot :=
  if n <=? flen file then firstn (N.to_nat n) file
  else file ++ repeat SZero (N.to_nat (n - flen file)).

(* one loop iteration of persist_entries / replace_range: write_encoded (seek End, write), then
   entries.insert and index_end_pos.insert *)
Definition f_write1 (f : fstore) (e : entry) : fstore :=
  let file' := f_file f ++ [SRec e] in
  {| f_ents := ins1 (f_ents f) e; f_file := file';
     f_pos := pins (f_pos f) (e_idx e) (flen file'); f_last := f_last f |}.
Definition f_set_last (f : fstore) (n : N) : fstore :=
  {| f_ents := f_ents f; f_file := f_file f; f_pos := f_pos f; f_last := n |}.
(* set_len(end_pos_before(from)) + remove_from_index(from) *)
Definition f_cut (f : fstore) (from : N) : fstore :=
  {| f_ents := del_ge from (f_ents f);
     f_file := set_len (f_file f) (end_pos_before (f_pos f) from);
     f_pos := filter (fun kv => fst kv <? from) (f_pos f);
     f_last := f_last f |}.

(* load_from_file *)
Definition load_slot (acc : list entry * amap * N * N) (s : slot) : list entry * amap * N * N :=
  let '(ents, pos, mx, i) := acc in
  match s with
  | SRec e => (ins1 ents e, pins pos (e_idx e) (i + 1), N.max mx (e_idx e), i + 1)
  | SZero => (ins1 ents dflt_entry, pins pos 0 (i + 1), mx, i + 1)
  end.
Definition f_reopen (f : fstore) : fstore :=
  let '(ents, pos, mx, _) := fold_left load_slot (f_file f) ([], [], 0, 0) in
  {| f_ents := ents; f_file := f_file f; f_pos := pos; f_last := mx |}.

Definition f_step (f : fstore) (o : sop) : fstore :=
  match o with
  | SPersist es =>
      match es with
      | [] => f
      | _ => f_set_last (fold_left f_write1 es f) (N.max (f_last f) (maxkey es))   (* last_index.fetch_max(max of this batch) *)
      end
  | STruncate from =>
      let f' := f_cut f from in f_set_last f' (maxkey (f_ents f'))      (* keys().next_back() *)
  | SReplace from es =>
      let f' := fold_left f_write1 es (f_cut f from) in f_set_last f' (maxkey (f_ents f'))
  | SPurge i _ =>
      let keep := del_le i (f_ents f) in                                 (* rewrite the file; cache untouched *)
      {| f_ents := keep; f_file := map SRec keep; f_pos := numbered 0 keep; f_last := f_last f |}
  | SReset => file0
  | SFlush => f
  | SReopen => f_reopen f
  end.
Definition f_run (ops : list sop) : fstore := fold_left f_step ops file0.
(* load_purge_boundary is the trait default *)
Definition f_pb (f : fstore) : option (N * N) := None.

(* ---------- RocksDBLogStore as coded ---------- *)
Record kstore := { k_db : list entry; k_last : N; k_pb : option (N * N) }.
Definition rocks0 : kstore := {| k_db := []; k_last := 0; k_pb := None |}.

(* the iteration of truncate(): push the key, then stop once key >= cached last_index *)
Fixpoint take_until (p : entry -> bool) (l : list entry) : list entry :=
  match l with [] => [] | e :: l' => e :: (if p e then [] else take_until p l') end.
Definition memb (x : N) (l : list N) : bool := existsb (N.eqb x) l.

Definition k_step (k : kstore) (o : sop) : kstore :=
  match o with
  | SPersist es =>
      {| k_db := ins_all (k_db k) es;
         k_last := if 0 <? maxkey es then N.max (k_last k) (maxkey es) else k_last k;   (* fetch_max *)
         k_pb := k_pb k |}
  | STruncate from =>
      let cand := filter (fun e => from <=? e_idx e) (k_db k) in
      let dels := map e_idx (take_until (fun e => k_last k <=? e_idx e) cand) in
      {| k_db := filter (fun e => negb (memb (e_idx e) dels)) (k_db k);
         k_last := from - 1; k_pb := k_pb k |}
  | SReplace from es =>
      {| k_db := ins_all (del_ge from (k_db k)) es;
         k_last := match last_entry es with Some e => e_idx e | None => from - 1 end;
         k_pb := k_pb k |}
  | SPurge i t => {| k_db := del_le i (k_db k); k_last := k_last k; k_pb := Some (i, t) |}
  | SReset => {| k_db := []; k_last := 0; k_pb := k_pb k |}
  | SFlush => k
  | SReopen => {| k_db := k_db k; k_last := maxkey (k_db k); k_pb := k_pb k |}   (* largest key of LOG_CF *)
  end.
Definition k_run (ops : list sop) : kstore := fold_left k_step ops rocks0.

(* HISTORY (code before the fetch_max fix): the cached last index after persist_entries *)
Definition persist_last_v1 (last : N) (es : list entry) : N :=
  match es with [] => last | _ => maxkey es end.

(* ---------- val glue ---------- *)
Definition sop_of_val (v : val) : sop :=
  let k := vn (vnth v 0) in
  if k =? 0 then SPersist (map entry_of_val (vl (vnth v 1)))
  else if k =? 1 then STruncate (vn (vnth v 1))
  else if k =? 2 then SReplace (vn (vnth v 1)) (map entry_of_val (vl (vnth v 2)))
  else if k =? 3 then SPurge (vn (vnth v 1)) (vn (vnth v 2))
  else if k =? 4 then SReset
  else if k =? 5 then SFlush
  else SReopen.
Definition vpb (o : option (N * N)) : val :=
  match o with Some (i, t) => VL [VN i; VN t] | None => VL [] end.
Definition f_obs (f : fstore) : val := VL [VL (map ventry (f_ents f)); VN (f_last f); vpb (f_pb f); VN 1].
Definition k_obs (k : kstore) : val := VL [VL (map ventry (k_db k)); VN (k_last k); vpb (k_pb k); VN 1].
Definition r_obs (s : rstore) : val := VL [VL (map ventry (r_ents s)); VN (ref_last s); vpb (r_pb s); VN 1].

Definition trace {S : Type} (step : S -> sop -> S) (obs : S -> val) (s0 : S) (ops : list sop) : list val :=
  snd (fold_left (fun acc o => let s' := step (fst acc) o in (s', snd acc ++ [obs s'])) ops (s0, [])).

(* input [[op...]]; output [[file obs per op], [rocksdb obs per op]] *)
Definition store_probe (v : val) : val :=
  let ops := map sop_of_val (vl (vnth v 0)) in
  VL [VL (trace f_step f_obs file0 ops); VL (trace k_step k_obs rocks0 ops)].
(* the reference's answers on the same input (used by the oracle cross-check of the driver) *)
Definition store_ref_probe (v : val) : val :=
  VL (trace ref_step r_obs ref0 (map sop_of_val (vl (vnth v 0)))).

(* ---------- the class of operation sequences on which the engines are proved to refine the reference
   (boolean, so the driver can also count how many generated cases fall inside) ----------
   File: every written batch has strictly increasing indexes above everything the store keeps; a purge
   does not remove the last entry.  RocksDB: any persisted batch; replace_range batches increasing above
   everything kept; a purge does not remove the last entry; truncation starts right after an existing
   entry (or empties the store from index 0/1). *)
Fixpoint incr_above (m : N) (es : list entry) : bool :=
  match es with [] => true | e :: es' => (m <? e_idx e) && incr_above (e_idx e) es' end.
Definition good_f (s : rstore) (o : sop) : bool :=
  match o with
  | SPersist es => incr_above (ref_last s) es
  | SReplace from es => incr_above (maxkey (del_ge from (r_ents s))) es
  | SPurge i _ => (i <? ref_last s) || (ref_last s =? 0)
  | _ => true
  end.
Definition good_k (s : rstore) (o : sop) : bool :=
  match o with
  | SPersist es => true          (* any batch: out-of-order, re-written, gapped *)
  | STruncate from => maxkey (del_ge from (r_ents s)) =? from - 1
  | SReplace from es =>
      incr_above (maxkey (del_ge from (r_ents s))) es &&
      match es with [] => maxkey (del_ge from (r_ents s)) =? from - 1 | _ => true end
  | SPurge i _ => (i <? ref_last s) || (ref_last s =? 0)
  | _ => true
  end.
Fixpoint good_run (g : rstore -> sop -> bool) (s : rstore) (ops : list sop) : bool :=
  match ops with [] => true | o :: ops' => g s o && good_run g (ref_step s o) ops' end.
(* [in class for File, in class for RocksDB] *)
Definition store_class_probe (v : val) : val :=
  let ops := map sop_of_val (vl (vnth v 0)) in
  VL [vb (good_run good_f ref0 ops); vb (good_run good_k ref0 ops)].
