(* MetaStore — executable models for property C21 (saved term and vote across crashes):
     * the bincode 1.3 encoding of HardState {current_term: u64, voted_for: Option<VotedFor {u32, u64, bool}>}
       as written by `bincode::serialize` and read by `bincode::deserialize` (fixed-width little endian,
       one tag byte for Option, one byte for bool, trailing bytes accepted),
     * FileMetaStore::save_hard_state as coded NOW (file_storage_engine.rs save_to_file, after the fix
       "write a temporary file, sync it, rename it"): File::create(hard_state.bin.tmp), write_all (the bytes
       arrive in order), flush + sync_all on the temporary file, std::fs::rename(tmp -> hard_state.bin);
       NO fsync of the directory.  load_from_file reads hard_state.bin only: an absent or undecodable
       file is "no hard state" (Ok(None)); a left-over hard_state.bin.tmp is ignored and truncated by the
       next save,
     * HISTORY: the previous variant (v1) — File::create(hard_state.bin) truncating the live file, write_all,
       no sync — kept as [prog_v1] so that the old refutation stays a checked theorem,
     * RocksDBMetaStore::save_hard_state as coded: one put_cf without sync, i.e. one WAL record in the
       page cache; MetaStore::flush = flush_wal(true).
   Two-layer storage world: what a *process crash* leaves is what the OS holds (every completed system
   call).  What a *power loss* leaves: file DATA is durable only up to the last sync_all of that inode
   (un-synced writes may or may not have reached the disk); NAMESPACE operations (create, rename) are
   durable only after an fsync of the directory — without it they reach the disk in order, but possibly
   not at all.  So after a power loss hard_state.bin is what it was at the last directory fsync or after
   any later rename, each with a content the renamed inode may durably have.  RocksDB's own contract (a put
   is atomic, the WAL is recovered as a prefix) is assumed.
   No proofs here. *)
From Coq Require Import NArith List Bool.
From DE Require Import Val.
Import ListNotations.
Open Scope N_scope.

Record vote := { v_id : N; v_term : N; v_committed : bool }.
Record hs := { h_term : N; h_vote : option vote }.

(* ---------- bincode ---------- *)
Fixpoint le_bytes (k : nat) (n : N) : list N :=
  match k with O => [] | S k' => (n mod 256) :: le_bytes k' (n / 256) end.
Fixpoint of_le (bs : list N) : N :=
  match bs with [] => 0 | b :: bs' => b + 256 * of_le bs' end.

Definition encode (h : hs) : list N :=
  le_bytes 8 (h_term h) ++
  match h_vote h with
  | None => [0]
  | Some v => [1] ++ le_bytes 4 (v_id v) ++ le_bytes 8 (v_term v) ++ [if v_committed v then 1 else 0]
  end.

Definition decode (bs : list N) : option hs :=
  match bs with
  | b0 :: b1 :: b2 :: b3 :: b4 :: b5 :: b6 :: b7 :: tag :: rest =>
      let term := of_le [b0; b1; b2; b3; b4; b5; b6; b7] in
      if tag =? 0 then Some {| h_term := term; h_vote := None |}
      else if tag =? 1 then
        match rest with
        | i0 :: i1 :: i2 :: i3 :: t0 :: t1 :: t2 :: t3 :: t4 :: t5 :: t6 :: t7 :: c :: _ =>
            let id := of_le [i0; i1; i2; i3] in
            let vt := of_le [t0; t1; t2; t3; t4; t5; t6; t7] in
            if c =? 0 then Some {| h_term := term; h_vote := Some {| v_id := id; v_term := vt; v_committed := false |} |}
            else if c =? 1 then Some {| h_term := term; h_vote := Some {| v_id := id; v_term := vt; v_committed := true |} |}
            else None
        | _ => None
        end
      else None
  | _ => None
  end.

Definition wf_hs (h : hs) : Prop :=
  h_term h < 2 ^ 64 /\ match h_vote h with Some v => v_id v < 2 ^ 32 /\ v_term v < 2 ^ 64 | None => True end.

Inductive mode := Process | Power.

(* ---------- FileMetaStore ---------- *)
(* content of a file as the OS sees it; None = the file does not exist *)
Definition fcontent := option (list N).
(* load_from_file + load_hard_state *)
Definition f_load (c : fcontent) : option hs := match c with None => None | Some b => decode b end.

(* an inode: the content the OS holds, and the contents it may have after a power loss (every state
   since its last sync_all, oldest first) *)
Record inode := { i_cache : list N; i_dur : list (list N) }.

Record fworld := {
  fw_main : fcontent;          (* hard_state.bin as the OS holds it = what a process crash leaves *)
  fw_tmp : option inode;       (* hard_state.bin.tmp *)
  fw_disk : list fcontent      (* what hard_state.bin may be after a power loss: its content at the last
                                  directory fsync (first element) and after every later namespace or
                                  un-synced data change of it, oldest first.  FileMetaStore never syncs the
                                  directory, so the first element is the state at creation of the directory *)
}.
Definition fw0 : fworld := {| fw_main := None; fw_tmp := None; fw_disk := [None] |}.

Inductive fstep :=
| SCreateTmp           (* File::create(hard_state.bin.tmp): a new empty inode, or the left-over one truncated *)
| SWriteTmp (b : N)    (* one more byte of write_all *)
| SSyncTmp             (* flush + sync_all *)
| SRename              (* rename(hard_state.bin.tmp -> hard_state.bin), atomic in the OS view *)
| STruncMain           (* HISTORY v1: File::create(hard_state.bin) truncates the live file *)
| SWriteMain (b : N).  (* HISTORY v1: one more byte of write_all into the live file, never synced *)

Definition exec (w : fworld) (s : fstep) : fworld :=
  match s with
  | SCreateTmp =>
      {| fw_main := fw_main w;
         fw_tmp := Some {| i_cache := [];
                           i_dur := match fw_tmp w with Some i => i_dur i ++ [[]] | None => [[]] end |};
         fw_disk := fw_disk w |}
  | SWriteTmp b =>
      match fw_tmp w with
      | Some i => {| fw_main := fw_main w;
                     fw_tmp := Some {| i_cache := i_cache i ++ [b]; i_dur := i_dur i ++ [i_cache i ++ [b]] |};
                     fw_disk := fw_disk w |}
      | None => w
      end
  | SSyncTmp =>
      match fw_tmp w with
      | Some i => {| fw_main := fw_main w; fw_tmp := Some {| i_cache := i_cache i; i_dur := [i_cache i] |};
                     fw_disk := fw_disk w |}
      | None => w
      end
  | SRename =>
      match fw_tmp w with
      | Some i => {| fw_main := Some (i_cache i); fw_tmp := None;
                     fw_disk := fw_disk w ++ map Some (i_dur i) |}
      | None => w
      end
  | STruncMain => {| fw_main := Some []; fw_tmp := fw_tmp w; fw_disk := fw_disk w ++ [Some []] |}
  | SWriteMain b =>
      let c := match fw_main w with Some c => c ++ [b] | None => [b] end in
      {| fw_main := Some c; fw_tmp := fw_tmp w; fw_disk := fw_disk w ++ [Some c] |}
  end.

(* save_to_file as coded now, and its previous variant *)
Definition prog_v2 (bs : list N) : list fstep := SCreateTmp :: map SWriteTmp bs ++ [SSyncTmp; SRename].
Definition prog_v1 (bs : list N) : list fstep := STruncMain :: map SWriteMain bs.

(* the process stops after [cp] completed steps of save_to_file (0 = nothing yet; for the current code:
   1+k = tmp created and k bytes written, len+2 = tmp synced, len+3 = renamed = all done) *)
Definition f_save_crash (w : fworld) (h : hs) (cp : nat) : fworld :=
  fold_left exec (firstn cp (prog_v2 (encode h))) w.
Definition f_save (w : fworld) (h : hs) : fworld := fold_left exec (prog_v2 (encode h)) w.
Definition f_save_crash_v1 (w : fworld) (h : hs) (cp : nat) : fworld :=
  fold_left exec (firstn cp (prog_v1 (encode h))) w.
Definition f_save_v1 (w : fworld) (h : hs) : fworld := fold_left exec (prog_v1 (encode h)) w.
Definition f_outcomes (m : mode) (w : fworld) : list (option hs) :=
  match m with Process => [f_load (fw_main w)] | Power => map f_load (fw_disk w) end.

(* ---------- RocksDBMetaStore ---------- *)
Record kworld := {
  kw_mem : fcontent;            (* value under HARD_STATE_KEY as seen by the process and by a restart after a process crash *)
  kw_unsynced : list fcontent   (* values since the last WAL fsync, oldest first; the first one is durable *)
}.
Definition kw0 : kworld := {| kw_mem := None; kw_unsynced := [None] |}.
(* cp = 0: before put_cf; cp >= 1: put_cf done *)
Definition k_save_crash (w : kworld) (h : hs) (cp : nat) : kworld :=
  match cp with
  | O => w
  | S _ => {| kw_mem := Some (encode h); kw_unsynced := kw_unsynced w ++ [Some (encode h)] |}
  end.
Definition k_save (w : kworld) (h : hs) : kworld := k_save_crash w h 1.
Definition k_flush (w : kworld) : kworld := {| kw_mem := kw_mem w; kw_unsynced := [kw_mem w] |}.
Definition k_outcomes (m : mode) (w : kworld) : list (option hs) :=
  match m with Process => [f_load (kw_mem w)] | Power => map f_load (kw_unsynced w) end.

(* ---------- val glue ---------- *)
Definition hs_of_val (v : val) : option hs :=
  match vl v with
  | [] => None
  | _ => Some {| h_term := vn (vnth v 0);
                 h_vote := match vl (vnth v 1) with
                           | [] => None
                           | _ => Some {| v_id := vn (vnth (vnth v 1) 0); v_term := vn (vnth (vnth v 1) 1);
                                          v_committed := vbool (vnth (vnth v 1) 2) |}
                           end |}
  end.
Definition v_hs (o : option hs) : val :=
  match o with
  | None => VL []
  | Some h => VL [VN (h_term h);
                  match h_vote h with
                  | None => VL []
                  | Some v => VL [VN (v_id v); VN (v_term v); vb (v_committed v)]
                  end]
  end.
Definition v_content (c : fcontent) : val := match c with None => VL [] | Some b => VL [vns b] end.

(* input [0, old, new] -> [[old bytes, new bytes, [loaded at crash point 0..len+3], loaded after return, loaded live,
                            tmp file left after save, loaded after a save over a left-over half-written tmp, tmp left then],
                           [rocks: loaded before, loaded after return, loaded live]];
   input [1, bytes] -> loaded *)
Definition tmp_left (w : fworld) : val := match fw_tmp w with Some _ => VN 1 | None => VN 0 end.
Definition meta_probe (v : val) : val :=
  if vn (vnth v 0) =? 1 then v_hs (f_load (Some (vnl (vnth v 1))))
  else
    match hs_of_val (vnth v 2) with
    | None => VL []
    | Some new =>
        let w := match hs_of_val (vnth v 1) with Some o => f_save fw0 o | None => fw0 end in
        let k := match hs_of_val (vnth v 1) with Some o => k_save kw0 o | None => kw0 end in
        let n := length (encode new) in
        let half := firstn (Nat.div n 2) (encode new) in
        let w' := {| fw_main := fw_main w; fw_tmp := Some {| i_cache := half; i_dur := [half] |}; fw_disk := fw_disk w |} in
        VL [VL [v_content (fw_main w); v_content (Some (encode new));
                VL (map (fun cp => v_hs (f_load (fw_main (f_save_crash w new cp)))) (seq 0 (n + 4)));
                v_hs (f_load (fw_main (f_save w new)));
                v_hs (decode (encode new));
                tmp_left (f_save w new);
                v_hs (f_load (fw_main (f_save w' new)));
                tmp_left (f_save w' new)];
            VL [v_hs (f_load (kw_mem (k_save_crash k new 0)));
                v_hs (f_load (kw_mem (k_save k new)));
                v_hs (decode (encode new))]]
    end.
