(* Pinned statements of property C20. Nothing else lives here. *)
From Coq Require Import NArith List Bool.
From DE Require Import Val BufLog Store proofs.C20.
Import ListNotations.
Open Scope N_scope.

(* File log store = reference (entries and last index), live and after reopen, for every operation
   sequence of the class good_f (Store.v): batches written in increasing index order above everything
   kept, no purge of the last entry; any truncate / reset / flush / reopen. *)
Theorem C20_file_refines :
  forall ops : list sop, good_run good_f ref0 ops = true ->
    let f := f_run ops in let r := ref_run ops in
    (f_ents f = r_ents r /\ f_last f = ref_last r) /\
    (f_ents (f_reopen f) = r_ents r /\ f_last (f_reopen f) = ref_last r).
Proof. exact fstore_refines. Qed.
Print Assumptions C20_file_refines.

(* RocksDB log store = reference (entries, last index, purge boundary), live and after reopen, for every
   operation sequence of the class good_k: ANY persisted batch (out-of-order, re-written, gapped);
   replace_range batches increasing above everything kept; truncation right after an existing entry;
   no purge of the last entry. *)
Theorem C20_rocks_refines :
  forall ops : list sop, good_run good_k ref0 ops = true ->
    let k := k_run ops in let r := ref_run ops in
    (k_db k = r_ents r /\ k_last k = ref_last r /\ k_pb k = r_pb r) /\
    (k_db (k_step k SReopen) = r_ents r /\ k_last (k_step k SReopen) = ref_last r /\ k_pb (k_step k SReopen) = r_pb r).
Proof. exact rstore_refines. Qed.
Print Assumptions C20_rocks_refines.

Theorem C20_engines_agree :
  forall ops : list sop, good_run good_f ref0 ops = true -> good_run good_k ref0 ops = true ->
    let f := f_run ops in let k := k_run ops in
    (f_ents f = k_db k /\ f_last f = k_last k) /\
    (f_ents (f_reopen f) = k_db (k_step k SReopen) /\ f_last (f_reopen f) = k_last (k_step k SReopen)).
Proof. exact engines_agree. Qed.
Print Assumptions C20_engines_agree.

(* The entries the File store serves live equal the reference for EVERY sequence (no class) without reopen. *)
Theorem C20_file_live_entries_any_sequence :
  forall ops : list sop, forallb (fun o => match o with SReopen => false | _ => true end) ops = true ->
    f_ents (f_run ops) = r_ents (ref_run ops).
Proof. exact fstore_live_entries. Qed.
Print Assumptions C20_file_live_entries_any_sequence.

(* replace_range is a single step in every state, for every input (no intermediate state is produced),
   and that step is the reference's truncate-then-persist. *)
Theorem C20_replace_range_atomic :
  (forall f from es, f_ents (f_step f (SReplace from es)) = ins_all (del_ge from (f_ents f)) es) /\
  (forall k from es, k_db (k_step k (SReplace from es)) = ins_all (del_ge from (k_db k)) es) /\
  (forall s from es, ref_step s (SReplace from es) = ref_step (ref_step s (STruncate from)) (SPersist es)).
Proof. exact (conj replace_single_step_file (conj replace_single_step_rocks replace_is_truncate_then_persist_ref)). Qed.
Print Assumptions C20_replace_range_atomic.

(* The full statement (engine = reference for ALL sequences) is false for the code as written; the
   witnesses, each replayed on the real engines by the check: *)
(* persist_entries (last_index.fetch_max) keeps a correct cached last index correct: any state, any batch *)
Theorem C20_persist_keeps_last_index :
  (forall f es, f_last f = maxkey (f_ents f) ->
     f_last (f_step f (SPersist es)) = maxkey (f_ents (f_step f (SPersist es)))) /\
  (forall k es, k_last k = maxkey (k_db k) ->
     k_last (k_step k (SPersist es)) = maxkey (k_db (k_step k (SPersist es)))).
Proof. exact (conj persist_keeps_last_file persist_keeps_last_rocks). Qed.
Print Assumptions C20_persist_keeps_last_index.

(* HISTORY — the variant of the code before the fix "persist_entries: last_index.fetch_max" cached the
   maximum of the last batch (known finding file-/rocks-last-index-after-persist, now fixed) *)
Theorem C20_history_persist_v1_refuted :
  exists last es l, last = maxkey l /\ persist_last_v1 last es <> maxkey (ins_all l es).
Proof.
  exists 3, [E 2 2], [E 1 1; E 2 1; E 3 1]. split; [reflexivity|].
  destruct history_persist_v1_refuted as [A B]. rewrite A, B. discriminate.
Qed.
Print Assumptions C20_history_persist_v1_refuted.

Theorem C20_full_refuted_file_reopen :
  (exists ops, f_ents (f_run ops) = r_ents (ref_run ops) /\ f_ents (f_reopen (f_run ops)) <> r_ents (ref_run ops)) /\
  (exists ops, In dflt_entry (f_ents (f_reopen (f_run ops))) /\ ~ In dflt_entry (r_ents (ref_run ops))).
Proof.
  split.
  - exists w_resurrect. destruct file_reopen_refuted as [A [B C]]. rewrite A, B, C. split; [reflexivity|discriminate].
  - exists w_phantom. destruct file_reopen_phantom_refuted as [_ B]. rewrite B. split; [left; reflexivity|].
    vm_compute. intros [H|[]]. discriminate.
Qed.
Print Assumptions C20_full_refuted_file_reopen.

Theorem C20_full_refuted_file_purge_boundary :
  exists ops, f_pb (f_run ops) <> r_pb (ref_run ops) /\ k_pb (k_run ops) = r_pb (ref_run ops).
Proof. exists w_purge. destruct file_boundary_refuted as [A [B C]]. rewrite A, B, C. split; [discriminate|reflexivity]. Qed.
Print Assumptions C20_full_refuted_file_purge_boundary.

Theorem C20_full_refuted_last_index_after_purge :
  exists ops, f_last (f_run ops) <> f_last (f_reopen (f_run ops)) /\ k_last (k_run ops) <> k_last (k_step (k_run ops) SReopen).
Proof. exists w_purge_all. destruct purge_all_last_index_refuted as [A [B [C [D _]]]]. rewrite A, B, C, D. split; discriminate. Qed.
Print Assumptions C20_full_refuted_last_index_after_purge.

Theorem C20_full_refuted_rocks_truncate_replace :
  (exists ops, k_last (k_run ops) <> ref_last (ref_run ops) /\ k_db (k_run ops) = r_ents (ref_run ops)) /\
  (exists ops, k_db (k_run ops) <> r_ents (ref_run ops)) /\
  (exists from, k_last (k_step (k_run [SPersist [E 1 1; E 2 1; E 3 1]]) (SReplace from [])) <> 3).
Proof.
  split; [|split].
  - exists w_trunc_beyond. destruct rocks_truncate_last_refuted as [A B]. rewrite A, B. split; [discriminate|reflexivity].
  - exists w_trunc_stale. destruct rocks_truncate_entries_refuted as [A B]. rewrite A, B. discriminate.
  - exists 5. vm_compute. discriminate.
Qed.
Print Assumptions C20_full_refuted_rocks_truncate_replace.
