(* Pinned statements of property C21. Nothing else lives here.

   Full statement (both engines, both crash modes, every crash point cp of save_hard_state new after old was
   saved):   forall o, In o (outcomes mode (save_crash w new cp)) -> o = Some old \/ o = Some new,
   and outcomes Process (save w new) = [Some new].
   Process crash: it HOLDS for both stores — File (since the fix "temporary file, sync, rename"):
   C21_file_process_crash_outcome, C21_file_old_or_new_process_crash, C21_file_saved_survives_process_crash;
   RocksDB: C21_rocks_process_crash.
   Power loss: for both stores the loaded state is always a saved one or the initial absence, never torn
   (C21_file_never_undecodable, C21_rocks_never_undecodable), and it is old-or-new when the previous save was
   made durable (directory fsync resp. WAL fsync: C21_file_power_loss_partial, C21_rocks_power_loss_partial).
   Neither store issues that sync itself, so a power loss can return a state older than the previous one or
   none (C21_file_power_loss_unsynced_refuted, C21_rocks_power_loss_unsynced_refuted) — model level only.
   HISTORY: the File store before the fix lost the state at every crash point between File::create and the
   last byte (C21_history_v1_file_atomicity_refuted). *)
From Coq Require Import NArith Arith List Bool.
From DE Require Import Val MetaStore proofs.C21.
Import ListNotations.
Open Scope N_scope.

(* bincode never accepts a torn hard state, and reads back what was written *)
Theorem C21_encoding_sound :
  (forall h, wf_hs h -> decode (encode h) = Some h) /\
  (forall h k, (k < length (encode h))%nat -> decode (firstn k (encode h)) = None).
Proof. exact (conj decode_encode decode_prefix). Qed.
Print Assumptions C21_encoding_sound.

(* File, process crash: exact outcome at every crash point cp of save_to_file (cp completed steps of
   create tmp / write byte 1..len / sync tmp / rename): what was loaded before until the rename, the new
   value from the rename on *)
Theorem C21_file_process_crash_outcome :
  forall (w : fworld) (new : hs) (cp : nat), wf_hs new ->
    f_outcomes Process (f_save_crash w new cp) =
    [ if (cp <? length (encode new) + 3)%nat then f_load (fw_main w) else Some new ].
Proof. exact fmeta_process_crash. Qed.
Print Assumptions C21_file_process_crash_outcome.

(* the first sentence of C21 for the File store under process crash, at EVERY crash point *)
Theorem C21_file_old_or_new_process_crash :
  forall (w : fworld) (old new : hs) (cp : nat), wf_hs old -> wf_hs new -> fw_main w = Some (encode old) ->
    forall o, In o (f_outcomes Process (f_save_crash w new cp)) -> o = Some old \/ o = Some new.
Proof. exact fmeta_old_or_new. Qed.
Print Assumptions C21_file_old_or_new_process_crash.

Theorem C21_file_saved_survives_process_crash :
  forall (w : fworld) (new : hs), wf_hs new -> f_outcomes Process (f_save w new) = [Some new].
Proof. exact fmeta_saved_survives_process_crash. Qed.
Print Assumptions C21_file_saved_survives_process_crash.

(* File, any crash mode, any history of saves, any crash point of the last one: never torn or invented *)
Theorem C21_file_never_undecodable :
  forall (saves : list hs) (new : hs) (cp : nat) (m : mode), Forall wf_hs saves -> wf_hs new ->
    forall o, In o (f_outcomes m (f_save_crash (fold_left f_save saves fw0) new cp)) ->
      o = None \/ exists h, In h (saves ++ [new]) /\ o = Some h.
Proof. exact fmeta_never_undecodable. Qed.
Print Assumptions C21_file_never_undecodable.

(* File, power loss — partial: old-or-new needs the rename of the previous save to be durable, i.e. a
   directory fsync after it (hypothesis fw_disk w = [Some (encode old)]); FileMetaStore never issues one *)
Theorem C21_file_power_loss_partial :
  forall (w : fworld) (old new : hs) (cp : nat), wf_hs old -> wf_hs new ->
    fw_disk w = [Some (encode old)] ->
    forall o, In o (f_outcomes Power (f_save_crash w new cp)) -> o = Some old \/ o = Some new.
Proof. exact fmeta_power_loss_synced. Qed.
Print Assumptions C21_file_power_loss_partial.

(* ... and what remains without it: after three completed saves a power loss may bring back the first
   one, or no state at all (the renames never reached the disk) *)
Theorem C21_file_power_loss_unsynced_refuted :
  exists a b c : hs, wf_hs a /\ wf_hs b /\ wf_hs c /\ Some a <> Some b /\ Some a <> Some c /\
    In (Some a) (f_outcomes Power (f_save (f_save (f_save fw0 a) b) c)) /\
    In None (f_outcomes Power (f_save (f_save (f_save fw0 a) b) c)).
Proof.
  exists hA, hB, hC. rewrite fmeta_power_loss_unsynced_refuted.
  repeat split; try exact wf_A; try exact wf_B; try exact wf_C; try discriminate; cbn; tauto.
Qed.
Print Assumptions C21_file_power_loss_unsynced_refuted.

(* RocksDB, process crash: old before the put, new after it — atomic, and durable once save returned *)
Theorem C21_rocks_process_crash :
  forall (w : kworld) (new : hs) (cp : nat), wf_hs new ->
    k_outcomes Process (k_save_crash w new cp) = [ match cp with O => f_load (kw_mem w) | S _ => Some new end ].
Proof. exact rmeta_process_crash. Qed.
Print Assumptions C21_rocks_process_crash.

Theorem C21_rocks_power_loss_partial :
  forall (w : kworld) (old new : hs) (cp : nat), wf_hs old -> wf_hs new ->
    kw_unsynced w = [Some (encode old)] ->
    forall o, In o (k_outcomes Power (k_save_crash w new cp)) -> o = Some old \/ o = Some new.
Proof. exact rmeta_power_loss_synced. Qed.
Print Assumptions C21_rocks_power_loss_partial.

Theorem C21_rocks_never_undecodable :
  forall (saves : list hs) (m : mode), Forall wf_hs saves ->
    forall o, In o (k_outcomes m (fold_left k_save saves kw0)) ->
      o = None \/ exists h, In h saves /\ o = Some h.
Proof. exact rmeta_never_undecodable. Qed.
Print Assumptions C21_rocks_never_undecodable.

Theorem C21_rocks_power_loss_unsynced_refuted :
  exists a b c : hs, wf_hs a /\ wf_hs b /\ wf_hs c /\
    In (Some a) (k_outcomes Power (k_save (k_save (k_save (k_flush kw0) a) b) c)) /\ Some a <> Some b /\ Some a <> Some c.
Proof.
  exists hA, hB, hC. destruct rmeta_power_loss_unsynced_refuted as [H1 [_ [H2 H3]]].
  exact (conj wf_A (conj wf_B (conj wf_C (conj H1 (conj H2 H3))))).
Qed.
Print Assumptions C21_rocks_power_loss_unsynced_refuted.

(* HISTORY — FileMetaStore::save_to_file before the fix (File::create on the live file, write_all, no
   sync; known finding file-hard-state-missing-after-crash-inside-save, now fixed): in EVERY save a process
   crash after the truncation and before the last byte left no hard state at all *)
Theorem C21_history_v1_file_atomicity_refuted :
  forall (w : fworld) (new : hs) (cp : nat), (1 <= cp <= length (encode new))%nat ->
    f_outcomes Process (f_save_crash_v1 w new cp) = [None].
Proof. exact history_v1_atomic_refuted. Qed.
Print Assumptions C21_history_v1_file_atomicity_refuted.
