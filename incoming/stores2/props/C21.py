"""C21 — saved term and vote across crashes inside / after save_hard_state (File and RocksDB meta stores)."""
import json
from dvlib import core, flow
from dvlib.core import Broken

ID = 'C21'
PROPS_FILE = 'theories/props/Properties_C21.v'
CONE = ['theories/MetaStore.v', 'theories/proofs/C21.v']
IMPORTS = 'From DE Require Import MetaStore.'

def oracle(case, out):
    """Property on the implementation's outputs: at every crash point the loaded state is the previous or the new
    one; after save returned it is the new one. Returns list of (class, why)."""
    if case[0] != 0: return []
    old, new = case[1], case[2]; res = []
    f, k = out
    old_bytes, new_bytes, at, after, live, tmp_left, rec, rec_tmp_left = f
    n = len(new_bytes[0])
    for cp, r in enumerate(at):
        if r != old and r != new:
            what = 'no hard state at all' if r == [] else ('an error' if r == [9] else 'a different state %s' % json.dumps(r))
            where = ('before File::create(hard_state.bin.tmp)' if cp == 0 else
                     'after File::create(tmp) and %d of %d bytes of write_all' % (cp - 1, n) if cp <= n + 1 else
                     'after sync_all(tmp), before rename' if cp == n + 2 else 'after rename')
            cls = 'file-hard-state-missing-after-crash-inside-save' if r == [] else 'file-hard-state-corrupt-after-crash-inside-save'
            res.append((cls, 'FileMetaStore: crash %s: restart loads %s (previous %s, new %s)' % (where, what, json.dumps(old), json.dumps(new))))
            break
    if rec != new: res.append(('file-saved-hard-state-lost-after-return', 'FileMetaStore: save_hard_state over a left-over temporary file returned, restart loads %s, saved %s' % (json.dumps(rec), json.dumps(new))))
    if after != new: res.append(('file-saved-hard-state-lost-after-return', 'FileMetaStore: process crash after save_hard_state returned: restart loads %s, saved %s' % (json.dumps(after), json.dumps(new))))
    if live != new: res.append(('file-load-differs-from-saved', 'FileMetaStore: load_hard_state after save returns %s, saved %s' % (json.dumps(live), json.dumps(new))))
    before, kafter, klive = k
    if before != old and before != new: res.append(('rocks-hard-state-corrupt-before-save', 'RocksDBMetaStore: crash before the put: restart loads %s, previous %s' % (json.dumps(before), json.dumps(old))))
    if kafter != new: res.append(('rocks-saved-hard-state-lost-after-return', 'RocksDBMetaStore: process crash after save_hard_state returned: restart loads %s, saved %s' % (json.dumps(kafter), json.dumps(new))))
    if klive != new: res.append(('rocks-load-differs-from-saved', 'RocksDBMetaStore: load_hard_state after save returns %s, saved %s' % (json.dumps(klive), json.dumps(new))))
    return res

U64 = 2 ** 64 - 1; U32 = 2 ** 32 - 1

def gen_cases(run, thorough):
    r = run.rng('meta'); cases = []; dist = {}
    def tag(t): dist[t] = dist.get(t, 0) + 1
    def num(mx):
        x = r.below(10)
        if x < 5: return r.range(0, 9)
        if x < 7: return r.choice([0, 1, 255, 256, 65535, 2 ** 31, mx - 1, mx])
        return r.below(mx + 1)
    def hs():
        if r.chance(1, 3): return [num(U64), []]
        return [num(U64), [num(U32), num(U64), r.below(2)]]
    # boundary cases: first boot, vote -> no vote (shorter file), no vote -> vote, same value, extreme numbers
    fixed = [([], [1, []]), ([], [1, [2, 1, 0]]), ([3, [2, 3, 1]], [4, []]), ([4, []], [5, [1, 5, 0]]), ([7, [1, 7, 1]], [7, [1, 7, 1]]),
             ([U64, [U32, U64, 1]], [0, []]), ([0, []], [U64, [U32, U64, 1]]), ([2, [3, 2, 0]], [2, [3, 2, 1]])]
    for o, n in fixed:
        cases.append([0, o, n]); tag('boundary')
    for _ in range(400 if thorough else 40):
        o = [] if r.chance(1, 8) else hs(); n = hs()
        cases.append([0, o, n]); tag('first-boot' if o == [] else ('vote->vote' if o[1] and n[1] else 'mixed'))
    # raw file contents for load_from_file: valid encodings, truncated, extended, bad tag / bool bytes, random
    def enc(h):
        b = list(h[0].to_bytes(8, 'little'))
        if not h[1]: return b + [0]
        return b + [1] + list(h[1][0].to_bytes(4, 'little')) + list(h[1][1].to_bytes(8, 'little')) + [h[1][2]]
    for _ in range(2500 if thorough else 300):
        b = enc(hs()); x = r.below(10)
        if x < 2: tag('raw-valid')
        elif x < 4: b = b[:r.range(0, len(b))]; tag('raw-truncated')
        elif x < 5: b = b + [r.below(256) for _ in range(r.range(1, 5))]; tag('raw-trailing')
        elif x < 7: b[8] = r.choice([0, 1, 2, 255]); tag('raw-tag-byte')
        elif x < 8 and len(b) == 22: b[21] = r.choice([0, 1, 2, 255]); tag('raw-bool-byte')
        else: b = [r.below(256) for _ in range(r.range(0, 30))]; tag('raw-random')
        cases.append([1, b])
    return cases, dist

def check(run):
    thorough = run.tier == 'thorough'
    run.cov['trusted_base'] += [
        "hand-written model DE.MetaStore: bincode 1.3 layout of HardState, FileMetaStore::save_to_file as the step sequence File::create(hard_state.bin.tmp) / write_all byte by byte / flush + sync_all / rename over hard_state.bin (no directory fsync), load_from_file; RocksDBMetaStore as one atomic put into an unsynced WAL — tied to the code by the store_meta probe",
        "crash emulation on the real File store: the probe reproduces the effects of the system calls of save_to_file up to the crash point (hard_state.bin = what the previous real save wrote, hard_state.bin.tmp = the first k bytes of what the real save wrote; after the rename: hard_state.bin = new bytes, no tmp) in a fresh directory and opens a real FileStorageEngine on it; 'after return' = a copy of the directory taken while the store is still open; a real save over a left-over half-written tmp file is exercised too",
        "crash emulation on the real RocksDB store: copy of the database directory taken while the DB is open (no flush, no close), opened as a new RocksDBStorageEngine",
        "power-loss semantics (which un-synced states may reach the disk) is a model assumption; it is not exercised on the real file system. RocksDB's contract (a put is one atomic WAL record, the WAL is recovered as a prefix) is assumed",
    ]
    run.assumptions += ["write_all delivers the bytes of the value in order (a crash leaves a prefix)", "power loss: file data is durable after sync_all of that file; create/rename are durable only after an fsync of the directory, else they reach the disk in order or not at all",
                        "nothing else writes to the meta directory"]
    broken = flow.proof_step(run, PROPS_FILE, CONE)
    violations = []
    try:
        core.harness_build()
        cases, dist = gen_cases(run, thorough)
        outs = core.probe_parallel('store_meta', cases)
        pairs = []
        for c, o in zip(cases, outs):
            if isinstance(o, str):
                broken.append(('correspondence', 'store_meta probe error', o[:300])); continue
            pairs.append((c, o))
            for cls, why in oracle(c, o):
                violations.append({'class': cls, 'probe': 'store_meta', 'input': c, 'output': o, 'why': why})
        mism = core.coq_index_list(IMPORTS, '', 'meta_probe', pairs, tag='C21')
        if mism:
            i = mism[0]
            broken.append(('correspondence', 'DE.MetaStore vs FileMetaStore/RocksDBMetaStore (probe store_meta)',
                           '%d disagreements; first on %s -> impl %s' % (len(mism), json.dumps(pairs[i][0]), json.dumps(pairs[i][1]))))
        run.cov['disagreements'] = len(mism)
        dist['crash-points-evaluated'] = sum(len(o[0][2]) + 3 for c, o in pairs if c[0] == 0)
        run.add_cases(len(pairs), len({json.dumps(c) for c, _ in pairs}), [{'case': pairs[j][0], 'impl': pairs[j][1]} for j in (0, len(pairs) - 1)], dist,
                      'seeded: (previous, new) hard states incl. first boot, vote/no-vote changes, u64/u32 extremes — every crash point of save_to_file (before create of the temporary file, after create + k bytes for every k, after sync_all, after rename), the state after return and a save over a left-over temporary file, on both engines; raw hard_state.bin contents (valid, truncated, trailing bytes, bad tag / bool bytes, random) through load_from_file')
    except Broken as b:
        broken.append(('harness', b.what, b.detail))
    return flow.conclude(run, broken, violations)

def replay(path):
    r = json.load(open(path))
    if r.get('kind') != 'counterexample':
        print('broken obligation:', [b['name'] for b in r.get('broken', [])]); return 1
    core.harness_build()
    out = core.probe('store_meta', [r['input']])[0]
    print('implementation output:', json.dumps(out))
    res = oracle(r['input'], out)
    for cls, why in res: print('VIOLATES [%s]: %s' % (cls, why))
    if not res: print('ok')
    return 1 if res else 0

META = {
    'title': 'Saved term and vote are never lost or corrupted',
    'level': 'proof',
    'technique': 'Rocq theorems over a byte-level model of the bincode hard-state file and a two-layer storage world (file data durable after sync_all, namespace operations durable after a directory fsync), enumerating every crash point of save_hard_state for both meta stores under process-crash and power-loss semantics; the File save (temporary file, sync, rename) is proved to refine one atomic put whose commit point is the rename; + differential check against the real stores with crash emulation (directory contents reproduced up to the crash point, directory copies of the live stores)',
    'text': "Rocq: C21_encoding_sound (bincode round trip; every strict prefix of an encoded hard state is rejected); C21_file_process_crash_outcome and C21_file_old_or_new_process_crash (at EVERY crash point of FileMetaStore::save_to_file — create tmp, each byte, sync_all, rename — a restart loads the previous value until the rename and the new one from it on); C21_file_saved_survives_process_crash, C21_rocks_process_crash (once save returned the new value survives a process crash; RocksDB is atomic at every crash point); C21_file_never_undecodable, C21_rocks_never_undecodable (any crash mode, any history: the loaded state is a saved one or the initial absence, never torn); C21_file_power_loss_partial, C21_rocks_power_loss_partial (old-or-new under power loss when the previous save was made durable by a directory fsync resp. WAL fsync). What remains, model level only: neither store issues that sync, so a power loss can return a state older than the previous one, or none (C21_file_power_loss_unsynced_refuted, C21_rocks_power_loss_unsynced_refuted). History: C21_history_v1_file_atomicity_refuted — the File store before the fix lost the state at every crash point between File::create and the last byte.",
    'note': "Trusted: Coq kernel, hand model DE.MetaStore (validated by the store_meta probe), crash emulation by file/directory copies, the power-loss semantics of the model (not exercised on a real file system), RocksDB's WAL contract. The unchanged tree violated the property for the File store (truncate-then-write); repaired by a fix: commit, see known_findings.json.",
    'design_ref': 'DESIGN.md §4 C21',
}
