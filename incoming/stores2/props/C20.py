"""C20 — the File and RocksDB log stores against a reference store (entries, last index, purge boundary), live and after reopen."""
import json
from dvlib import core, flow
from dvlib.core import Broken

ID = 'C20'
PROPS_FILE = 'theories/props/Properties_C20.v'
CONE = ['theories/BufLog.v', 'theories/Store.v', 'theories/proofs/C20.v']
IMPORTS = 'From DE Require Import BufLog Store.'
KIND = {0: 'persist', 1: 'truncate', 2: 'replace', 3: 'purge', 4: 'reset', 5: 'flush', 6: 'reopen'}

# ------------------------------------------------------------------ reference store (python twin of Store.ref_step,
# cross-checked against the Coq definition on every run)
def ref_trace(ops):
    m = {}; pb = []; out = []
    for op in ops:
        k = op[0]
        if k == 0:
            for e in op[1]: m[e[0]] = e
        elif k == 1:
            m = {i: e for i, e in m.items() if i < op[1]}
        elif k == 2:
            m = {i: e for i, e in m.items() if i < op[1]}
            for e in op[2]: m[e[0]] = e
        elif k == 3:
            m = {i: e for i, e in m.items() if i > op[1]}; pb = [op[1], op[2]]
        elif k == 4:
            m = {}
        out.append([[m[i] for i in sorted(m)], max(m) if m else 0, list(pb), 1])
    return out

def oracle(case, out):
    """All violations of one case: list of (class, why). Per engine: the first divergence of the entries ends the
    comparison of that engine (what follows is a consequence); a last-index divergence is reported at the operation
    where it appears; the purge boundary once."""
    ops = case[0]; ref = ref_trace(ops); res = []
    for eng, obs in (('file', out[0]), ('rocks', out[1])):
        last_ok = True; pb_ok = True
        for j, (o, r) in enumerate(zip(obs, ref)):
            kind = KIND.get(ops[j][0], '?')
            when = 'op %d (%s %s)' % (j, kind, json.dumps(ops[j][1:]))
            if o[3] != 1:
                res.append(('%s-entry-vs-get_entries' % eng, '%s: entry(i) and get_entries disagree after %s' % (eng, when))); break
            if o[0] != r[0]:
                res.append(('%s-entries-after-%s' % (eng, kind), '%s store holds %s, reference holds %s after %s' % (eng, json.dumps(o[0]), json.dumps(r[0]), when))); break
            if o[1] != r[1]:
                if last_ok:
                    res.append(('%s-last-index-after-%s' % (eng, kind), '%s last_index() = %d, reference %d after %s' % (eng, o[1], r[1], when)))
                last_ok = False
            else:
                last_ok = True
            if o[2] != r[2] and pb_ok:
                pb_ok = False
                res.append(('%s-purge-boundary-after-%s' % (eng, kind), '%s load_purge_boundary() = %s, reference %s after %s' % (eng, json.dumps(o[2]), json.dumps(r[2]), when)))
    return res

# ------------------------------------------------------------------ generators
def E(i, t, pl=None): return [i, t, pl if pl is not None else 1000 * t + i]

WITNESSES = [  # the witnesses of proofs/C20.v (…_refuted lemmas) and boundary cases
    ('w_last', [[0, [E(1, 1), E(2, 1), E(3, 1)]], [0, [E(2, 2)]]]),
    ('w_resurrect', [[0, [E(1, 1), E(2, 1), E(3, 1)]], [0, [E(2, 2)]], [1, 3]]),
    ('w_lost', [[0, [E(2, 1)]], [0, [E(1, 1)]], [1, 3]]),
    ('w_phantom', [[0, [E(2, 1)]], [0, [E(1, 1)]], [1, 3], [1, 2]]),
    ('w_purge', [[0, [E(1, 1), E(2, 1), E(3, 1)]], [3, 2, 1]]),
    ('w_purge_all', [[0, [E(1, 1), E(2, 1)]], [3, 2, 1]]),
    ('w_trunc_beyond', [[0, [E(1, 1), E(2, 1), E(3, 1)]], [1, 7]]),
    ('w_trunc_stale', [[0, [E(1, 1), E(2, 1), E(3, 1), E(4, 1)]], [2, 5, [E(2, 2)]], [1, 2]]),
    ('rewrite-then-truncate', [[0, [E(1, 1), E(2, 1), E(3, 1), E(4, 1)]], [0, [E(2, 2)]], [1, 2]]),
    ('out-of-order-batches', [[0, [E(5, 1), E(2, 1)]], [0, [E(2, 2), E(9, 2), E(1, 2)]], [0, [E(3, 3)]]]),
    ('w_replace', [[0, [E(1, 1), E(2, 1), E(3, 1)]], [2, 5, []]]),
    ('empty', []),
    ('persist-empty', [[0, []], [0, [E(1, 1)]], [0, []]]),
    ('truncate-0-1', [[0, [E(1, 1), E(2, 1)]], [1, 1], [0, [E(1, 2)]], [1, 0]]),
    ('purge-0', [[3, 0, 0], [0, [E(1, 1), E(2, 1)]], [3, 0, 0]]),
    ('reset', [[0, [E(1, 1), E(2, 1)]], [3, 1, 1], [4], [0, [E(1, 3)]]]),
    ('replace-mid', [[0, [E(i, 1) for i in range(1, 8)]], [2, 4, [E(4, 2), E(5, 2)]], [5]]),
    ('gap', [[0, [E(1, 1), E(5, 1), E(9, 2)]], [1, 6], [0, [E(7, 3)]]]),
]

def gen_cases(run, thorough):
    cases = []; dist = {}
    def tag(t): dist[t] = dist.get(t, 0) + 1
    for name, ops in WITNESSES:
        cases.append([ops + [[6]]]); tag('witness/boundary')
    # ---- structured: what BufferedRaftLog's IO thread issues (monotone batches, replace_range at a conflict,
    # purge below the last entry, occasional reset), with reopen anywhere
    r = run.rng('raft-shaped')
    for _ in range(1500 if thorough else 150):
        ops = []; last = 0; first = 1; term = 1
        for _ in range(r.range(2, 9)):
            x = r.below(100)
            if x < 45 or last == 0:
                n = r.range(1, 5)
                if r.chance(1, 4): term += 1
                ops.append([0, [E(last + 1 + j, term) for j in range(n)]]); last += n
            elif x < 60 and last >= first:
                frm = r.range(first, last); term += 1; n = r.range(0 if frm > first else 1, 3)
                ops.append([2, frm, [E(frm + j, term) for j in range(n)]]); last = frm + n - 1
            elif x < 68 and last >= first:
                frm = r.range(first + 1, last + 1) if last > first else last + 1
                ops.append([1, frm]); last = frm - 1
            elif x < 80 and last > first:
                c = r.range(first, last - 1); ops.append([3, c, r.range(1, term)]); first = c + 1
            elif x < 84:
                ops.append([4]); last = 0; first = 1
            elif x < 92:
                ops.append([5])
            else:
                ops.append([6])
        ops.append([6]); tag('raft-shaped'); cases.append([ops])
    # ---- arbitrary: out-of-order and rewritten indexes, truncation / purge / replace anywhere
    r = run.rng('arbitrary')
    for _ in range(4000 if thorough else 330):
        ops = []; hi = r.choice([4, 6, 9])
        def batch():
            n = r.range(0, 4); style = r.below(3)
            if style == 0:
                s = r.range(1, hi); idx = [s + j for j in range(n)]
            elif style == 1:
                idx = sorted(r.range(1, hi + 3) for _ in range(n))
            else:
                idx = [r.range(1, hi + 3) for _ in range(n)]
            t = r.range(1, 5)
            return [E(i, t, r.range(1, 10 ** 6)) for i in idx]
        for _ in range(r.range(1, 8)):
            x = r.below(100)
            if x < 40: ops.append([0, batch()])
            elif x < 55: ops.append([1, r.range(0, hi + 4)])
            elif x < 70: ops.append([2, r.range(0, hi + 4), batch()])
            elif x < 82: ops.append([3, r.range(0, hi + 2), r.range(0, 5)])
            elif x < 86: ops.append([4])
            elif x < 91: ops.append([5])
            else: ops.append([6])
        ops.append([6]); tag('arbitrary'); cases.append([ops])
    return cases, dist

def classify(violations, c, o):
    for cls, why in oracle(c, o):
        violations.append({'class': cls, 'probe': 'store_log', 'input': c, 'output': o, 'why': why})

def check(run):
    thorough = run.tier == 'thorough'
    run.cov['trusted_base'] += [
        "hand-written model DE.Store of FileLogStore (file_storage_engine.rs) and RocksDBLogStore (rocksdb_storage_engine.rs), tied to the code by the store_log probe; file positions are counted in records (exact for the probe's uniformly sized records: index, term < 128, 8-byte payload)",
        "reference LogStore DE.Store.ref_step: map index -> entry, last index = largest key or 0, purge boundary = LogId of the last purge() call, kept by reset",
        "RocksDB itself (WriteBatch, iterators, delete_range) and the file system are exercised for real but not modelled below the map level",
    ]
    run.assumptions += ["reopen is a graceful one (every handle dropped, Drop impls run); crash recovery of the log is C18",
                        "indexes below u64::MAX (RocksDB replace_range's delete_range_cf end key is exclusive)"]
    broken = flow.proof_step(run, PROPS_FILE, CONE)
    violations = []
    try:
        core.harness_build()
        cases, dist = gen_cases(run, thorough)
        outs = core.probe_parallel('store_log', cases)
        pairs = []
        for c, o in zip(cases, outs):
            if isinstance(o, str):
                broken.append(('correspondence', 'store_log probe error', o[:300])); continue
            pairs.append((c, o))
            classify(violations, c, o)
        # correspondence: model of both engines vs the real engines
        mism = core.coq_index_list(IMPORTS, '', 'store_probe', pairs, tag='C20')
        if mism:
            i = mism[0]
            broken.append(('correspondence', 'DE.Store.f_step/k_step vs FileLogStore/RocksDBLogStore (probe store_log)',
                           '%d disagreements; first on %s -> impl %s' % (len(mism), json.dumps(pairs[i][0]), json.dumps(pairs[i][1]))))
        run.cov['disagreements'] = len(mism)
        # the python reference used by the oracle is the Coq reference of the theorems
        rm = core.coq_index_list(IMPORTS, '', 'store_ref_probe', [(c, ref_trace(c[0])) for c, _ in pairs], tag='C20ref')
        if rm:
            broken.append(('oracle-reference', 'props/C20.py ref_trace vs DE.Store.ref_step', 'first on %s' % json.dumps(pairs[rm[0]][0])))
        # how many cases lie inside the classes of the refinement theorems (there the oracle must be silent)
        out_f = set(core.coq_index_list(IMPORTS, '', '(fun v _ => vbool (vnth (store_class_probe v) 0))', pairs, mode='failing', tag='C20cf'))
        out_k = set(core.coq_index_list(IMPORTS, '', '(fun v _ => vbool (vnth (store_class_probe v) 1))', pairs, mode='failing', tag='C20ck'))
        dist['in-class-file'] = len(pairs) - len(out_f); dist['in-class-rocks'] = len(pairs) - len(out_k)
        for j, (c, o) in enumerate(pairs):
            for cls, why in oracle(c, o):
                eng = cls.split('-')[0]
                if (eng == 'file' and j not in out_f and 'purge-boundary' not in cls) or (eng == 'rocks' and j not in out_k):
                    broken.append(('theorem-vs-implementation', 'case inside the proved class violates the property: ' + cls, json.dumps(c)))
        dist['cases-with-divergence'] = sum(1 for c, o in pairs if oracle(c, o))
        dist['engines-disagree'] = sum(1 for c, o in pairs if [x[:2] for x in o[0]] != [x[:2] for x in o[1]])
        nops = sum(len(c[0]) for c, _ in pairs); dist['ops'] = nops
        run.add_cases(len(pairs), len({json.dumps(c) for c, _ in pairs}), [{'case': pairs[j][0], 'impl': pairs[j][1]} for j in (0, len(pairs) - 1)], dist,
                      'seeded: witnesses of the _refuted lemmas and boundary cases; raft-shaped sequences (monotone batches, replace_range at a conflict point, purge below last, reset, flush, reopen); arbitrary sequences over indexes 1..12 with out-of-order / rewritten / gapped batches, truncate / replace_range / purge anywhere; every case ends with reopen; both engines observed after every op (get_entries, entry(i), last_index, load_purge_boundary)')
    except Broken as b:
        broken.append(('harness', b.what, b.detail))
    return flow.conclude(run, broken, violations)

def replay(path):
    r = json.load(open(path))
    if r.get('kind') != 'counterexample':
        print('broken obligation:', [b['name'] for b in r.get('broken', [])]); return 1
    core.harness_build()
    out = core.probe('store_log', [r['input']])[0]
    print('implementation output:', json.dumps(out))
    res = oracle(r['input'], out)
    for cls, why in res: print('VIOLATES [%s]: %s' % (cls, why))
    if not res: print('ok')
    return 1 if res else 0

META = {
    'title': 'Log and meta stores honour the storage contract',
    'level': 'proof',
    'technique': 'Rocq refinement proofs (induction over operation sequences) of the FileLogStore and RocksDBLogStore models against a reference store on the class of sequences where the code conforms, vm_compute witnesses where it does not, + differential check of both models against the real engines in temporary directories incl. reopen, with the reference evaluated on the real outputs',
    'text': "Rocq: C20_file_refines — for every operation sequence (persist, truncate, replace_range, purge, reset, flush, reopen) in which batches are written in increasing index order above everything kept and no purge removes the last entry, the File store returns the reference's entries and last index, live and after reopen; C20_rocks_refines — the same incl. the purge boundary for RocksDB with ANY persisted batch (out-of-order, re-written, gapped), replace_range batches increasing above everything kept, truncation right after an existing entry; C20_engines_agree; C20_persist_keeps_last_index (any state, any batch, both engines — since the fetch_max fix); C20_file_live_entries_any_sequence (no class); C20_replace_range_atomic (one step, for every state and input). Outside the classes the statement is false for the code as written — C20_full_refuted_* — and each witness is replayed on the real engines: the cached last index is not maintained by purge (both), is from-1 after RocksDB truncate and the last new index after replace_range; RocksDB truncate stops at a stale cached last index; File truncate cuts by index order, so rewritten / out-of-order entries resurrect, vanish or turn into index-0 phantoms on reopen; File never reports a purge boundary. History: C20_history_persist_v1_refuted (persist_entries used to cache the maximum of the last batch).",
    'note': "Trusted: Coq kernel, hand model DE.Store (validated by the store_log probe on every run), record-granular file model (uniform record size), RocksDB/FS below the map level. Known findings are listed in known_findings.json by class; the persist last-index classes were repaired by a fix: commit.",
    'design_ref': 'DESIGN.md §4 C20',
}
