//! Probes of the membership block (C03, C26, C27, C28). They drive the REAL
//! `d_engine_server::RaftMembership` (reachable through the add-only hook `RaftMembership::verif_new`,
//! which calls exactly `RaftMembership::new`, the constructor `NodeBuilder::build` uses), the real
//! `ElectionHandler::broadcast_vote_requests`, `LearnerState` and `LeaderState::handle_join_cluster`.
//!
//! probe `membership`: input [self_id, [[id, role, status]...] (initial_cluster), [step...]]
//!   step = [0, id, status]            committed AddNode applied (apply_config_change)
//!          [1, id]                    RemoveNode
//!          [2, id]                    Promote
//!          [3, [ids], new_status]     BatchPromote
//!          [4, [ids]]                 BatchRemove
//!          [5]                        restart: membership rebuilt the way builder.rs does (from initial_cluster)
//!          [6, [r...]]                election attempt through ElectionHandler::broadcast_vote_requests with a recording
//!                                     mock transport; r per current voter in ascending id order: 0 refuse, 1 grant, 2 rpc error
//!          [7, current, available]    leader_state::calculate_safe_batch_size
//!          [8, id, role]              the join pre-checks of handle_join_cluster: contains_node, can_rejoin
//!          [9, [pending ids]]         the leader's promotion of ready learners (batch size from calculate_safe_batch_size) -> [ok, n]
//!   output: [[res, view]...] (first element: [[], initial view]); view = [members [[id, role, status]] sorted by id,
//!           voters (ids, sorted), replication_peers (ids, sorted), is_single_node_cluster, initial_cluster_size, conf_version]
//!           res: change -> [ok]; restart -> [1]; election -> [won, vote_requests_sent, peers_asked, BecomeLeader events sent by a real CandidateState::tick at the same moment]; 7 -> [n]; 8 -> [contains, can_rejoin_ok]
//!
//! probe `learner`: input [my_id, [entries], [event...]]; event = [0, term, candidate, last_index, last_term] vote request,
//!   [1] tick, [2] become_candidate, [3, promoted] MembershipApplied with the learner's own entry promoted or not
//!   output per event: vote -> [0, answered, granted, current_term_after]; tick -> [1, internal_events, timer_expired, vote_requests_sent];
//!   become_candidate -> [2, ok]; membership applied -> [3, become_follower_emitted]
//!
//! probe `join`: input [[[id, role, status]...] (membership of leader 1), [entries], term, [event...]]
//!   event = [0, node_id, role, status] JoinCluster request; [1, peer, match_index] success ack of a peer in the leader's term;
//!           [2] LogFlushed(last index)
//!   after every event the probe plays the commit handler: config entries up to the new commit index are applied to the
//!   real membership (apply_config_change) and the leader is told (handle_membership_applied).
//!   output per event: [commit_index, last_log_index, [[join_log_index_or_0, state]...] per join so far, members ids]
//!           state: 0 pending, 1 answered success, 2 answered error
use crate::sim::*;
use d_engine_core::learner_state::LearnerState;
use d_engine_core::leader_state::LeaderState;
use d_engine_core::role_state::RaftRoleState;
use d_engine_core::*;
use d_engine_proto::common::membership_change::Change;
use d_engine_proto::common::{AddNode, BatchPromote, BatchRemove, LogId, MembershipChange, PromoteLearner, RemoveNode};
use d_engine_proto::common::entry_payload::Payload;
use d_engine_proto::server::cluster::{JoinRequest, JoinResponse, NodeMeta};
use d_engine_proto::server::election::{VoteRequest, VoteResponse};
use d_engine_proto::server::replication::{append_entries_response, AppendEntriesResponse, SuccessResult};
use d_engine_server::RaftMembership;
use serde_json::{json, Value};
use std::sync::atomic::{AtomicUsize, Ordering};
use std::sync::Arc;

#[derive(Debug)]
pub struct MemTC;
impl TypeConfig for MemTC {
    type SE = SimEngine;
    type SM = MockStateMachine;
    type R = BufferedRaftLog<Self>;
    type M = RaftMembership<Self>;
    type TR = MockTransport<Self>;
    type E = ElectionHandler<Self>;
    type REP = ReplicationHandler<Self>;
    type C = MockCommitHandler;
    type SMH = MockStateMachineHandler<Self>;
    type SNP = MockSnapshotPolicy;
    type PE = MockPurgeExecutor;
}

fn metas(v: &Value) -> Vec<NodeMeta> {
    v.as_array()
        .map(|a| {
            a.iter()
                .map(|n| {
                    let id = n[0].as_u64().unwrap() as u32;
                    NodeMeta { id, address: format!("127.0.0.1:{}", 9000 + id), role: n[1].as_u64().unwrap() as i32, status: n[2].as_u64().unwrap() as i32 }
                })
                .collect()
        })
        .unwrap_or_default()
}

fn ids(v: &Value) -> Vec<u32> {
    crate::ints(v).into_iter().map(|x| x as u32).collect()
}

fn new_log(engine: Arc<SimEngine>) -> Arc<BufferedRaftLog<MemTC>> {
    let (log, rx) = BufferedRaftLog::<MemTC>::new(1, PersistenceConfig::default(), engine);
    log.start(rx, None)
}

fn mem_context(node_id: u32, log: Arc<BufferedRaftLog<MemTC>>, membership: Arc<RaftMembership<MemTC>>, transport: MockTransport<MemTC>, cfg: RaftNodeConfig) -> RaftContext<MemTC> {
    let mut smh = MockStateMachineHandler::<MemTC>::new();
    smh.expect_get_latest_snapshot_metadata().returning(|| None);
    let mut sm = MockStateMachine::new();
    sm.expect_last_applied().returning(|| LogId { term: 0, index: 0 });
    sm.expect_snapshot_metadata().returning(|| None);
    RaftContext {
        node_id,
        storage: RaftStorageHandles { raft_log: log, state_machine: Arc::new(sm) },
        transport: Arc::new(transport),
        membership,
        handlers: RaftCoreHandlers {
            election_handler: ElectionHandler::new(node_id),
            replication_handler: ReplicationHandler::new(node_id),
            state_machine_handler: Arc::new(smh),
            purge_executor: Arc::new(MockPurgeExecutor::new()),
        },
        node_config: Arc::new(cfg),
    }
}

async fn view(m: &RaftMembership<MemTC>) -> Value {
    let mut members: Vec<(u32, i32, i32)> = m.members().await.iter().map(|n| (n.id, n.role, n.status)).collect();
    members.sort();
    let mut voters: Vec<u32> = m.voters().await.iter().map(|n| n.id).collect();
    voters.sort();
    let mut peers: Vec<u32> = m.replication_peers().await.iter().map(|n| n.id).collect();
    peers.sort();
    json!([
        members.iter().map(|(a, b, c)| json!([a, b, c])).collect::<Vec<_>>(),
        voters,
        peers,
        if m.is_single_node_cluster().await { 1 } else { 0 },
        m.initial_cluster_size().await,
        m.get_cluster_conf_version().await
    ])
}

fn change_of(step: &Value) -> Option<Change> {
    match step[0].as_u64().unwrap() {
        0 => {
            let id = step[1].as_u64().unwrap() as u32;
            Some(Change::AddNode(AddNode { node_id: id, address: format!("127.0.0.1:{}", 9000 + id), status: step[2].as_u64().unwrap() as i32 }))
        }
        1 => Some(Change::RemoveNode(RemoveNode { node_id: step[1].as_u64().unwrap() as u32 })),
        2 => Some(Change::Promote(PromoteLearner { node_id: step[1].as_u64().unwrap() as u32, ..Default::default() })),
        3 => Some(Change::BatchPromote(BatchPromote { node_ids: ids(&step[1]), new_status: step[2].as_u64().unwrap() as i32 })),
        4 => Some(Change::BatchRemove(BatchRemove { node_ids: ids(&step[1]) })),
        _ => None,
    }
}

pub fn membership(rt: &tokio::runtime::Runtime, case: Value) -> Value {
    let me = case[0].as_u64().unwrap() as u32;
    let init = metas(&case[1]);
    let cfg = base_config();
    let log = new_log(Arc::new(SimEngine::default()));
    let mut outs = vec![];
    rt.block_on(async {
        // builder.rs: RaftMembership::new(node_id, node_config.cluster.initial_cluster.clone(), node_config.clone())
        // the candidate's log is non-empty so that a refusal carrying an empty log is a plain refusal (no LogConflict abort)
        log.append_entries(vec![mk_entry(1, 1, 1)]).await.unwrap();
        let mut m = Arc::new(RaftMembership::<MemTC>::verif_new(me, init.clone(), cfg.clone()));
        outs.push(json!([[], view(&m).await]));
        let mut term = 1u64;
        for step in case[2].as_array().unwrap() {
            let k = step[0].as_u64().unwrap();
            let res = match k {
                0..=4 => {
                    let r = m.apply_config_change(MembershipChange { change: change_of(step) }).await;
                    json!([if r.is_ok() { 1 } else { 0 }])
                }
                5 => {
                    m = Arc::new(RaftMembership::<MemTC>::verif_new(me, init.clone(), cfg.clone()));
                    json!([1])
                }
                6 => {
                    term += 1;
                    let mut voters: Vec<u32> = m.voters().await.iter().map(|n| n.id).collect();
                    voters.sort();
                    let rs = crate::ints(&step[1]);
                    let sent = Arc::new(AtomicUsize::new(0));
                    let asked = Arc::new(AtomicUsize::new(0));
                    let (s2, a2, v2, t2) = (sent.clone(), asked.clone(), voters.clone(), term);
                    let mut tr = MockTransport::<MemTC>::new();
                    tr.expect_send_vote_requests().returning(move |_req: VoteRequest, _retry, _m| {
                        s2.fetch_add(1, Ordering::SeqCst);
                        a2.store(v2.len(), Ordering::SeqCst);
                        let responses = v2
                            .iter()
                            .enumerate()
                            .map(|(i, _)| match rs.get(i).copied().unwrap_or(0) {
                                1 => Ok(VoteResponse { term: t2, vote_granted: true, last_log_index: 0, last_log_term: 0 }),
                                2 => Err(Error::Fatal("rpc failed".into())),
                                _ => Ok(VoteResponse { term: t2, vote_granted: false, last_log_index: 0, last_log_term: 0 }),
                            })
                            .collect();
                        Ok(VoteResult { peer_ids: v2.iter().cloned().collect(), responses })
                    });
                    let tr = Arc::new(tr);
                    let eh = ElectionHandler::<MemTC>::new(me);
                    let r = eh.broadcast_vote_requests(term, m.clone(), &log, &tr, &Arc::new(cfg.clone())).await;
                    let (sent1, asked1) = (sent.load(Ordering::SeqCst), asked.load(Ordering::SeqCst));
                    // the same election moment through the real CandidateState::tick: does the node send itself BecomeLeader?
                    let mut ccfg = cfg.clone();
                    ccfg.raft.election.election_timeout_min = 1;
                    ccfg.raft.election.election_timeout_max = 2;
                    let mut ctx = mem_context(me, log.clone(), m.clone(), MockTransport::<MemTC>::new(), ccfg);
                    ctx.transport = tr.clone();
                    let fol = d_engine_core::follower_state::FollowerState::<MemTC>::new(me, ctx.node_config.clone(), None, None);
                    let mut cand = d_engine_core::candidate_state::CandidateState::<MemTC>::from(&fol);
                    cand.update_current_term(term);
                    tokio::time::sleep(std::time::Duration::from_millis(4)).await;
                    let (itx, mut irx) = tokio::sync::mpsc::unbounded_channel::<InternalEvent>();
                    let (rtx, _rrx) = tokio::sync::mpsc::channel::<InboundEvent>(4);
                    let _ = cand.tick(&itx, &rtx, &ctx).await;
                    let mut became = 0;
                    while let Ok(e) = irx.try_recv() {
                        if matches!(e, InternalEvent::BecomeLeader) {
                            became += 1;
                        }
                    }
                    json!([if r.is_ok() { 1 } else { 0 }, sent1, asked1, became])
                }
                9 => {
                    // handle_promote_ready_learners steps 2-5: current_voters = voters().len() + 1, batch = calculate_safe_batch_size,
                    // the first `batch` pending learners (FIFO) go into ONE BatchPromote entry (safe_batch_promote), applied on commit
                    let pending = ids(&step[1]);
                    let current = m.voters().await.len() + 1;
                    let n = d_engine_core::leader_state::calculate_safe_batch_size(current, pending.len());
                    if n == 0 {
                        json!([0, 0])
                    } else {
                        let batch: Vec<u32> = pending.iter().take(n).cloned().collect();
                        let r = m.apply_config_change(MembershipChange { change: Some(Change::BatchPromote(BatchPromote { node_ids: batch, new_status: 3 })) }).await;
                        json!([if r.is_ok() { 1 } else { 0 }, n])
                    }
                }
                7 => json!([d_engine_core::leader_state::calculate_safe_batch_size(step[1].as_u64().unwrap() as usize, step[2].as_u64().unwrap() as usize)]),
                _ => {
                    let id = step[1].as_u64().unwrap() as u32;
                    let c = m.contains_node(id).await;
                    let r = m.can_rejoin(id, step[2].as_u64().unwrap() as i32).await;
                    json!([if c { 1 } else { 0 }, if r.is_ok() { 1 } else { 0 }])
                }
            };
            outs.push(json!([res, view(&m).await]));
        }
    });
    rt.block_on(log.close());
    Value::Array(outs)
}

pub fn learner(rt: &tokio::runtime::Runtime, case: Value) -> Value {
    let me = case[0].as_u64().unwrap() as u32;
    let es = entries_of(&case[1]);
    let cfg = base_config();
    let log = new_log(Arc::new(SimEngine::default()));
    let init = vec![
        NodeMeta { id: 1000, address: "127.0.0.1:9999".into(), role: 1, status: 3 },
        NodeMeta { id: me, address: "127.0.0.1:9998".into(), role: 4, status: 1 },
    ];
    let mut outs = vec![];
    rt.block_on(async {
        if !es.is_empty() {
            log.append_entries(es.clone()).await.unwrap();
        }
        let m = Arc::new(RaftMembership::<MemTC>::verif_new(me, init, cfg.clone()));
        let votes_sent = Arc::new(AtomicUsize::new(0));
        let vs = votes_sent.clone();
        let mut tr = MockTransport::<MemTC>::new();
        tr.expect_send_vote_requests().returning(move |_r: VoteRequest, _p, _m| {
            vs.fetch_add(1, Ordering::SeqCst);
            Err(Error::Fatal("no network".into()))
        });
        let ctx = mem_context(me, log.clone(), m.clone(), tr, cfg.clone());
        let mut st = LearnerState::<MemTC>::new(me, ctx.node_config.clone());
        let (itx, mut irx) = tokio::sync::mpsc::unbounded_channel::<InternalEvent>();
        let (rtx, _rrx) = tokio::sync::mpsc::channel::<InboundEvent>(16);
        for ev in case[2].as_array().unwrap() {
            match ev[0].as_u64().unwrap() {
                0 => {
                    let req = VoteRequest { term: ev[1].as_u64().unwrap(), candidate_id: ev[2].as_u64().unwrap() as u32, last_log_index: ev[3].as_u64().unwrap(), last_log_term: ev[4].as_u64().unwrap() };
                    let (tx, mut rx) = <MaybeCloneOneshot as RaftOneshot<std::result::Result<VoteResponse, tonic::Status>>>::new();
                    let _ = st.handle_inbound_event(InboundEvent::ReceiveVoteRequest(req, tx), &ctx, itx.clone()).await;
                    let (answered, granted) = match rx.try_recv() {
                        Ok(Ok(r)) => (1, if r.vote_granted { 1 } else { 0 }),
                        Ok(Err(_)) => (2, 0),
                        Err(_) => (0, 0),
                    };
                    outs.push(json!([0, answered, granted, st.current_term()]));
                }
                1 => {
                    let _ = st.tick(&itx, &rtx, &ctx).await;
                    let mut n = 0;
                    while irx.try_recv().is_ok() {
                        n += 1;
                    }
                    outs.push(json!([1, n, if st.is_timer_expired() { 1 } else { 0 }, votes_sent.load(Ordering::SeqCst)]));
                }
                2 => {
                    outs.push(json!([2, if st.become_candidate().is_ok() { 1 } else { 0 }, if st.become_leader().is_ok() { 1 } else { 0 }]));
                }
                _ => {
                    if ev[1].as_u64().unwrap() == 1 {
                        let _ = m.apply_config_change(MembershipChange { change: Some(Change::BatchPromote(BatchPromote { node_ids: vec![me], new_status: 3 })) }).await;
                    }
                    let _ = st.handle_membership_applied(&ctx, &itx).await;
                    let mut bf = 0;
                    while let Ok(e) = irx.try_recv() {
                        if matches!(e, InternalEvent::BecomeFollower(_)) {
                            bf += 1;
                        }
                    }
                    outs.push(json!([3, bf]));
                }
            }
        }
    });
    rt.block_on(log.close());
    Value::Array(outs)
}

pub fn join(rt: &tokio::runtime::Runtime, case: Value) -> Value {
    let init = metas(&case[0]);
    let es = entries_of(&case[1]);
    let term = case[2].as_u64().unwrap();
    let cfg = base_config();
    let log = new_log(Arc::new(SimEngine::default()));
    let mut outs = vec![];
    rt.block_on(async {
        if !es.is_empty() {
            log.append_entries(es.clone()).await.unwrap();
        }
        let m = Arc::new(RaftMembership::<MemTC>::verif_new(1, init, cfg.clone()));
        let ctx = mem_context(1, log.clone(), m.clone(), MockTransport::<MemTC>::new(), cfg.clone());
        let (itx, mut irx) = tokio::sync::mpsc::unbounded_channel::<InternalEvent>();
        let mut st = LeaderState::<MemTC>::new(1, ctx.node_config.clone());
        st.update_current_term(term);
        st.update_cluster_metadata(&m).await.unwrap();
        let peers: Vec<u32> = m.replication_peers().await.iter().map(|n| n.id).collect();
        st.init_peers_next_index_and_match_index(log.last_entry_id(), peers).unwrap();
        let mut joins: Vec<(u64, MaybeCloneOneshotReceiver<std::result::Result<JoinResponse, tonic::Status>>, u64)> = vec![];
        let mut applied = 0u64;
        for ev in case[3].as_array().unwrap() {
            match ev[0].as_u64().unwrap() {
                0 => {
                    let id = ev[1].as_u64().unwrap() as u32;
                    let req = JoinRequest { node_id: id, node_role: ev[2].as_u64().unwrap() as i32, address: format!("127.0.0.1:{}", 9000 + id), status: ev[3].as_u64().unwrap() as i32 };
                    let (tx, rx) = <MaybeCloneOneshot as RaftOneshot<std::result::Result<JoinResponse, tonic::Status>>>::new();
                    let before = log.last_entry_id();
                    let _ = st.handle_join_cluster(req, tx, &ctx, &itx).await;
                    let after = log.last_entry_id();
                    joins.push((if after > before { after } else { 0 }, rx, 0));
                }
                1 => {
                    let peer = ev[1].as_u64().unwrap() as u32;
                    let mi = ev[2].as_u64().unwrap();
                    let result = append_entries_response::Result::Success(SuccessResult { last_match: Some(LogId { index: mi, term }) });
                    let _ = st.handle_append_result(peer, Ok(AppendEntriesResponse { node_id: peer, term, result: Some(result) }), &ctx, &itx).await;
                }
                _ => {
                    st.handle_log_flushed(log.last_entry_id(), &ctx, &itx).await;
                }
            }
            // the commit handler's part: apply newly committed config entries to the real membership
            let commit = st.commit_index();
            if commit > applied {
                for e in log.get_entries_range((applied + 1)..=commit).unwrap_or_default() {
                    if let Some(Payload::Config(ch)) = e.payload.and_then(|p| p.payload) {
                        let _ = m.apply_config_change(ch).await;
                        let _ = st.handle_membership_applied(&ctx, &itx).await;
                    }
                }
                applied = commit;
            }
            while irx.try_recv().is_ok() {}
            for j in joins.iter_mut() {
                if j.2 == 0 {
                    j.2 = match j.1.try_recv() {
                        Ok(Ok(r)) => if r.success { 1 } else { 2 },
                        Ok(Err(_)) => 2,
                        Err(_) => 0,
                    };
                }
            }
            let mut mem: Vec<u32> = m.members().await.iter().map(|n| n.id).collect();
            mem.sort();
            outs.push(json!([commit, log.last_entry_id(), joins.iter().map(|j| json!([j.0, j.2])).collect::<Vec<_>>(), mem]));
        }
    });
    rt.block_on(log.close());
    Value::Array(outs)
}

/// probe `node_restart`: a REAL node through the public API only (NodeBuilder::from_node_config(..).start(), Node::run,
/// the ClusterManagementService impl of Node): node 1 boots as a single-node cluster on FileStorageEngine +
/// FileStateMachine, the given learners join through JoinCluster (AddNode committed and applied), the membership is read
/// with GetClusterMetadata, the node is restarted (mode 1: graceful shutdown and reopen of the same directory;
/// mode 0: crash = the directory is copied while the node runs and a new node is opened on the copy) and read again.
/// input [[learner ids], mode]; output [[join success...], members before [[id, role, status]], members after, leader_after]
pub fn node_restart(_rt: &tokio::runtime::Runtime, case: Value) -> Value {
    use d_engine_proto::server::cluster::cluster_management_service_server::ClusterManagementService;
    use d_engine_proto::server::cluster::MetadataRequest;
    use d_engine_server::{FileStateMachine, FileStorageEngine, NodeBuilder};
    let joins = ids(&case[0]);
    let graceful = case[1].as_u64().unwrap_or(1) == 1;
    let rt = tokio::runtime::Builder::new_current_thread().enable_all().build().unwrap();
    let tmp = tempfile::tempdir().unwrap();
    let dir = tmp.path().join("n1");
    let dir2 = tmp.path().join("n1copy");
    fn cfg_for(dir: &std::path::Path) -> RaftNodeConfig {
        let mut c = RaftNodeConfig::new().expect("default config");
        c.cluster.node_id = 1;
        c.cluster.listen_address = "127.0.0.1:0".parse().unwrap();
        c.cluster.initial_cluster = vec![NodeMeta { id: 1, address: "127.0.0.1:0".into(), role: 1, status: 3 }];
        c.cluster.db_root_dir = dir.to_path_buf();
        c.raft.election.election_timeout_min = 150;
        c.raft.election.election_timeout_max = 300;
        // the default 50 ms RPC timeout fires on a loaded machine and the retried join then finds its own first attempt
        c.raft.general_raft_timeout_duration_in_ms = 10_000;
        c
    }
    async fn members_of<T: TypeConfig>(node: &d_engine_server::Node<T>) -> Value {
        for _ in 0..100 {
            match node.get_cluster_metadata(tonic::Request::new(MetadataRequest {})).await {
                Ok(r) => {
                    let mut v: Vec<(u32, i32, i32)> = r.into_inner().nodes.iter().map(|n| (n.id, n.role, n.status)).collect();
                    v.sort();
                    return json!(v.iter().map(|(a, b, c)| json!([a, b, c])).collect::<Vec<_>>());
                }
                Err(_) => tokio::time::sleep(std::time::Duration::from_millis(50)).await,
            }
        }
        json!("no answer")
    }
    fn copy_dir(from: &std::path::Path, to: &std::path::Path) {
        std::fs::create_dir_all(to).unwrap();
        for e in std::fs::read_dir(from).unwrap() {
            let e = e.unwrap();
            let p = e.path();
            let q = to.join(e.file_name());
            if p.is_dir() { copy_dir(&p, &q); } else { let _ = std::fs::copy(&p, &q); }
        }
    }
    let out = rt.block_on(async {
        let open = |d: std::path::PathBuf| async move {
            std::fs::create_dir_all(&d).unwrap();
            let se = Arc::new(FileStorageEngine::new(d.join("storage")).expect("storage"));
            let mut sm = FileStateMachine::new(d.join("state_machine")).await.expect("sm");
            sm.set_lease(Arc::new(d_engine_server::storage::TtlLease::new(LeaseConfig::default())));
            let (stx, srx) = tokio::sync::watch::channel(());
            let node = NodeBuilder::from_node_config(cfg_for(&d), srx).storage_engine(se).state_machine(Arc::new(sm)).start().await.expect("start");
            let n2 = node.clone();
            let h = tokio::spawn(async move { let _ = n2.run().await; });
            (node, stx, h)
        };
        let (node, stx, h) = open(dir.clone()).await;
        if std::env::var("DPROBE_TRACE").is_ok() { eprintln!("opened"); }
        // election timeout is 150..300 ms; the single node elects itself (wait for it, however loaded the machine is)
        {
            let rx = node.leader_change_notifier();
            for _ in 0..600 {
                if rx.borrow().is_some() {
                    break;
                }
                tokio::time::sleep(std::time::Duration::from_millis(50)).await;
            }
        }

        let mut jres = vec![];
        for id in &joins {
            let req = JoinRequest { node_id: *id, node_role: 4, address: format!("127.0.0.1:{}", 19000 + id), status: 1 };
            let mut ok = 0;
            for _ in 0..80 {
                match node.join_cluster(tonic::Request::new(req.clone())).await {
                    Ok(r) => { ok = if r.into_inner().success { 1 } else { 2 }; break; }
                    Err(s) if s.code() == tonic::Code::FailedPrecondition => { ok = 2; break; }
                    Err(_) => tokio::time::sleep(std::time::Duration::from_millis(100)).await,
                }
            }
            jres.push(ok);
        }
        if std::env::var("DPROBE_TRACE").is_ok() { eprintln!("joins {jres:?}"); }
        let before = members_of(&*node).await;
        if std::env::var("DPROBE_TRACE").is_ok() { eprintln!("before {before}"); }
        let reopen_dir = if graceful {
            let _ = stx.send(());
            let _ = tokio::time::timeout(std::time::Duration::from_secs(10), h).await;
            drop(node);
            tokio::time::sleep(std::time::Duration::from_millis(100)).await;
            dir.clone()
        } else {
            // let the state machine worker persist what it applied, then take the crash image
            tokio::time::sleep(std::time::Duration::from_millis(300)).await;
            copy_dir(&dir, &dir2);
            let _ = stx.send(());
            let _ = tokio::time::timeout(std::time::Duration::from_secs(10), h).await;
            drop(node);
            dir2.clone()
        };
        if std::env::var("DPROBE_TRACE").is_ok() { eprintln!("stopped"); }
        let (node2, stx2, h2) = open(reopen_dir).await;
        if std::env::var("DPROBE_TRACE").is_ok() { eprintln!("reopened"); }
        tokio::time::sleep(std::time::Duration::from_millis(700)).await;
        let leader_after = 0;
        let after = members_of(&*node2).await;
        let _ = stx2.send(());
        let _ = tokio::time::timeout(std::time::Duration::from_secs(10), h2).await;
        drop(node2);
        json!([jres, before, after, leader_after])
    });
    rt.shutdown_timeout(std::time::Duration::from_secs(2));
    out
}

/// probe `promote`: the leader's learner promotion path on the real code: LeaderState::check_learner_progress
/// (find_promotable_learners / is_learner_caught_up / status test, pending queue) and handle_promote_ready_learners
/// (calculate_safe_batch_size, safe_batch_promote -> ONE BatchPromote config entry appended per round; nothing is
/// applied to the membership in between, exactly as in the real loop before the entry commits).
/// input [[[id, role, status]...] (membership of leader 1), log length, commit index, catch-up threshold, [[id, match_index]...]]
/// output [[batch size per appended BatchPromote entry], [promoted ids, sorted]]
pub fn promote(rt: &tokio::runtime::Runtime, case: Value) -> Value {
    let init = metas(&case[0]);
    let len = case[1].as_u64().unwrap();
    let commit = case[2].as_u64().unwrap();
    let mut cfg = base_config();
    cfg.raft.learner_catchup_threshold = case[3].as_u64().unwrap();
    cfg.raft.learner_check_throttle_ms = 0;
    let log = new_log(Arc::new(SimEngine::default()));
    let mut sizes: Vec<usize> = vec![];
    let mut promoted: Vec<u32> = vec![];
    rt.block_on(async {
        let es: Vec<_> = (1..=len).map(|i| mk_entry(i, 2, i)).collect();
        if !es.is_empty() {
            log.append_entries(es).await.unwrap();
        }
        let m = Arc::new(RaftMembership::<MemTC>::verif_new(1, init, cfg.clone()));
        let ctx = mem_context(1, log.clone(), m.clone(), MockTransport::<MemTC>::new(), cfg.clone());
        let (itx, mut irx) = tokio::sync::mpsc::unbounded_channel::<InternalEvent>();
        let mut st = LeaderState::<MemTC>::new(1, ctx.node_config.clone());
        st.update_current_term(2);
        st.update_cluster_metadata(&m).await.unwrap();
        let peers: Vec<u32> = m.replication_peers().await.iter().map(|n| n.id).collect();
        st.init_peers_next_index_and_match_index(log.last_entry_id(), peers).unwrap();
        let _ = st.update_commit_index(commit);
        let progress: std::collections::HashMap<u32, Option<u64>> =
            case[4].as_array().unwrap().iter().map(|p| (p[0].as_u64().unwrap() as u32, Some(p[1].as_u64().unwrap()))).collect();
        tokio::time::sleep(std::time::Duration::from_millis(2)).await;
        let _ = st.check_learner_progress(&progress, &ctx, &itx).await;
        for _ in 0..8 {
            let mut again = false;
            while let Ok(e) = irx.try_recv() {
                if matches!(e, InternalEvent::PromoteReadyLearners) {
                    again = true;
                }
            }
            if !again {
                break;
            }
            let _ = st.handle_promote_ready_learners(&ctx, &itx).await;
        }
        for e in log.get_entries_range((len + 1)..=log.last_entry_id()).unwrap_or_default() {
            if let Some(Payload::Config(ch)) = e.payload.and_then(|p| p.payload) {
                if let Some(Change::BatchPromote(bp)) = ch.change {
                    sizes.push(bp.node_ids.len());
                    promoted.extend(bp.node_ids);
                }
            }
        }
    });
    rt.block_on(log.close());
    promoted.sort();
    json!([sizes, promoted])
}
