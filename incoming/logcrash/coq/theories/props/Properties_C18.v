(* C18 — pinned statements. *)
From Coq Require Import NArith List Bool.
From DE Require Import Val BufLog LogCrash.
From DE.proofs Require Import C18.
Import ListNotations.
Open Scope N_scope.

(* The statement as written is FALSE on the faithful model (and on the real code, same inputs). *)
Theorem C18_refuted_durable_lost :
  exists ls e, forall m,
    let s := run ls st0 in
    In e (ents (mem s)) /\ e_idx e <= durable (mem s) /\ ~ In e (recover (surviving m s)).
Proof. exact durable_lost_refuted. Qed.
Print Assumptions C18_refuted_durable_lost.

Theorem C18_refuted_gap :
  exists ls, forall m, gapfreeb (recover (surviving m (run ls st0))) = false.
Proof. exact gap_refuted. Qed.
Print Assumptions C18_refuted_gap.

Theorem C18_refuted_resurrection_power_loss :
  exists ls1 ls2 e,
    In e (ents (mem (run ls1 st0))) /\
    ~ In e (ents (mem (run (ls1 ++ ls2) st0))) /\
    last ls2 LIoCmd = LFlush /\ queue (run (ls1 ++ ls2) st0) = [] /\
    In e (recover (surviving PowerLoss (run (ls1 ++ ls2) st0))).
Proof. exact resurrection_power_loss_refuted. Qed.
Print Assumptions C18_refuted_resurrection_power_loss.
