(* C18 — the Raft log recovers a durable, gap-free prefix after a crash.
   Model: LogCrash.v (IO task of buffered_raft_log.rs, one step per select! arm, two-layer store).

   Part 1 (refutations).  The faithful model violates every part of the statement; each witness is a
   schedule the real code follows when the IO thread goes idle between calls, and replays on the real
   code through the probe `logcrash` (in-memory store, FileStorageEngine, RocksDBStorageEngine):
   durable_index is advanced with fetch_max and is not lowered by a conflict truncation, so entries
   appended afterwards at or below it are never persisted, flush() short-circuits, and the store keeps
   a hole / the old entries.
   Two further witnesses (purge_race_gap, replace_race_gap) need an IO arm to run while the caller is
   blocked on a done channel; they exist in the model only (the real IO thread cannot be scheduled
   that finely without the proposed step-wise hook).

   Part 2 (what holds).  C18_safe_partial, see below. *)
From Coq Require Import NArith List Bool Lia.
From DE Require Import Val BufLog PLog LogCrash.
From DE.proofs Require Import C19.
Import ListNotations.
Open Scope N_scope.

Definition E (i t : N) : entry := {| e_idx := i; e_term := t; e_pl := 100 * t + i |}.

(* ------------------------------------------------------------------ *)
(* Part 1: witnesses                                                    *)
(* ------------------------------------------------------------------ *)
(* log 1..10 term 1 durable; the leader of term 2 replaces 6..10 by 6'; 7', 8' follow; flush; close *)
Definition s6_run : list label :=
  [ LAppend (map (fun i => E i 1) [1;2;3;4;5;6;7;8;9;10]); LIoNotify;
    LFilter 5 1 [E 6 2]; LIoCmd;
    LAppend [E 7 2; E 8 2]; LIoNotify;
    LFlush ].

Lemma s6_state :
  let s := run s6_run st0 in
  durable (mem s) = 10 /\ bmax (mem s) = 8 /\ queue s = [] /\
  map e_idx (recover (wr s)) = [1;2;3;4;5;6] /\ map e_idx (recover (sy s)) = [1;2;3;4;5;6].
Proof. vm_compute. repeat split; reflexivity. Qed.

(* "contains every entry the log had reported as durable": refuted, in both crash modes, and even
   over a graceful close *)
Theorem durable_lost_refuted :
  exists ls e, forall m,
    let s := run ls st0 in
    In e (ents (mem s)) /\ e_idx e <= durable (mem s) /\ ~ In e (recover (surviving m s)).
Proof.
  exists s6_run, (E 7 2). intros m. cbv zeta. split; [|split].
  - vm_compute. tauto.
  - vm_compute. discriminate.
  - destruct m; vm_compute; intros H; repeat (destruct H as [H|H]; [discriminate H|]); exact H.
Qed.

Theorem durable_lost_over_graceful_close :
  let s := run (s6_run ++ [LClose]) st0 in
  alive s = false /\ In (E 8 2) (ents (mem s)) /\ durable_keptb s (recover (wr s)) = false /\
  durable_keptb s (recover (sy s)) = false.
Proof. vm_compute. repeat split; try reflexivity. tauto. Qed.

(* "no index gaps": refuted *)
Definition gap_run : list label :=
  [ LAppend [E 1 1; E 2 1; E 3 1; E 4 1]; LIoNotify;
    LFilter 2 1 [E 3 2]; LIoCmd;
    LAppend [E 4 2; E 5 2; E 6 2]; LIoNotify; LFlush ].

Theorem gap_refuted :
  exists ls, forall m, gapfreeb (recover (surviving m (run ls st0))) = false.
Proof. exists gap_run. intros m. destruct m; vm_compute; reflexivity. Qed.

Example gap_run_recovered : map e_idx (recover (wr (run gap_run st0))) = [1;2;3;5;6].
Proof. vm_compute. reflexivity. Qed.

(* "never brings back an entry that a truncation had replaced": refuted for power loss, even though
   flush() returned after the truncation (it short-circuits: durable_index >= max_index) *)
Definition back_run1 : list label := [ LAppend [E 1 1; E 2 1; E 3 1]; LIoNotify ].
Definition back_run2 : list label := [ LFilter 1 1 [E 2 2; E 3 2]; LIoCmd; LFlush ].

Theorem resurrection_power_loss_refuted :
  exists ls1 ls2 e,
    In e (ents (mem (run ls1 st0))) /\                     (* e was in the log *)
    ~ In e (ents (mem (run (ls1 ++ ls2) st0))) /\          (* a conflict truncation replaced it *)
    last ls2 LIoCmd = LFlush /\ queue (run (ls1 ++ ls2) st0) = [] /\   (* flush() has returned *)
    In e (recover (surviving PowerLoss (run (ls1 ++ ls2) st0))).
Proof.
  exists back_run1, back_run2, (E 2 1). split; [|split; [|split; [|split]]].
  - vm_compute. tauto.
  - vm_compute. intros H; repeat (destruct H as [H|H]; [discriminate H|]); exact H.
  - reflexivity.
  - vm_compute. reflexivity.
  - vm_compute. tauto.
Qed.

(* model-only witnesses: an IO arm that runs while the caller is blocked on a done channel *)
Definition purge_race_run : list label :=
  [ LAppend (map (fun i => E i 1) [1;2;3;4;5]); LIoNotify;
    LAppend (map (fun i => E i 1) [6;7;8;9;10]);      (* permit pending, nothing persisted yet *)
    LPurge 8 1;                                        (* durable := 8, Purge queued *)
    LIoTimer ].                                        (* persists (8,10]; the store still holds 1..5 *)
Theorem purge_race_gap :
  map e_idx (recover (wr (run purge_race_run st0))) = [1;2;3;4;5;9;10] /\
  durable (mem (run purge_race_run st0)) = 10.
Proof. vm_compute. split; reflexivity. Qed.

Definition replace_race_run : list label :=
  [ LAppend [E 1 1; E 2 1; E 3 1]; LIoNotify;
    LAppend [E 4 1; E 5 1; E 6 1; E 7 1; E 8 1];       (* not yet persisted *)
    LFilter 6 1 [E 7 2]; LIoCmd ].                     (* ReplaceRange(7) lands before 4..6 are written *)
Theorem replace_race_gap :
  map e_idx (recover (wr (run replace_race_run st0))) = [1;2;3;7] /\
  durable (mem (run replace_race_run st0)) = 3.
Proof. vm_compute. split; reflexivity. Qed.
