(* Pinned statements of property C23. Nothing else lives here.
   Model DE.Ttl: [tstep]/[trun] is the code as it is (a7b815e: Insert without ttl_secs and a successful
   CompareAndSwap unregister the key's lease, as Delete always did); [tstep_old]/[trun_old] is the code BEFORE that
   fix; the theorems named C23_history_unrepaired_... are kept as a record of what failed and why the fix was needed.
   Theorems named ..._refuted are about the code as it is (known findings that a7b815e does not address). *)
From Coq Require Import NArith List Bool.
From DE Require Import Val Ttl proofs.C23.
Import ListNotations.
Open Scope N_scope.

(* "A key written with a TTL stays readable until its TTL elapses" — both engines, every sequence of operations
   (puts, CAS, deletes of other keys, clock advances, cleanups with any sample, restarts, snapshots) that does not
   write the key itself; for the File engine additionally no restart (refuted for restarts below). *)
Theorem C23_readable_until_due :
  forall (en : engine) (ops : list top) (s : tstate) (k v e : N),
    forallb (quiet en k) ops = true ->
    mget (t_data s) k = Some v -> mget (t_lease s) k = Some e -> t_now (trun en ops s) < e ->
    mget (t_data (trun en ops s)) k = Some v /\ mget (t_lease (trun en ops s)) k = Some e.
Proof. exact readable_until_due. Qed.
Print Assumptions C23_readable_until_due.

Theorem C23_untouched_without_lease_never_removed :
  forall (en : engine) (ops : list top) (s : tstate) (k v : N),
    forallb (quiet en k) ops = true ->
    mget (t_data s) k = Some v -> mget (t_lease s) k = None ->
    mget (t_data (trun en ops s)) k = Some v /\ mget (t_lease (trun en ops s)) k = None.
Proof. exact unleased_never_removed. Qed.
Print Assumptions C23_untouched_without_lease_never_removed.

(* "... or a delete, cancels the earlier TTL so the new value is never removed by it" *)
Theorem C23_delete_then_put_cancels_ttl :
  forall (en : engine) (s : tstate) (k v : N) (ops : list top),
    forallb (quiet en k) ops = true ->
    mget (t_data (trun en ops (tstep en (tstep en s (TDel k)) (TPut k v None)))) k = Some v.
Proof. exact delete_then_put_cancels_ttl. Qed.
Print Assumptions C23_delete_then_put_cancels_ttl.

(* "... and is removed after expiry cleanup" — in every reachable state, for every sample that contains the key
   among its first 10 entries. The full statement (for EVERY sample the iteration may produce) is false:
   C23_cleanup_sampling_refuted. *)
Theorem C23_cleanup_removes_sampled_expired_partial :
  forall (en : engine) (ops : list top) (sample : list N) (k : N),
    let s := trun en ops tinit in
    lexp (t_lease s) (t_now s) k = true -> In k (firstn 10 sample) ->
    mget (t_data (tstep en s (TCleanup sample))) k = None /\ mget (t_lease (tstep en s (TCleanup sample))) k = None.
Proof. exact cleanup_removes_sampled_expired. Qed.
Print Assumptions C23_cleanup_removes_sampled_expired_partial.

Theorem C23_cleanup_removes_expired_small :
  forall (en : engine) (ops : list top) (sample : list N) (k : N),
    let s := trun en ops tinit in
    (length sample <= 10)%nat -> In k sample ->
    lexp (t_lease s) (t_now s) k = true ->
    mget (t_data (tstep en s (TCleanup sample))) k = None.
Proof. exact cleanup_removes_expired_small. Qed.
Print Assumptions C23_cleanup_removes_expired_small.

(* "TTL state survives ... snapshot install" — RocksDB *)
Theorem C23_rocks_install_restores_ttl :
  forall (s : tstate) (d l : tmap) (k : N),
    t_snap s = Some (d, l) ->
    mget (t_data (tstep ERocks s TInstall)) k = mget d k /\
    mget (t_lease (tstep ERocks s TInstall)) k = if lexp l (t_now s) k then None else mget l k.
Proof. exact rocks_install_restores_ttl. Qed.
Print Assumptions C23_rocks_install_restores_ttl.

(* "A later write of the same key without a TTL, or a delete, cancels the earlier TTL so the new value is never
   removed by it" — both engines, EVERY state s (whatever lease k has in it), every cancelling operation o on k
   (put without ttl, delete, CAS that succeeds in s), EVERY sequence ops of later operations that does not itself give
   k a new TTL (no put of k WITH ttl, no RocksDB snapshot install — which replaces data and TTL state wholesale);
   ops may write, CAS and delete k again, advance the clock arbitrarily, run cleanups with any sample, restart,
   snapshot, install (File):
   (1) k has no lease afterwards — any lease k has later on was registered after o; *)
Theorem C23_cancelled_ttl_stays_cancelled :
  forall (en : engine) (s : tstate) (o : top) (k : N) (ops : list top),
    cancels k s o = true -> forallb (no_reg en k) ops = true ->
    mget (t_lease (trun en ops (tstep en s o))) k = None.
Proof. exact cancelled_ttl_stays_cancelled. Qed.
Print Assumptions C23_cancelled_ttl_stays_cancelled.

(* (2) so k is not expired at any later point and no later cleanup step, whatever it samples, removes or changes
   what k holds (ops is arbitrary, so this covers every cleanup step of every continuation). The cleanup is the
   only expiry step there is: get() has no expiry check in either engine. *)
Theorem C23_cancelled_ttl_never_expires :
  forall (en : engine) (s : tstate) (o : top) (k : N) (ops : list top) (sample : list N),
    cancels k s o = true -> forallb (no_reg en k) ops = true ->
    let s' := trun en ops (tstep en s o) in
    lexp (t_lease s') (t_now s') k = false /\
    mget (t_data (tstep en s' (TCleanup sample))) k = mget (t_data s') k.
Proof. exact cancelled_ttl_never_expires. Qed.
Print Assumptions C23_cancelled_ttl_never_expires.

(* (3) the value v written without TTL (put without ttl, successful CAS) stays readable, without a lease, across
   EVERY sequence that does not write k again or install a snapshot: operations on other keys, advances, cleanups
   with any sample, snapshots and restarts of BOTH engines (File: the WAL replay applies this write last for k). *)
Theorem C23_plain_write_never_removed :
  forall (en : engine) (s : tstate) (o : top) (k v : N) (ops : list top),
    writes_plain k v s o = true -> forallb (fun o' => negb (touches k o')) ops = true ->
    mget (t_data (trun en ops (tstep en s o))) k = Some v /\ mget (t_lease (trun en ops (tstep en s o))) k = None.
Proof. exact plain_write_never_removed. Qed.
Print Assumptions C23_plain_write_never_removed.

(* the cleanup removes nothing but keys whose lease is expired *)
Theorem C23_cleanup_touches_only_expired :
  forall (en : engine) (s : tstate) (sample : list N) (k : N),
    lexp (t_lease s) (t_now s) k = false ->
    mget (t_data (tstep en s (TCleanup sample))) k = mget (t_data s) k.
Proof. exact cleanup_touches_only_expired. Qed.
Print Assumptions C23_cleanup_touches_only_expired.

(* ---- refuted parts of the statement (code as it is) ---- *)
Theorem C23_restart_after_due_refuted :
  forall ops : list top,
    let s := trun ERocks [TPut 1 10 (Some 2); TAdvance 3; TRestart] tinit in
    forallb (quiet ERocks 1) ops = true ->
    mget (t_data (trun ERocks ops s)) 1 = Some 10.
Proof. exact restart_after_due_makes_key_permanent. Qed.
Print Assumptions C23_restart_after_due_refuted.

Theorem C23_file_restart_after_due_refuted :
  forall ops : list top,
    let s := trun EFile [TPut 1 10 (Some 2); TAdvance 3; TRestart] tinit in
    forallb (quiet EFile 1) ops = true ->
    mget (t_data (trun EFile ops s)) 1 = Some 10.
Proof. exact file_restart_after_due_makes_key_permanent. Qed.
Print Assumptions C23_file_restart_after_due_refuted.

Theorem C23_file_restart_resurrects_old_value_refuted :
  mget (t_data (trun EFile [TPut 1 10 None; TPut 1 20 (Some 2); TAdvance 3; TCleanup [1]] tinit)) 1 = None /\
  mget (t_data (trun EFile [TPut 1 10 None; TPut 1 20 (Some 2); TAdvance 3; TCleanup [1]; TRestart] tinit)) 1 = Some 10 /\
  mget (t_lease (trun EFile [TPut 1 10 None; TPut 1 20 (Some 2); TAdvance 3; TCleanup [1]; TRestart] tinit)) 1 = None.
Proof. exact file_restart_resurrects_old_value. Qed.
Print Assumptions C23_file_restart_resurrects_old_value_refuted.

Theorem C23_file_install_loses_ttl_refuted :
  let ops := [TPut 1 10 (Some 2); TSnapshot; TDel 1; TInstall; TAdvance 3; TCleanup [1]; TAdvance 2; TCleanup [1]] in
  mget (t_data (trun EFile ops tinit)) 1 = Some 10 /\ mget (t_lease (trun EFile ops tinit)) 1 = None /\
  mget (t_data (trun ERocks ops tinit)) 1 = None.
Proof. exact file_install_loses_ttl. Qed.
Print Assumptions C23_file_install_loses_ttl_refuted.

Theorem C23_cleanup_sampling_refuted :
  forall n : nat,
    lexp (t_lease (sampling_after n)) (t_now (sampling_after n)) 0 = true /\ mget (t_data (sampling_after n)) 0 = Some 1.
Proof. exact cleanup_sampling_miss. Qed.
Print Assumptions C23_cleanup_sampling_refuted.

(* ------------------------------------------------------------------ HISTORY (code before a7b815e) *)
(* the clause "a later write without a TTL cancels the earlier TTL" was FALSE: the lease survived the write and the
   new value was deleted at the old deadline (both engines) *)
Theorem C23_history_unrepaired_plain_put_keeps_old_ttl :
  forall en : engine,
    let ops := [TPut 1 10 (Some 2); TPut 1 20 None] in
    mget (t_data (trun_old en ops tinit)) 1 = Some 20 /\
    mget (t_lease (trun_old en ops tinit)) 1 = Some 2 /\
    mget (t_data (trun_old en (ops ++ [TAdvance 3; TCleanup [1]]) tinit)) 1 = None.
Proof. exact unrepaired_plain_put_keeps_old_ttl. Qed.
Print Assumptions C23_history_unrepaired_plain_put_keeps_old_ttl.

Theorem C23_history_unrepaired_cas_keeps_old_ttl :
  forall en : engine,
    let ops := [TPut 1 10 (Some 2); TCas 1 (Some 10) 20] in
    mget (t_data (trun_old en ops tinit)) 1 = Some 20 /\
    mget (t_lease (trun_old en ops tinit)) 1 = Some 2 /\
    mget (t_data (trun_old en (ops ++ [TAdvance 3; TCleanup [1]]) tinit)) 1 = None.
Proof. exact unrepaired_cas_keeps_old_ttl. Qed.
Print Assumptions C23_history_unrepaired_cas_keeps_old_ttl.

(* the mechanism: the old step and the current one agree on everything but the lease entry of the key whose TTL
   the operation cancels *)
Theorem C23_history_unrepaired_step_differs_only_in_lease :
  forall (en : engine) (s : tstate) (o : top),
    t_data (tstep_old en s o) = t_data (tstep en s o) /\ t_has (tstep_old en s o) = t_has (tstep en s o) /\
    t_now (tstep_old en s o) = t_now (tstep en s o) /\ t_snap (tstep_old en s o) = t_snap (tstep en s o) /\
    t_wal (tstep_old en s o) = t_wal (tstep en s o) /\
    forall k, cancels k s o = false -> mget (t_lease (tstep_old en s o)) k = mget (t_lease (tstep en s o)) k.
Proof. exact unrepaired_step_differs_only_in_lease. Qed.
Print Assumptions C23_history_unrepaired_step_differs_only_in_lease.
