(* C23 — TTL: keys expire when due and overwrites clear old TTLs. Proved / refuted on DE.Ttl.
   [tstep]/[trun] = the code as it is (a7b815e: a write without TTL unregisters the key's lease);
   [tstep_old]/[trun_old] = the code before that fix (history lemmas at the end). *)
From Coq Require Import NArith List Bool Lia.
From DE Require Import Val Ttl.
Import ListNotations.
Open Scope N_scope.

(* ---------- maps ---------- *)
Lemma mget_mkeep f m k : mget (mkeep f m) k = if f k then mget m k else None.
Proof.
  induction m as [|[k' v] m IH]; cbn [mkeep filter mget fst].
  - destruct (f k); reflexivity.
  - fold (mkeep f m). destruct (N.eqb_spec k' k) as [E|E].
    + subst k'. destruct (f k) eqn:F; cbn [mget].
      * rewrite N.eqb_refl. reflexivity.
      * exact IH.
    + destruct (f k'); cbn [mget].
      * destruct (N.eqb_spec k' k) as [E'|_]; [contradiction|]. exact IH.
      * exact IH.
Qed.

Lemma mget_mdel m k k' : mget (mdel m k) k' = if k' =? k then None else mget m k'.
Proof. unfold mdel. rewrite mget_mkeep. destruct (k' =? k); reflexivity. Qed.

Lemma mget_mput m k v k' : mget (mput m k v) k' = if k =? k' then Some v else mget m k'.
Proof.
  unfold mput. cbn [mget]. destruct (N.eqb_spec k k') as [E|E]; [reflexivity|].
  rewrite mget_mdel. destruct (N.eqb_spec k' k) as [E'|_]; [subst; contradiction|reflexivity].
Qed.

Lemma mkeep_nil_inv f m : mkeep f m <> [] -> m <> [].
Proof. intros H E. subst m. apply H. reflexivity. Qed.

Lemma lexp_reload l now k : mget (reload l now) k = if lexp l now k then None else mget l k.
Proof. unfold reload. rewrite mget_mkeep. destruct (lexp l now k); reflexivity. Qed.

(* ---------- the File WAL does not influence anything but a File restart ---------- *)
Lemma log_data en s r : t_data (log en s r) = t_data s.
Proof. destruct en; reflexivity. Qed.
Lemma log_lease en s r : t_lease (log en s r) = t_lease s.
Proof. destruct en; reflexivity. Qed.
Lemma log_has en s r : t_has (log en s r) = t_has s.
Proof. destruct en; reflexivity. Qed.
Lemma log_now en s r : t_now (log en s r) = t_now s.
Proof. destruct en; reflexivity. Qed.

(* ---------- the clock never goes back ---------- *)
Lemma step_now_mono en s o : t_now s <= t_now (tstep en s o).
Proof.
  destruct o as [k v [ttl|]|k|k ex v|d|sample| | |]; cbn [tstep]; rewrite ?log_now; cbn [t_now set_data write_plain]; try lia.
  - destruct (opt_eqb (mget (t_data s) k) ex); rewrite ?log_now; cbn [t_now set_data write_plain]; lia.
  - destruct (negb (t_has s)); [lia|]. destruct (existsb _ _); cbn [t_now]; lia.
  - destruct (t_snap s) as [[d l]|]; [|lia]. destruct en; cbn [t_now set_data set_wal]; lia.
Qed.

Lemma run_now_mono en ops : forall s, t_now s <= t_now (trun en ops s).
Proof.
  induction ops as [|o ops IH]; intros s; cbn [trun fold_left]; [lia|].
  fold (trun en ops (tstep en s o)). specialize (IH (tstep en s o)). pose proof (step_now_mono en s o). lia.
Qed.

(* an operation that leaves key k alone; a File restart replays the WAL and is excluded (see the refutation
   file_restart_resurrects_old_value below) *)
Definition quiet (en : engine) (k : N) (o : top) : bool :=
  negb (touches k o) && match en, o with EFile, TRestart => false | _, _ => true end.

(* ---------- readable until due: one step ---------- *)
Lemma step_keeps_live en s o k v e :
  quiet en k o = true ->
  mget (t_data s) k = Some v -> mget (t_lease s) k = Some e -> t_now (tstep en s o) < e ->
  mget (t_data (tstep en s o)) k = Some v /\ mget (t_lease (tstep en s o)) k = Some e.
Proof.
  intros Hq Hd Hl Hn. unfold quiet in Hq. apply andb_true_iff in Hq. destruct Hq as [Ht Hr].
  apply negb_true_iff in Ht.
  destruct o as [k' v' [ttl|]|k'|k' ex v'|d|sample| | |]; cbn [tstep touches] in *.
  - rewrite log_data, log_lease. cbn [t_data t_lease]. rewrite !mget_mput, Ht. split; assumption.
  - rewrite log_data, log_lease. cbn [t_data t_lease write_plain]. rewrite mget_mput, mget_mdel, (N.eqb_sym k k'), Ht.
    split; assumption.
  - rewrite log_data, log_lease. cbn [t_data t_lease]. rewrite !mget_mdel.
    rewrite N.eqb_sym, Ht. split; assumption.
  - destruct (opt_eqb (mget (t_data s) k') ex); [|split; assumption].
    rewrite log_data, log_lease. cbn [t_data t_lease write_plain]. rewrite mget_mput, mget_mdel, (N.eqb_sym k k'), Ht.
    split; assumption.
  - cbn [t_data t_lease]. split; assumption.
  - destruct (negb (t_has s)); [split; assumption|].
    destruct (existsb _ _); [|split; assumption].
    cbn [t_data t_lease t_now] in *.
    assert (Hx : lexp (t_lease s) (t_now s) k = false).
    { unfold lexp. rewrite Hl. apply N.leb_gt. exact Hn. }
    rewrite mget_mkeep, lexp_reload, Hx. cbn [negb]. split; assumption.
  - cbn [t_data t_lease t_now] in *.
    assert (Hx : lexp (t_lease s) (t_now s) k = false).
    { unfold lexp. rewrite Hl. apply N.leb_gt. exact Hn. }
    rewrite lexp_reload, Hx. destruct en; [discriminate Hr|]. split; assumption.
  - cbn [t_data t_lease]. split; assumption.
  - discriminate Ht.
Qed.

Lemma readable_until_due en ops : forall s k v e,
  forallb (quiet en k) ops = true ->
  mget (t_data s) k = Some v -> mget (t_lease s) k = Some e -> t_now (trun en ops s) < e ->
  mget (t_data (trun en ops s)) k = Some v /\ mget (t_lease (trun en ops s)) k = Some e.
Proof.
  induction ops as [|o ops IH]; intros s k v e Hq Hd Hl Hn; cbn [trun fold_left] in *; [split; assumption|].
  fold (trun en ops (tstep en s o)) in *. cbn [forallb] in Hq. apply andb_true_iff in Hq. destruct Hq as [Hq1 Hq2].
  assert (Hn1 : t_now (tstep en s o) < e).
  { pose proof (run_now_mono en ops (tstep en s o)). lia. }
  destruct (step_keeps_live en s o k v e Hq1 Hd Hl Hn1) as [Hd' Hl'].
  exact (IH _ k v e Hq2 Hd' Hl' Hn).
Qed.

(* ---------- a key without a lease is never removed ---------- *)
Lemma step_keeps_unleased en s o k v :
  quiet en k o = true ->
  mget (t_data s) k = Some v -> mget (t_lease s) k = None ->
  mget (t_data (tstep en s o)) k = Some v /\ mget (t_lease (tstep en s o)) k = None.
Proof.
  intros Hq Hd Hl. unfold quiet in Hq. apply andb_true_iff in Hq. destruct Hq as [Ht Hr].
  apply negb_true_iff in Ht.
  destruct o as [k' v' [ttl|]|k'|k' ex v'|d|sample| | |]; cbn [tstep touches] in *.
  - rewrite log_data, log_lease. cbn [t_data t_lease]. rewrite !mget_mput, Ht. split; assumption.
  - rewrite log_data, log_lease. cbn [t_data t_lease write_plain]. rewrite mget_mput, mget_mdel, (N.eqb_sym k k'), Ht.
    split; assumption.
  - rewrite log_data, log_lease. cbn [t_data t_lease]. rewrite !mget_mdel.
    rewrite N.eqb_sym, Ht. split; assumption.
  - destruct (opt_eqb (mget (t_data s) k') ex); [|split; assumption].
    rewrite log_data, log_lease. cbn [t_data t_lease write_plain]. rewrite mget_mput, mget_mdel, (N.eqb_sym k k'), Ht.
    split; assumption.
  - cbn [t_data t_lease]. split; assumption.
  - destruct (negb (t_has s)); [split; assumption|].
    destruct (existsb _ _); [|split; assumption].
    cbn [t_data t_lease].
    assert (Hx : lexp (t_lease s) (t_now s) k = false) by (unfold lexp; rewrite Hl; reflexivity).
    rewrite mget_mkeep, lexp_reload, Hx. cbn [negb]. split; assumption.
  - cbn [t_data t_lease].
    assert (Hx : lexp (t_lease s) (t_now s) k = false) by (unfold lexp; rewrite Hl; reflexivity).
    rewrite lexp_reload, Hx. destruct en; [discriminate Hr|]. split; assumption.
  - cbn [t_data t_lease]. split; assumption.
  - discriminate Ht.
Qed.

Lemma unleased_never_removed en ops : forall s k v,
  forallb (quiet en k) ops = true ->
  mget (t_data s) k = Some v -> mget (t_lease s) k = None ->
  mget (t_data (trun en ops s)) k = Some v /\ mget (t_lease (trun en ops s)) k = None.
Proof.
  induction ops as [|o ops IH]; intros s k v Hq Hd Hl; cbn [trun fold_left] in *; [split; assumption|].
  fold (trun en ops (tstep en s o)) in *. cbn [forallb] in Hq. apply andb_true_iff in Hq. destruct Hq as [Hq1 Hq2].
  destruct (step_keeps_unleased en s o k v Hq1 Hd Hl) as [Hd' Hl'].
  exact (IH _ k v Hq2 Hd' Hl').
Qed.

(* delete, then a put without ttl: whatever TTL the key had is gone, the new value stays for ever *)
Lemma delete_then_put_cancels_ttl en s k v ops :
  forallb (quiet en k) ops = true ->
  mget (t_data (trun en ops (tstep en (tstep en s (TDel k)) (TPut k v None)))) k = Some v.
Proof.
  intros Hq. apply (unleased_never_removed en ops _ k v Hq).
  - cbn [tstep]. rewrite !log_data. cbn [t_data write_plain]. rewrite mget_mput, N.eqb_refl. reflexivity.
  - cbn [tstep]. rewrite !log_lease. cbn [t_lease write_plain]. rewrite mget_mdel, N.eqb_refl. reflexivity.
Qed.

Example delete_then_put_nonvacuous :
  mget (t_data (trun ERocks [TAdvance 9; TCleanup [1]; TRestart; TCleanup [1]]
      (trun ERocks [TPut 1 10 (Some 2); TDel 1; TPut 1 20 None] tinit))) 1 = Some 20.
Proof. vm_compute. reflexivity. Qed.

(* ---------- cleanup removes every expired key once the 10-entry sample contains an expired one ---------- *)
Definition wf (s : tstate) : Prop := t_lease s <> [] -> t_has s = true.

Lemma step_wf en s o : wf s -> wf (tstep en s o).
Proof.
  unfold wf. intros W.
  destruct o as [k v [ttl|]|k|k ex v|d|sample| | |]; cbn [tstep]; rewrite ?log_lease, ?log_has; cbn [t_lease t_has set_data write_plain].
  - reflexivity.
  - intros H. apply W. exact (mkeep_nil_inv _ _ H).
  - intros H. apply W. exact (mkeep_nil_inv _ _ H).
  - destruct (opt_eqb _ _); rewrite ?log_lease, ?log_has; cbn [t_lease t_has write_plain]; [|exact W].
    intros H. apply W. exact (mkeep_nil_inv _ _ H).
  - exact W.
  - destruct (negb (t_has s)); [exact W|]. destruct (existsb _ _); [|exact W].
    cbn [t_lease t_has]. intros H. apply W. exact (mkeep_nil_inv _ _ H).
  - destruct (reload (t_lease s) (t_now s)); [intros H; contradiction|reflexivity].
  - exact W.
  - destruct (t_snap s) as [[d l]|]; [|exact W]. destruct en; cbn [t_lease t_has set_data set_wal]; [exact W|].
    destruct (reload l (t_now s)); [intros H; contradiction|]. intros _. apply orb_true_r.
Qed.

Lemma run_wf en ops : forall s, wf s -> wf (trun en ops s).
Proof.
  induction ops as [|o ops IH]; intros s W; cbn [trun fold_left]; [exact W|]. apply IH, step_wf, W.
Qed.

Lemma cleanup_removes_sampled_expired en ops sample k :
  let s := trun en ops tinit in
  lexp (t_lease s) (t_now s) k = true -> In k (firstn 10 sample) ->
  mget (t_data (tstep en s (TCleanup sample))) k = None /\ mget (t_lease (tstep en s (TCleanup sample))) k = None.
Proof.
  intros s Hx Hin.
  assert (W : wf s) by (apply run_wf; intros H; contradiction).
  assert (Hh : t_has s = true).
  { apply W. intros E. unfold lexp in Hx. rewrite E in Hx. discriminate Hx. }
  cbn [tstep]. rewrite Hh. cbn [negb].
  assert (He : existsb (lexp (t_lease s) (t_now s)) (firstn 10 sample) = true).
  { apply existsb_exists. exists k. split; assumption. }
  rewrite He. cbn [t_data t_lease]. rewrite mget_mkeep, lexp_reload, Hx. split; reflexivity.
Qed.

Lemma cleanup_removes_expired_small en ops sample k :
  let s := trun en ops tinit in
  (length sample <= 10)%nat -> In k sample ->
  lexp (t_lease s) (t_now s) k = true ->
  mget (t_data (tstep en s (TCleanup sample))) k = None.
Proof.
  intros s Hlen Hin Hx.
  apply (cleanup_removes_sampled_expired en ops sample k Hx).
  rewrite firstn_all2; [exact Hin|exact Hlen].
Qed.

Example cleanup_removes_nonvacuous :
  let s := trun EFile [TPut 1 10 (Some 2); TPut 2 20 (Some 9); TAdvance 3] tinit in
  lexp (t_lease s) (t_now s) 1 = true /\ mget (t_data s) 1 = Some 10 /\
  mget (t_data (tstep EFile s (TCleanup [2; 1]))) 1 = None /\ mget (t_data (tstep EFile s (TCleanup [2; 1]))) 2 = Some 20.
Proof. vm_compute. repeat split; reflexivity. Qed.

Example readable_until_due_nonvacuous :
  let s := trun ERocks [TPut 1 10 (Some 5)] tinit in
  mget (t_data s) 1 = Some 10 /\ mget (t_lease s) 1 = Some 5 /\
  forallb (quiet ERocks 1) [TAdvance 2; TCleanup [1]; TRestart; TPut 2 7 (Some 1); TAdvance 2; TCleanup [2; 1]] = true /\
  t_now (trun ERocks [TAdvance 2; TCleanup [1]; TRestart; TPut 2 7 (Some 1); TAdvance 2; TCleanup [2; 1]] s) = 4.
Proof. vm_compute. repeat split; reflexivity. Qed.

(* ---------- RocksDB: snapshot install restores data and the unexpired part of the TTL state ---------- *)
Lemma rocks_install_restores_ttl s d l k :
  t_snap s = Some (d, l) ->
  mget (t_data (tstep ERocks s TInstall)) k = mget d k /\
  mget (t_lease (tstep ERocks s TInstall)) k = if lexp l (t_now s) k then None else mget l k.
Proof.
  intros Hs. cbn [tstep]. rewrite Hs. cbn [t_data t_lease]. split; [reflexivity|apply lexp_reload].
Qed.

(* =====================  "overwrites clear old TTLs" (a7b815e)  ===================== *)

(* the operation cancels the TTL of key k in state s: put without ttl, delete, successful CAS *)
Definition cancels (k : N) (s : tstate) (o : top) : bool :=
  match o with
  | TPut k' _ None => k' =? k
  | TDel k' => k' =? k
  | TCas k' ex _ => (k' =? k) && opt_eqb (mget (t_data s) k') ex
  | _ => false
  end.

(* the operation writes value v to key k WITHOUT a TTL: put without ttl, successful CAS *)
Definition writes_plain (k v : N) (s : tstate) (o : top) : bool :=
  match o with
  | TPut k' v' None => (k' =? k) && (v' =? v)
  | TCas k' ex v' => (k' =? k) && (v' =? v) && opt_eqb (mget (t_data s) k') ex
  | _ => false
  end.

(* the operation does not give key k a (new) lease: it is not a put of k WITH ttl, and not a RocksDB snapshot
   install (which replaces the whole store, data AND TTL state, by the snapshot's) *)
Definition no_reg (en : engine) (k : N) (o : top) : bool :=
  match o with
  | TPut k' _ (Some _) => negb (k' =? k)
  | TInstall => match en with EFile => true | ERocks => false end
  | _ => true
  end.

Lemma cancel_clears_lease en s o k : cancels k s o = true -> mget (t_lease (tstep en s o)) k = None.
Proof.
  destruct o as [k' v' [ttl|]|k'|k' ex v'|d|sample| | |]; cbn [cancels tstep]; intros H; try discriminate H.
  - apply N.eqb_eq in H. subst k'. rewrite log_lease. cbn [t_lease write_plain]. rewrite mget_mdel, N.eqb_refl. reflexivity.
  - apply N.eqb_eq in H. subst k'. rewrite log_lease. cbn [t_lease]. rewrite mget_mdel, N.eqb_refl. reflexivity.
  - apply andb_true_iff in H. destruct H as [H1 H2]. apply N.eqb_eq in H1. subst k'. rewrite H2.
    rewrite log_lease. cbn [t_lease write_plain]. rewrite mget_mdel, N.eqb_refl. reflexivity.
Qed.

Lemma step_no_reg_keeps_none en s o k :
  no_reg en k o = true -> mget (t_lease s) k = None -> mget (t_lease (tstep en s o)) k = None.
Proof.
  intros Hr Hl.
  destruct o as [k' v' [ttl|]|k'|k' ex v'|d|sample| | |]; cbn [tstep no_reg] in *.
  - apply negb_true_iff in Hr. rewrite log_lease. cbn [t_lease]. rewrite mget_mput, Hr. exact Hl.
  - rewrite log_lease. cbn [t_lease write_plain]. rewrite mget_mdel, Hl. destruct (k =? k'); reflexivity.
  - rewrite log_lease. cbn [t_lease]. rewrite mget_mdel, Hl. destruct (k =? k'); reflexivity.
  - destruct (opt_eqb (mget (t_data s) k') ex); [|exact Hl].
    rewrite log_lease. cbn [t_lease write_plain]. rewrite mget_mdel, Hl. destruct (k =? k'); reflexivity.
  - exact Hl.
  - destruct (negb (t_has s)); [exact Hl|]. destruct (existsb _ _); [|exact Hl].
    cbn [t_lease]. rewrite lexp_reload, Hl. destruct (lexp _ _ _); reflexivity.
  - cbn [t_lease]. rewrite lexp_reload, Hl. destruct (lexp _ _ _); reflexivity.
  - exact Hl.
  - destruct (t_snap s) as [[d l]|]; [|exact Hl]. destruct en; [|discriminate Hr]. exact Hl.
Qed.

Lemma run_no_reg_keeps_none en ops : forall s k,
  forallb (no_reg en k) ops = true -> mget (t_lease s) k = None -> mget (t_lease (trun en ops s)) k = None.
Proof.
  induction ops as [|o ops IH]; intros s k Hr Hl; cbn [trun fold_left] in *; [exact Hl|].
  fold (trun en ops (tstep en s o)). cbn [forallb] in Hr. apply andb_true_iff in Hr. destruct Hr as [Hr1 Hr2].
  apply IH; [exact Hr2|]. apply step_no_reg_keeps_none; assumption.
Qed.

(* (1) the lease is gone and stays gone: after a put without ttl / delete / successful CAS of k, EVERY sequence of
   later operations — writes, CAS and deletes of k itself included, clock advances, cleanups with any sample,
   restarts and snapshots on both engines, File snapshot installs — that does not itself register a TTL for k
   leaves k without a lease. A lease that k has at any later point was registered after that write. *)
Lemma cancelled_ttl_stays_cancelled en s o k ops :
  cancels k s o = true -> forallb (no_reg en k) ops = true ->
  mget (t_lease (trun en ops (tstep en s o))) k = None.
Proof. intros Hc Hr. apply run_no_reg_keeps_none; [exact Hr|]. apply cancel_clears_lease, Hc. Qed.

(* the expiry cleanup removes nothing but keys with an expired lease *)
Lemma cleanup_touches_only_expired en s sample k :
  lexp (t_lease s) (t_now s) k = false ->
  mget (t_data (tstep en s (TCleanup sample))) k = mget (t_data s) k.
Proof.
  intros Hx. cbn [tstep]. destruct (negb (t_has s)); [reflexivity|]. destruct (existsb _ _); [|reflexivity].
  cbn [t_data]. rewrite mget_mkeep, Hx. reflexivity.
Qed.

(* (2) hence no later cleanup, whatever its sample and however late, removes (or changes) what k holds *)
Lemma cancelled_ttl_never_expires en s o k ops sample :
  cancels k s o = true -> forallb (no_reg en k) ops = true ->
  let s' := trun en ops (tstep en s o) in
  lexp (t_lease s') (t_now s') k = false /\
  mget (t_data (tstep en s' (TCleanup sample))) k = mget (t_data s') k.
Proof.
  intros Hc Hr s'.
  assert (Hl : mget (t_lease s') k = None) by (apply cancelled_ttl_stays_cancelled; assumption).
  assert (Hx : lexp (t_lease s') (t_now s') k = false) by (unfold lexp; rewrite Hl; reflexivity).
  split; [exact Hx|]. apply cleanup_touches_only_expired, Hx.
Qed.

(* (3) the value written without TTL stays: across EVERY sequence of operations that does not write k again or
   install a snapshot — operations on other keys, advances, cleanups with any sample, snapshots, and restarts on
   BOTH engines (the File WAL replay re-applies this very write last for k). Invariant: k holds v, k has no lease,
   and replaying the WAL over a store where k holds v leaves k at v. *)
Definition wal_keeps (k v : N) (w : list (N * option N * option N)) : Prop :=
  forall now d, mget d k = Some v -> mget (fold_left (replay1 now) w d) k = Some v.

Definition wal_ok (en : engine) (k v : N) (s : tstate) : Prop :=
  match en with EFile => wal_keeps k v (t_wal s) | ERocks => True end.   (* RocksDB has no such log *)

Definition settled (en : engine) (k v : N) (s : tstate) : Prop :=
  mget (t_data s) k = Some v /\ mget (t_lease s) k = None /\ wal_ok en k v s.

Lemma replay1_other now d r k : fst (fst r) <> k -> mget (replay1 now d r) k = mget d k.
Proof.
  destruct r as [[k' [v'|]] [e|]]; cbn [fst replay1]; intros Hk.
  - destruct (e <=? now); [reflexivity|]. rewrite mget_mput. destruct (N.eqb_spec k' k); [contradiction|reflexivity].
  - rewrite mget_mput. destruct (N.eqb_spec k' k); [contradiction|reflexivity].
  - rewrite mget_mdel. destruct (N.eqb_spec k k'); [subst; contradiction|reflexivity].
  - rewrite mget_mdel. destruct (N.eqb_spec k k'); [subst; contradiction|reflexivity].
Qed.

Lemma wal_keeps_nil k v : wal_keeps k v [].
Proof. intros now d Hd. exact Hd. Qed.

Lemma wal_keeps_snoc_other k v w r : wal_keeps k v w -> fst (fst r) <> k -> wal_keeps k v (w ++ [r]).
Proof.
  intros Hw Hk now d Hd. rewrite fold_left_app. cbn [fold_left]. rewrite replay1_other; [|exact Hk]. apply Hw, Hd.
Qed.

Lemma wal_keeps_snoc_write k v w : wal_keeps k v (w ++ [(k, Some v, None)]).
Proof. intros now d _. rewrite fold_left_app. cbn [fold_left replay1]. rewrite mget_mput, N.eqb_refl. reflexivity. Qed.

Lemma log_settled_other en s r k v :
  mget (t_data s) k = Some v -> mget (t_lease s) k = None -> wal_ok en k v s -> fst (fst r) <> k ->
  settled en k v (log en s r).
Proof.
  intros Hd Hl Hw Hk. unfold settled. rewrite log_data, log_lease. split; [exact Hd|]. split; [exact Hl|].
  destruct en; cbn [wal_ok log set_wal t_wal] in *; [|exact I]. apply wal_keeps_snoc_other; assumption.
Qed.

Lemma plain_write_settles en s o k v : writes_plain k v s o = true -> settled en k v (tstep en s o).
Proof.
  assert (G : settled en k v (log en (write_plain s k v) (k, Some v, None))).
  { unfold settled. rewrite log_data, log_lease. cbn [t_data t_lease write_plain].
    rewrite mget_mput, mget_mdel, N.eqb_refl. split; [reflexivity|]. split; [reflexivity|].
    destruct en; cbn [wal_ok log set_wal t_wal write_plain]; [apply wal_keeps_snoc_write|exact I]. }
  destruct o as [k' v' [ttl|]|k'|k' ex v'|d|sample| | |]; cbn [writes_plain tstep]; intros H; try discriminate H.
  - apply andb_true_iff in H. destruct H as [H1 H2]. apply N.eqb_eq in H1, H2. subst k' v'. exact G.
  - apply andb_true_iff in H. destruct H as [H H3]. apply andb_true_iff in H. destruct H as [H1 H2].
    apply N.eqb_eq in H1, H2. subst k' v'. rewrite H3. exact G.
Qed.

Lemma step_keeps_settled en s o k v :
  negb (touches k o) = true -> settled en k v s -> settled en k v (tstep en s o).
Proof.
  intros Ht [Hd [Hl Hw]]. apply negb_true_iff in Ht.
  assert (Hx : lexp (t_lease s) (t_now s) k = false) by (unfold lexp; rewrite Hl; reflexivity).
  destruct o as [k' v' [ttl|]|k'|k' ex v'|d|sample| | |]; cbn [tstep touches] in *.
  - apply log_settled_other; cbn [t_data t_lease fst].
    + rewrite mget_mput, Ht. exact Hd.
    + rewrite mget_mput, Ht. exact Hl.
    + destruct en; cbn [wal_ok t_wal] in *; [exact Hw|exact I].
    + intros E. rewrite E, N.eqb_refl in Ht. discriminate Ht.
  - apply log_settled_other; cbn [t_data t_lease write_plain fst].
    + rewrite mget_mput, Ht. exact Hd.
    + rewrite mget_mdel, (N.eqb_sym k k'), Ht. exact Hl.
    + destruct en; cbn [wal_ok t_wal write_plain] in *; [exact Hw|exact I].
    + intros E. rewrite E, N.eqb_refl in Ht. discriminate Ht.
  - apply log_settled_other; cbn [t_data t_lease fst].
    + rewrite mget_mdel, (N.eqb_sym k k'), Ht. exact Hd.
    + rewrite mget_mdel, (N.eqb_sym k k'), Ht. exact Hl.
    + destruct en; cbn [wal_ok t_wal] in *; [exact Hw|exact I].
    + intros E. rewrite E, N.eqb_refl in Ht. discriminate Ht.
  - destruct (opt_eqb (mget (t_data s) k') ex); [|split; [exact Hd|split; [exact Hl|exact Hw]]].
    apply log_settled_other; cbn [t_data t_lease write_plain fst].
    + rewrite mget_mput, Ht. exact Hd.
    + rewrite mget_mdel, (N.eqb_sym k k'), Ht. exact Hl.
    + destruct en; cbn [wal_ok t_wal write_plain] in *; [exact Hw|exact I].
    + intros E. rewrite E, N.eqb_refl in Ht. discriminate Ht.
  - split; [exact Hd|]. split; [exact Hl|]. destruct en; cbn [wal_ok t_wal] in *; [exact Hw|exact I].
  - destruct (negb (t_has s)); [split; [exact Hd|split; [exact Hl|exact Hw]]|].
    destruct (existsb _ _); [|split; [exact Hd|split; [exact Hl|exact Hw]]].
    unfold settled. cbn [t_data t_lease]. rewrite mget_mkeep, lexp_reload, Hx. cbn [negb].
    split; [exact Hd|]. split; [exact Hl|]. destruct en; cbn [wal_ok t_wal] in *; [exact Hw|exact I].
  - unfold settled. cbn [t_data t_lease]. rewrite lexp_reload, Hx. split.
    + destruct en; cbn [wal_ok] in Hw; [apply Hw; exact Hd|exact Hd].
    + split; [exact Hl|]. destruct en; cbn [wal_ok t_wal]; [apply wal_keeps_nil|exact I].
  - split; [exact Hd|]. split; [exact Hl|]. destruct en; cbn [wal_ok t_wal] in *; [exact Hw|exact I].
  - discriminate Ht.
Qed.

Lemma run_keeps_settled en ops : forall s k v,
  forallb (fun o => negb (touches k o)) ops = true -> settled en k v s -> settled en k v (trun en ops s).
Proof.
  induction ops as [|o ops IH]; intros s k v Hq Hs; cbn [trun fold_left] in *; [exact Hs|].
  fold (trun en ops (tstep en s o)). cbn [forallb] in Hq. apply andb_true_iff in Hq. destruct Hq as [Hq1 Hq2].
  apply IH; [exact Hq2|]. apply step_keeps_settled; assumption.
Qed.

Lemma plain_write_never_removed en s o k v ops :
  writes_plain k v s o = true -> forallb (fun o' => negb (touches k o')) ops = true ->
  mget (t_data (trun en ops (tstep en s o))) k = Some v /\ mget (t_lease (trun en ops (tstep en s o))) k = None.
Proof.
  intros Hw Hq. destruct (run_keeps_settled en ops _ k v Hq (plain_write_settles en s o k v Hw)) as [Hd [Hl _]].
  split; assumption.
Qed.

(* non-vacuity: the old TTL (deadline 2) is cancelled by the plain put / the successful CAS / the delete; the later
   sequences contain the deadline, cleanups that DO collect another expired key, a restart, writes of other keys *)
Example cancelled_ttl_nonvacuous :
  let s := trun EFile [TPut 1 10 (Some 2); TPut 2 7 (Some 2)] tinit in
  mget (t_lease s) 1 = Some 2 /\
  cancels 1 s (TPut 1 20 None) = true /\ cancels 1 s (TCas 1 (Some 10) 20) = true /\ cancels 1 s (TDel 1) = true /\
  cancels 1 s (TCas 1 (Some 11) 20) = false /\
  let later := [TAdvance 3; TCleanup [2; 1]; TRestart; TPut 1 30 None; TCas 1 (Some 30) 31; TAdvance 1; TCleanup [1]] in
  forallb (no_reg EFile 1) later = true /\
  mget (t_data (trun EFile later (tstep EFile s (TPut 1 20 None)))) 1 = Some 31 /\
  mget (t_data (trun EFile later (tstep EFile s (TPut 1 20 None)))) 2 = None.
Proof. vm_compute. repeat split; reflexivity. Qed.

Example plain_write_never_removed_nonvacuous :
  let s := trun EFile [TPut 1 10 (Some 2); TPut 2 7 (Some 2)] tinit in
  let later := [TAdvance 3; TCleanup [2; 1]; TRestart; TPut 2 8 (Some 1); TAdvance 5; TCleanup [1; 2]; TRestart; TSnapshot] in
  writes_plain 1 20 s (TPut 1 20 None) = true /\ writes_plain 1 20 s (TCas 1 (Some 10) 20) = true /\
  forallb (fun o' => negb (touches 1 o')) later = true /\
  mget (t_data (trun EFile later (tstep EFile s (TCas 1 (Some 10) 20)))) 1 = Some 20 /\
  mget (t_data (trun ERocks later (tstep ERocks (trun ERocks [TPut 1 10 (Some 2); TPut 2 7 (Some 2)] tinit) (TPut 1 20 None)))) 1 = Some 20 /\
  mget (t_data (trun EFile later (tstep EFile s (TCas 1 (Some 10) 20)))) 2 = None.
Proof. vm_compute. repeat split; reflexivity. Qed.

(* the hypothesis [no_reg] is tight: a later put of k WITH ttl gives k a new lease (registered after the write), and a
   RocksDB snapshot install brings back the snapshot's value together with the snapshot's TTL *)
Example no_reg_is_needed :
  mget (t_lease (trun ERocks [TPut 1 10 (Some 2); TPut 1 20 None; TAdvance 1; TPut 1 30 (Some 4)] tinit)) 1 = Some 5 /\
  no_reg ERocks 1 (TPut 1 30 (Some 4)) = false /\
  mget (t_lease (trun ERocks [TPut 1 10 (Some 9); TSnapshot; TPut 1 20 None; TInstall] tinit)) 1 = Some 9 /\
  mget (t_data (trun ERocks [TPut 1 10 (Some 9); TSnapshot; TPut 1 20 None; TInstall] tinit)) 1 = Some 10 /\
  no_reg ERocks 1 TInstall = false /\
  mget (t_lease (trun EFile [TPut 1 10 (Some 9); TSnapshot; TPut 1 20 None; TInstall] tinit)) 1 = None.
Proof. vm_compute. repeat split; reflexivity. Qed.

(* the two witnesses that failed before a7b815e, on the code as it is: the new value outlives the old deadline *)
Example plain_put_clears_old_ttl en :
  mget (t_data (trun en [TPut 1 10 (Some 2); TPut 1 20 None; TAdvance 3; TCleanup [1]] tinit)) 1 = Some 20.
Proof. destruct en; vm_compute; reflexivity. Qed.

Example cas_clears_old_ttl en :
  mget (t_data (trun en [TPut 1 10 (Some 2); TCas 1 (Some 10) 20; TAdvance 3; TCleanup [1]] tinit)) 1 = Some 20.
Proof. destruct en; vm_compute; reflexivity. Qed.

(* =====================  refutations (each witness is replayed on the real engines)  ===================== *)

(* a restart (RocksDB; also snapshot install) after the deadline but before a cleanup drops the lease and keeps
   the key: it is never removed any more *)
Lemma restart_after_due_makes_key_permanent ops :
  let s := trun ERocks [TPut 1 10 (Some 2); TAdvance 3; TRestart] tinit in
  forallb (quiet ERocks 1) ops = true ->
  mget (t_data (trun ERocks ops s)) 1 = Some 10.
Proof.
  intros s Hq. apply (unleased_never_removed ERocks ops s 1 10 Hq); vm_compute; reflexivity.
Qed.

(* File: the same, as long as the node is not restarted again *)
Lemma file_restart_after_due_makes_key_permanent ops :
  let s := trun EFile [TPut 1 10 (Some 2); TAdvance 3; TRestart] tinit in
  forallb (quiet EFile 1) ops = true ->
  mget (t_data (trun EFile ops s)) 1 = Some 10.
Proof.
  intros s Hq. apply (unleased_never_removed EFile ops s 1 10 Hq); vm_compute; reflexivity.
Qed.

(* File: a restart replays the WAL, skips the expired TTL insert and thereby resurrects the value it had overwritten *)
Lemma file_restart_resurrects_old_value :
  mget (t_data (trun EFile [TPut 1 10 None; TPut 1 20 (Some 2); TAdvance 3; TCleanup [1]] tinit)) 1 = None /\
  mget (t_data (trun EFile [TPut 1 10 None; TPut 1 20 (Some 2); TAdvance 3; TCleanup [1]; TRestart] tinit)) 1 = Some 10 /\
  mget (t_lease (trun EFile [TPut 1 10 None; TPut 1 20 (Some 2); TAdvance 3; TCleanup [1]; TRestart] tinit)) 1 = None.
Proof. vm_compute. repeat split; reflexivity. Qed.

(* File: apply_snapshot_from_file never reloads the lease: the TTL of a key restored from the snapshot is lost *)
Lemma file_install_loses_ttl :
  let ops := [TPut 1 10 (Some 2); TSnapshot; TDel 1; TInstall; TAdvance 3; TCleanup [1]; TAdvance 2; TCleanup [1]] in
  mget (t_data (trun EFile ops tinit)) 1 = Some 10 /\ mget (t_lease (trun EFile ops tinit)) 1 = None /\
  mget (t_data (trun ERocks ops tinit)) 1 = None.
Proof. vm_compute. repeat split; reflexivity. Qed.

(* the 10-entry sample: with 11 leases an expired key outside the sample is never collected, however often the
   cleanup runs (the DashMap iteration order of an unchanged map does not change) *)
Definition sampling_state : tstate :=
  trun ERocks (TPut 0 1 (Some 2) :: map (fun k => TPut k 1 (Some 2000)) [1;2;3;4;5;6;7;8;9;10] ++ [TAdvance 3]) tinit.
Definition sampling_order : list N := [1;2;3;4;5;6;7;8;9;10;0].

Fixpoint sampling_after (n : nat) : tstate :=
  match n with O => sampling_state | S n' => tstep ERocks (sampling_after n') (TCleanup sampling_order) end.

Lemma cleanup_sampling_miss n :
  lexp (t_lease (sampling_after n)) (t_now (sampling_after n)) 0 = true /\ mget (t_data (sampling_after n)) 0 = Some 1.
Proof.
  assert (Hfix : tstep ERocks sampling_state (TCleanup sampling_order) = sampling_state) by (vm_compute; reflexivity).
  assert (Hn : sampling_after n = sampling_state).
  { induction n as [|n IH]; cbn [sampling_after]; [reflexivity|]. rewrite IH. exact Hfix. }
  rewrite Hn. vm_compute. split; reflexivity.
Qed.

Example sampling_order_is_an_iteration_of_the_lease_map :
  length sampling_order = length (t_lease sampling_state) /\
  forallb (fun k => existsb (N.eqb k) sampling_order) (map fst (t_lease sampling_state)) = true.
Proof. vm_compute. split; reflexivity. Qed.

(* =====================  HISTORY: the code before a7b815e ([tstep_old] / [trun_old])  ===================== *)

(* a later put WITHOUT ttl did not cancel the earlier TTL: the new value was removed at the old deadline *)
Lemma unrepaired_plain_put_keeps_old_ttl en :
  let ops := [TPut 1 10 (Some 2); TPut 1 20 None] in
  mget (t_data (trun_old en ops tinit)) 1 = Some 20 /\
  mget (t_lease (trun_old en ops tinit)) 1 = Some 2 /\
  mget (t_data (trun_old en (ops ++ [TAdvance 3; TCleanup [1]]) tinit)) 1 = None.
Proof. destruct en; vm_compute; repeat split; reflexivity. Qed.

Lemma unrepaired_cas_keeps_old_ttl en :
  let ops := [TPut 1 10 (Some 2); TCas 1 (Some 10) 20] in
  mget (t_data (trun_old en ops tinit)) 1 = Some 20 /\
  mget (t_lease (trun_old en ops tinit)) 1 = Some 2 /\
  mget (t_data (trun_old en (ops ++ [TAdvance 3; TCleanup [1]]) tinit)) 1 = None.
Proof. destruct en; vm_compute; repeat split; reflexivity. Qed.

(* the old and the current step differ in nothing but the lease entry of the key whose TTL the operation cancels *)
Lemma unrepaired_step_differs_only_in_lease en s o :
  t_data (tstep_old en s o) = t_data (tstep en s o) /\ t_has (tstep_old en s o) = t_has (tstep en s o) /\
  t_now (tstep_old en s o) = t_now (tstep en s o) /\ t_snap (tstep_old en s o) = t_snap (tstep en s o) /\
  t_wal (tstep_old en s o) = t_wal (tstep en s o) /\
  forall k, cancels k s o = false -> mget (t_lease (tstep_old en s o)) k = mget (t_lease (tstep en s o)) k.
Proof.
  destruct o as [k' v [ttl|]|k'|k' ex v|d|sample| | |]; cbn [tstep_old cancels]; try (repeat split; reflexivity).
  - cbn [tstep]. rewrite !log_data, !log_lease, !log_has, !log_now.
    repeat split; try (destruct en; reflexivity).
    intros k H. cbn [t_lease set_data write_plain]. rewrite mget_mdel, (N.eqb_sym k k'), H. reflexivity.
  - cbn [tstep]. destruct (opt_eqb (mget (t_data s) k') ex); [|repeat split; reflexivity].
    rewrite !log_data, !log_lease, !log_has, !log_now.
    repeat split; try (destruct en; reflexivity).
    intros k H. rewrite andb_true_r in H. cbn [t_lease set_data write_plain]. rewrite mget_mdel, (N.eqb_sym k k'), H. reflexivity.
Qed.
