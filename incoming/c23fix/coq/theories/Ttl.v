(* Ttl — executable model for property C23: TtlLease (d-engine-server/src/storage/lease.rs) and the way
   FileStateMachine / RocksDBStateMachine use it, as coded:
     * apply_chunk: Insert with ttl -> register (expire_at = now + ttl, overwrites); Insert without ttl and a
       successful CompareAndSwap -> unregister (since a7b815e: "a write without TTL cancels the TTL of the value
       it replaces"); a failed CompareAndSwap touches nothing; Delete -> unregister. unregister removes the
       entry of key_to_expiry and leaves has_keys as it is.
       [tstep] is the code as it is; [tstep_old] is apply_chunk BEFORE a7b815e (Insert without ttl and a
       successful CompareAndSwap left the lease map untouched), kept for the history theorems
       (names C23_history_unrepaired_...) and for replaying the old witnesses ([ttl_probe_unrepaired]).
     * get(): plain lookup in both engines (no expiry check at read time).
     * lease_background_cleanup: nothing when has_keys is false; nothing when none of the first 10 entries of
       the DashMap iteration is expired (may_have_expired_keys); otherwise every entry with expire_at <= now
       is removed from the lease and its key deleted from the data.
     * graceful restart (stop -> persist lease snapshot; new -> set_lease(fresh) -> start -> reload):
       reload keeps only entries with expire_at > now; has_keys = (result non-empty). RocksDB keeps the data.
       FileStateMachine::new loads state.data (written by Drop) and then REPLAYS wal.log over it: the WAL holds
       every entry applied since the last start / snapshot install / checkpoint (a checkpoint happens after
       1000 entries or 10 s; the model's sequences stay below both), an Insert whose WAL deadline has passed is
       skipped (the older value stays), a Delete removes the key; the lease is not touched by the replay:
       replay_wal runs inside new() while self.lease is still None (set_lease comes after new()), so its
       lease.register / lease.unregister calls — including the unregister that a7b815e added for an Insert
       record without expiry — never execute on this path. Keys removed by the cleanup are NOT removed from
       the WAL.
     * generate_snapshot_data stores (data, lease); apply_snapshot_from_file replaces the data;
       RocksDB reloads the lease from ttl_state.bin (same filter, has_keys only ever set);
       FileStateMachine's parser consumes the length-prefixed lease section as a truncated key record and
       never reaches lease.reload: the lease map stays what it was before the install.
   Time is a natural number of ticks; a ttl is given in ticks. Keys and values are numbers (the probe maps
   them to byte strings). The DashMap iteration order is not modelled: TCleanup carries the list of keys the
   iteration visits first (an oracle), of which the code looks at 10.
   Not modelled: crash (kill) restarts — the lease snapshot is persisted only by stop() / snapshot install —
   and IO errors. No proofs here. *)
From Coq Require Import NArith List Bool.
From DE Require Import Val.
Import ListNotations.
Open Scope N_scope.

Definition tmap := list (N * N).
Fixpoint mget (m : tmap) (k : N) : option N :=
  match m with [] => None | (k', v) :: m' => if k' =? k then Some v else mget m' k end.
Definition mkeep (f : N -> bool) (m : tmap) : tmap := filter (fun p => f (fst p)) m.
Definition mdel (m : tmap) (k : N) : tmap := mkeep (fun k' => negb (k' =? k)) m.
Definition mput (m : tmap) (k v : N) : tmap := (k, v) :: mdel m k.

Inductive engine := EFile | ERocks.

Record tstate := {
  t_data : tmap;                     (* key -> value *)
  t_lease : tmap;                    (* TtlLease.key_to_expiry: key -> absolute expiry *)
  t_has : bool;                      (* TtlLease.has_keys *)
  t_now : N;                         (* wall clock *)
  t_snap : option (tmap * tmap);     (* last generated snapshot: (data, lease snapshot) *)
  t_wal : list (N * option N * option N)   (* File only: wal.log, (key, Some value | None = delete, deadline) *)
}.
Definition tinit : tstate := {| t_data := []; t_lease := []; t_has := false; t_now := 0; t_snap := None; t_wal := [] |}.

Inductive top :=
| TPut (k v : N) (ttl : option N)
| TDel (k : N)
| TCas (k : N) (exp : option N) (v : N)
| TAdvance (d : N)
| TCleanup (sample : list N)
| TRestart
| TSnapshot
| TInstall.

(* an entry of lease map [l] for key [k] is expired at [now]: expire_at <= now *)
Definition lexp (l : tmap) (now k : N) : bool :=
  match mget l k with Some e => e <=? now | None => false end.
(* TtlLease::reload / from_snapshot: keep expire_at > now *)
Definition reload (l : tmap) (now : N) : tmap := mkeep (fun k => negb (lexp l now k)) l.
Definition nonempty (l : tmap) : bool := match l with [] => false | _ => true end.

Definition opt_eqb (a b : option N) : bool :=
  match a, b with Some x, Some y => x =? y | None, None => true | _, _ => false end.

Definition set_data (s : tstate) (d : tmap) : tstate :=
  {| t_data := d; t_lease := t_lease s; t_has := t_has s; t_now := t_now s; t_snap := t_snap s; t_wal := t_wal s |}.
Definition set_wal (s : tstate) (w : list (N * option N * option N)) : tstate :=
  {| t_data := t_data s; t_lease := t_lease s; t_has := t_has s; t_now := t_now s; t_snap := t_snap s; t_wal := w |}.
(* append_to_wal (File); RocksDB has no such log *)
Definition log (en : engine) (s : tstate) (r : N * option N * option N) : tstate :=
  match en with EFile => set_wal s (t_wal s ++ [r]) | ERocks => s end.
(* replay_wal: one record *)
Definition replay1 (now : N) (d : tmap) (r : N * option N * option N) : tmap :=
  match r with
  | (k, Some v, Some e) => if e <=? now then d else mput d k v
  | (k, Some v, None) => mput d k v
  | (k, None, _) => mdel d k
  end.

(* a write that carries no TTL (Insert without ttl_secs, successful CompareAndSwap): data.insert + lease.unregister *)
Definition write_plain (s : tstate) (k v : N) : tstate :=
  {| t_data := mput (t_data s) k v; t_lease := mdel (t_lease s) k; t_has := t_has s; t_now := t_now s;
     t_snap := t_snap s; t_wal := t_wal s |}.

Definition tstep (en : engine) (s : tstate) (o : top) : tstate :=
  match o with
  | TPut k v None => log en (write_plain s k v) (k, Some v, None)
  | TPut k v (Some ttl) =>
      log en {| t_data := mput (t_data s) k v; t_lease := mput (t_lease s) k (t_now s + ttl); t_has := true;
                t_now := t_now s; t_snap := t_snap s; t_wal := t_wal s |} (k, Some v, Some (t_now s + ttl))
  | TDel k =>
      log en {| t_data := mdel (t_data s) k; t_lease := mdel (t_lease s) k; t_has := t_has s;
                t_now := t_now s; t_snap := t_snap s; t_wal := t_wal s |} (k, None, None)
  | TCas k exp v =>
      if opt_eqb (mget (t_data s) k) exp then log en (write_plain s k v) (k, Some v, None) else s
  | TAdvance d =>
      {| t_data := t_data s; t_lease := t_lease s; t_has := t_has s; t_now := t_now s + d; t_snap := t_snap s;
         t_wal := t_wal s |}
  | TCleanup sample =>
      if negb (t_has s) then s
      else if existsb (lexp (t_lease s) (t_now s)) (firstn 10 sample) then
        {| t_data := mkeep (fun k => negb (lexp (t_lease s) (t_now s) k)) (t_data s);
           t_lease := reload (t_lease s) (t_now s); t_has := t_has s; t_now := t_now s; t_snap := t_snap s;
           t_wal := t_wal s |}
      else s
  | TRestart =>
      let l := reload (t_lease s) (t_now s) in
      {| t_data := match en with EFile => fold_left (replay1 (t_now s)) (t_wal s) (t_data s) | ERocks => t_data s end;
         t_lease := l; t_has := nonempty l; t_now := t_now s; t_snap := t_snap s; t_wal := [] |}
  | TSnapshot =>
      {| t_data := t_data s; t_lease := t_lease s; t_has := t_has s; t_now := t_now s;
         t_snap := Some (t_data s, t_lease s); t_wal := t_wal s |}
  | TInstall =>
      match t_snap s with
      | None => s
      | Some (d, l) =>
          match en with
          | ERocks =>
              let l' := reload l (t_now s) in
              {| t_data := d; t_lease := l'; t_has := t_has s || nonempty l'; t_now := t_now s; t_snap := t_snap s;
                 t_wal := t_wal s |}
          | EFile => set_wal (set_data s d) []
          end
      end
  end.

Definition trun (en : engine) (ops : list top) (s : tstate) : tstate := fold_left (tstep en) ops s.

(* HISTORY: the step before a7b815e — a write without TTL did not unregister the key's lease. Everything else is
   the current step. *)
Definition tstep_old (en : engine) (s : tstate) (o : top) : tstate :=
  match o with
  | TPut k v None => log en (set_data s (mput (t_data s) k v)) (k, Some v, None)
  | TCas k exp v =>
      if opt_eqb (mget (t_data s) k) exp then log en (set_data s (mput (t_data s) k v)) (k, Some v, None) else s
  | _ => tstep en s o
  end.
Definition trun_old (en : engine) (ops : list top) (s : tstate) : tstate := fold_left (tstep_old en) ops s.

(* the operation writes key k (or replaces the whole store) *)
Definition touches (k : N) (o : top) : bool :=
  match o with
  | TPut k' _ _ | TDel k' | TCas k' _ _ => k' =? k
  | TInstall => true
  | _ => false
  end.

(* ---- val glue ----
   input [engine, nkeys, ticks_per_sec, ops]; op = [0,k,v,ttl_secs(0=none)] | [1,k] | [2,k,exp(0=None),v] | [3,d] | [4] | [5] | [6] | [7]
   a cleanup's sample is the whole key universe (the cases of the correspondence hold at most 10 leases, so the
   first-10 sample sees every entry whatever the iteration order).
   output per op: [[get k], [lease k], has] *)
Definition top_of_val (nkeys tps : N) (v : val) : top :=
  let t := vn (vnth v 0) in
  if t =? 0 then TPut (vn (vnth v 1)) (vn (vnth v 2)) (if vn (vnth v 3) =? 0 then None else Some (tps * vn (vnth v 3)))
  else if t =? 1 then TDel (vn (vnth v 1))
  else if t =? 2 then TCas (vn (vnth v 1)) (if vn (vnth v 2) =? 0 then None else Some (vn (vnth v 2))) (vn (vnth v 3))
  else if t =? 3 then TAdvance (vn (vnth v 1))
  else if t =? 4 then TCleanup (map N.of_nat (seq 0 (N.to_nat nkeys)))
  else if t =? 5 then TRestart
  else if t =? 6 then TSnapshot
  else TInstall.

Definition tobserve (nkeys : N) (s : tstate) : val :=
  let ks := map N.of_nat (seq 0 (N.to_nat nkeys)) in
  VL [VL (map (fun k => vopt (mget (t_data s) k)) ks); VL (map (fun k => vopt (mget (t_lease s) k)) ks); vb (t_has s)].

Definition ttl_probe_of (step : engine -> tstate -> top -> tstate) (v : val) : val :=
  let en := if vn (vnth v 0) =? 0 then EFile else ERocks in
  let nkeys := vn (vnth v 1) in
  let tps := vn (vnth v 2) in
  VL (snd (fold_left (fun acc o => let s' := step en (fst acc) (top_of_val nkeys tps o) in (s', snd acc ++ [tobserve nkeys s']))
                     (vl (vnth v 3)) (tinit, []))).

Definition ttl_probe : val -> val := ttl_probe_of tstep.
(* the code before a7b815e (history; replays the old witnesses against an unrepaired tree) *)
Definition ttl_probe_unrepaired : val -> val := ttl_probe_of tstep_old.
