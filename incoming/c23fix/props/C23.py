"""C23 — TTL: keys expire when due and overwrites clear old TTLs."""
import copy, json
from dvlib import core, flow
from dvlib.core import Broken

ID = 'C23'
PROPS_FILE = 'theories/props/Properties_C23.v'
CONE = ['theories/Ttl.v', 'theories/proofs/C23.v']
IMPORTS = 'From DE Require Import Ttl.'
TPS = 2          # ticks per second (probe tick = 500 ms)
ENG = ['file', 'rocksdb']

def gen_cases(run, thorough):
    """Real-time cases: TTL writes at even ticks, clock-reading operations (cleanup, restart, install) at odd ticks."""
    r = run.rng('ttl'); cases = []; dist = {}
    def tag(t): dist[t] = dist.get(t, 0) + 1
    n = 700 if thorough else 150
    for ci in range(n):
        nkeys = 3; ops = []; t = 0; budget = r.range(5, 9)
        def at(parity):
            nonlocal t
            if t % 2 != parity: ops.append([3, 1]); t += 1
        def ttlput(k=None, ttl=None):
            at(0); ops.append([0, r.below(nkeys) if k is None else k, r.range(1, 9), ttl or r.choice([1, 1, 1, 2, 1000])]); tag('put-ttl')
        ttlput()
        steps = r.range(3, 9)
        for _ in range(steps):
            if t >= budget: break
            x = r.below(100); k = r.below(nkeys)
            if x < 14: ttlput()
            elif x < 26: ops.append([0, k, r.range(1, 9), 0]); tag('put-plain')
            elif x < 34: ops.append([1, k]); tag('delete')
            elif x < 44: ops.append([2, k, r.choice([0, 0] + list(range(1, 10))), r.range(1, 9)]); tag('cas')
            elif x < 62: d = r.range(1, 3); ops.append([3, d]); t += d; tag('advance')
            elif x < 78: at(1); ops.append([4]); tag('cleanup')
            elif x < 86: at(1); ops.append([5]); tag('restart')
            elif x < 93: ops.append([6]); tag('snapshot')
            else: at(1); ops.append([7]); tag('install')
        # always finish with: let every short TTL elapse, cleanup, look again one tick later
        ops.append([3, 5 if t % 2 == 0 else 4]); ops.append([4]); ops.append([3, 1]); ops.append([4]); tag('cleanup'); tag('cleanup')
        cases.append([nkeys, ops])
    # the situations named by the property, on every run
    fixed = [
        ('overwrite-plain', [[0, 0, 1, 1], [0, 0, 2, 0], [3, 3], [4], [3, 2], [4]]),
        ('overwrite-cas', [[0, 0, 1, 1], [2, 0, 1, 2], [3, 3], [4], [3, 2], [4]]),
        ('delete-reput', [[0, 0, 1, 1], [1, 0], [0, 0, 2, 0], [3, 3], [4], [3, 2], [4]]),
        ('ttl-refresh', [[0, 0, 1, 1], [0, 0, 2, 2], [3, 3], [4], [3, 2], [4]]),
        ('restart-before-due', [[0, 0, 1, 2], [0, 1, 2, 1], [3, 1], [5], [4], [3, 2], [4], [3, 2], [4]]),
        ('restart-after-due', [[0, 0, 1, 1], [3, 3], [5], [4], [3, 2], [4]]),
        ('snapshot-install', [[0, 0, 1, 1], [0, 1, 2, 2], [6], [1, 0], [3, 1], [7], [3, 2], [4], [3, 2], [4]]),
        ('install-after-due', [[0, 0, 1, 1], [6], [3, 3], [7], [4], [3, 2], [4]]),
        ('wal-replay-after-cleanup', [[0, 0, 1, 0], [0, 0, 2, 1], [3, 3], [4], [5], [3, 2], [4]]),
        ('install-over-stale-lease', [[0, 0, 1, 1000], [6], [0, 0, 2, 1], [3, 1], [7], [3, 2], [4], [3, 2], [4]]),
    ]
    for name, ops in fixed:
        cases.append([3, ops]); tag('fixed:' + name)
    return cases, dist

def oracle(case, out, en):
    """The property evaluated on the implementation's get() results over simulated time.
    Reference per key: value, deadline (tick) of the latest put-with-TTL unless cancelled by a later put without TTL,
    successful CAS or delete. Returns list of (class, why)."""
    nkeys, ops = case
    val = [None] * nkeys; dl = [None] * nkeys; cancelled = [None] * nkeys; limbo = [False] * nkeys; via_install = [False] * nkeys
    snap = None; now = 0; reloads = []; installs = 0; res = []
    for i, (op, ob) in enumerate(zip(ops, out)):
        gets = [g[0] if g else None for g in ob[0]]
        t = op[0]; must_be_gone = []
        if t == 0:
            k = op[1]; val[k] = op[2]; limbo[k] = False; via_install[k] = False
            if op[3]: dl[k] = now + TPS * op[3]; cancelled[k] = None
            else:
                if dl[k] is not None: cancelled[k] = dl[k]
                dl[k] = None
        elif t == 1:
            k = op[1]; val[k] = None; dl[k] = None; cancelled[k] = None; limbo[k] = False; via_install[k] = False
        elif t == 2:
            k = op[1]; exp = op[2] or None
            cur = val[k]
            if limbo[k]: cur = gets[k] if gets[k] is None else val[k]   # an expired, not yet collected key: either outcome is allowed
            if limbo[k] and gets[k] is None and exp is None: val[k] = op[3]; dl[k] = None; limbo[k] = False; cancelled[k] = None
            elif cur == exp and not (limbo[k] and gets[k] is None):
                val[k] = op[3]
                if dl[k] is not None: cancelled[k] = dl[k]
                dl[k] = None; limbo[k] = False; via_install[k] = False
        elif t == 3: now += op[1]
        elif t == 4: must_be_gone = [k for k in range(nkeys) if val[k] is not None and dl[k] is not None and dl[k] <= now]
        elif t == 5: reloads.append(now)
        elif t == 6: snap = copy.deepcopy((val, dl, cancelled, limbo))
        elif t == 7 and snap is not None:
            val, dl, cancelled, limbo = copy.deepcopy(snap); via_install = [d is not None for d in dl]; reloads.append(now); installs += 1
        for k in range(nkeys):
            if val[k] is not None and dl[k] is not None and dl[k] <= now: limbo[k] = True
        for k in range(nkeys):
            g = gets[k]
            if k in must_be_gone:
                if g is not None:
                    if via_install[k] and en == 0: cls = 'ttl-lost-on-snapshot-install'
                    elif any(rt >= dl[k] for rt in reloads): cls = 'expired-key-survives-reload'
                    else: cls = 'expired-not-removed'
                    res.append((cls, '%s: key %d (deadline tick %d) still readable (= %s) after the cleanup at tick %d (op #%d)' % (ENG[en], k, dl[k], g, now, i)))
                val[k] = None; dl[k] = None; limbo[k] = False; cancelled[k] = None
                if g is not None: val[k] = g      # resynchronise, report once
                continue
            if limbo[k]:
                if g is not None and g != val[k]:
                    res.append(('unexpected-value', '%s: key %d reads %s, last written %s (op #%d)' % (ENG[en], k, g, val[k], i))); val[k] = g
                continue
            if g != val[k]:
                if g is None and cancelled[k] is not None and cancelled[k] <= now:
                    cls = 'overwrite-keeps-old-ttl'; why = 'value %s written WITHOUT ttl was removed at tick %d by the TTL (deadline %d) of an earlier write' % (val[k], now, cancelled[k])
                elif g is None and installs and en == 0:
                    cls = 'stale-lease-after-snapshot-install'; why = 'value %s restored by a snapshot install was removed at tick %d' % (val[k], now)
                elif g is None:
                    cls = 'removed-before-due'; why = 'value %s (deadline %s) not readable at tick %d' % (val[k], dl[k], now)
                elif t == 5 and en == 0:
                    cls = 'stale-value-resurrected-by-wal-replay'; why = 'after the restart reads %s, an overwritten value (reference %s): the WAL replay skipped the expired TTL insert and re-applied the older one' % (g, val[k])
                else:
                    cls = 'unexpected-value'; why = 'reads %s, reference %s' % (g, val[k])
                res.append((cls, '%s: key %d: %s (op #%d)' % (ENG[en], k, why, i)))
                val[k] = g; dl[k] = None; cancelled[k] = None
    return res

def sample_oracle(case, out):
    alive, n, removed = out
    if alive:
        return [('cleanup-sampling-miss', '%s: 1 expired key among %d leases is still readable after %d cleanup runs, %d 1.5 s after its 1 s TTL (may_have_expired_keys looks at 10 entries)' % (ENG[case[0]], n, case[2], removed))]
    return []

def check(run):
    thorough = run.tier == 'thorough'
    run.cov['trusted_base'] += [
        "hand-written model DE.Ttl (TtlLease + its use by apply_chunk / lease_background_cleanup / stop-start / snapshot of both state machines), tied to the code by the ttl probe on real time (500 ms ticks; expiries inside even ticks, clock reads inside odd ticks; late runs discarded)",
        "harness: real FileStateMachine / RocksDBStateMachine + real TtlLease built the way NodeBuilder/StandaloneServer do (new -> set_lease -> start); cleanup = lease_background_cleanup() called directly (the worker of builder.rs calls exactly this on an interval)",
    ]
    run.assumptions += ["wall clock monotone, no drift between register and cleanup (the code reads SystemTime::now())",
                        "restart = graceful stop()/start(); a kill loses every lease registered since the last stop()/snapshot install (lease snapshot is only persisted there) — not part of this check",
                        "at most 10 live leases in the correspondence cases (then the 10-entry sample of may_have_expired_keys is the whole map); larger maps are exercised by the ttl_sample probe and theorem C23_cleanup_sampling_refuted"]
    broken = flow.proof_step(run, PROPS_FILE, CONE)
    violations = []
    try:
        core.harness_build()
        cases, dist = gen_cases(run, thorough)
        outs = core.probe_parallel('ttl', cases, jobs=24, timeout=1500)
        pairs = []; late = 0
        for c, o in zip(cases, outs):
            for en in (0, 1):
                if isinstance(o, str) or (isinstance(o[en], str) and o[en] != 'LATE'):
                    broken.append(('correspondence', 'ttl probe error', str(o)[:300])); continue
                if o[en] == 'LATE': late += 1; continue
                pairs.append(([en, c[0], TPS, c[1]], o[en]))
                for cls, why in oracle(c, o[en], en):
                    violations.append({'class': cls + '-' + ENG[en], 'probe': 'ttl', 'input': c, 'output': o[en], 'why': why, 'engine': en})
        dist['late-discarded'] = late
        if late > len(cases):
            broken.append(('harness', 'ttl probe: %d of %d engine runs were late (machine too loaded for 500 ms ticks)' % (late, 2 * len(cases)), ''))
        mism = core.coq_index_list(IMPORTS, '', 'ttl_probe', pairs, tag='C23')
        if mism:
            i = mism[0]
            broken.append(('correspondence', 'DE.Ttl.tstep vs state machines + TtlLease (probe ttl)',
                           '%d disagreements; first on %s -> impl %s' % (len(mism), json.dumps(pairs[i][0]), json.dumps(pairs[i][1]))))
        run.cov['disagreements'] = len(mism)
        scases = [[en, 40, 3] for en in (0, 1) for _ in range(6 if thorough else 3)]
        scases += [[0, 5, 1], [1, 5, 1]]
        souts = _par(scases)
        for c, o in zip(scases, souts):
            if isinstance(o, str):
                broken.append(('harness', 'ttl_sample probe error', o[:300])); continue
            dist['sample-%d-leases-%s' % (c[1] + 1, 'survived' if o[0] else 'collected')] = dist.get('sample-%d-leases-%s' % (c[1] + 1, 'survived' if o[0] else 'collected'), 0) + 1
            for cls, why in sample_oracle(c, o):
                if c[1] + 1 <= 10: cls = 'expired-not-removed'
                violations.append({'class': cls + '-' + ENG[c[0]], 'probe': 'ttl_sample', 'input': c, 'output': o, 'why': why})
        run.add_cases(len(pairs), len({json.dumps(c) for c, _ in pairs}), [{'case': pairs[j][0], 'impl': pairs[j][1]} for j in (0, len(pairs) - 1)], dist,
                      'seeded: 3 keys, 5-15 ops over <= 9 real-time ticks of 500 ms (put with ttl 1 s / 2 s / 1000 s, plain put, CAS, delete, advance, cleanup, graceful restart, snapshot, snapshot install), every case ends with all short TTLs elapsed + 2 cleanups; 10 fixed scenarios; both engines; plus ttl_sample runs with 41 leases')
    except Broken as b:
        broken.append(('harness', b.what, b.detail))
    return flow.conclude(run, broken, violations)

def _par(cases):
    import concurrent.futures
    with concurrent.futures.ThreadPoolExecutor(max_workers=8) as ex:
        return list(ex.map(lambda c: core.probe('ttl_sample', [c])[0], cases))

def replay(path):
    r = json.load(open(path))
    if r.get('kind') != 'counterexample':
        print('broken obligation:', [b['name'] for b in r.get('broken', [])]); return 1
    core.harness_build()
    if r.get('probe') == 'ttl_sample':
        bad = 0
        for _ in range(4):    # the DashMap iteration order differs per TtlLease instance
            out = core.probe('ttl_sample', [r['input']])[0]
            print('implementation output:', json.dumps(out))
            for cls, why in sample_oracle(r['input'], out): print('VIOLATES: ' + why); bad = 1
        if not bad: print('ok (expired key was inside the 10-entry sample in 4 runs)')
        return bad
    out = core.probe('ttl', [r['input']], timeout=300)[0]
    print('implementation output:', json.dumps(out)); bad = 0
    for en in (0, 1):
        if isinstance(out[en], str): print(ENG[en], out[en]); continue
        for cls, why in oracle(r['input'], out[en], en): print('VIOLATES [%s]: %s' % (cls, why)); bad = 1
    if not bad: print('ok')
    return bad

META = {
    'title': 'TTL: keys expire when due and overwrites clear old TTLs',
    'level': 'proof',
    'technique': 'Rocq theorems over all operation sequences of the TTL model (readable until due, cleanup removes sampled expired keys, a put without ttl / successful CAS / delete cancels the TTL for good and the value written without TTL is never removed; refutations with witnesses for restart or snapshot install after the deadline, File WAL replay, File snapshot install, 10-entry sampling; history theorems on the step before a7b815e) + differential check against both real state machines on real time',
    'text': "Rocq, both engines, all sequences of put/put-with-ttl/CAS/delete/advance/cleanup(any sample)/restart/snapshot/install, model = the code as it is (a7b815e: Insert without ttl_secs and a successful CompareAndSwap unregister the key's lease): C23_readable_until_due (a key with a lease stays readable with its value, and keeps the lease, across every operation sequence that does not write it while now < deadline — incl. cleanups and restarts), C23_untouched_without_lease_never_removed, C23_delete_then_put_cancels_ttl, C23_cleanup_removes_sampled_expired_partial (+ _small: <= 10 sampled keys cover the map), C23_cleanup_touches_only_expired, C23_rocks_install_restores_ttl. Overwrites clear old TTLs, from EVERY state and for EVERY later sequence: C23_cancelled_ttl_stays_cancelled (after a put without ttl, a delete or a successful CAS of k, k has no lease after any later sequence that does not itself put k WITH a ttl or install a RocksDB snapshot — later writes/CAS/deletes of k, advances, cleanups, restarts included: a lease k has later was registered after that write), C23_cancelled_ttl_never_expires (hence k is never expired and no later cleanup step, whatever it samples, removes or changes k), C23_plain_write_never_removed (the value written without ttl stays readable, without lease, across every sequence that does not write k again or install a snapshot — incl. restarts of BOTH engines: the File WAL replay applies that write last). Refuted with machine-checked witnesses, each reproduced on the real engines (known findings the fix does not address): C23_restart_after_due_refuted / C23_file_restart_after_due_refuted (reload drops the expired lease but not the key: the key becomes permanent), C23_file_restart_resurrects_old_value_refuted (WAL replay skips the expired TTL insert and re-applies the value it had overwritten), C23_file_install_loses_ttl_refuted (File apply_snapshot_from_file never reloads the lease), C23_cleanup_sampling_refuted (11 leases, expired key outside the 10-entry sample is never collected). HISTORY, on the step before a7b815e (Ttl.tstep_old): C23_history_unrepaired_plain_put_keeps_old_ttl, C23_history_unrepaired_cas_keeps_old_ttl (lease survived the write, new value deleted at the old deadline), C23_history_unrepaired_step_differs_only_in_lease.",
    'note': "Trusted: Coq kernel, hand model Ttl (validated by the probe on real time, incl. the directed cases overwrite-plain / overwrite-cas that failed before a7b815e). The tree violated the overwrite clause until a7b815e (known_findings.json status fixed: overwrite-keeps-old-ttl-file/-rocksdb); it still violates the property in four ways (known findings: reload after the deadline, File snapshot install, File WAL replay, 10-entry sampling). The unregister that a7b815e added to FileStateMachine::replay_wal is not reachable in the modelled restart (replay runs inside new(), before set_lease). Clock hook H4 is proposed as a patch (hooks/H4-lease-clock.diff) to replace real-time ticks.",
    'design_ref': 'DESIGN.md §4 C23',
}
