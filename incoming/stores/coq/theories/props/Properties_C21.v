(* Pinned statements of property C21. Nothing else lives here.

   Full statement (for both engines, both crash modes, every crash point cp of save_hard_state new after
   old was saved):   forall o, In o (outcomes mode (save_crash w new cp)) -> o = Some old \/ o = Some new,
   and outcomes Process (save w new) = [Some new].
   It holds for RocksDB under process crashes (C21_rocks_process_crash), for RocksDB under power loss when
   the WAL was synced after the previous save (C21_rocks_power_loss_partial; RocksDBMetaStore itself never
   syncs, see C21_rocks_power_loss_unsynced_refuted), and its second sentence holds for File
   (C21_file_saved_survives_process_crash).  Its first sentence is FALSE for the File store:
   C21_file_atomicity_refuted (process crash, every save) and C21_file_power_loss_refuted. *)
From Coq Require Import NArith Arith List Bool.
From DE Require Import Val MetaStore proofs.C21.
Import ListNotations.
Open Scope N_scope.

(* bincode never accepts a torn hard state, and reads back what was written *)
Theorem C21_encoding_sound :
  (forall h, wf_hs h -> decode (encode h) = Some h) /\
  (forall h k, (k < length (encode h))%nat -> decode (firstn k (encode h)) = None).
Proof. exact (conj decode_encode decode_prefix). Qed.
Print Assumptions C21_encoding_sound.

(* File, process crash: exact outcome at every crash point *)
Theorem C21_file_process_crash_outcome :
  forall (w : fworld) (old new : hs) (cp : nat), wf_hs old -> wf_hs new -> fw_cache w = Some (encode old) ->
    f_outcomes Process (f_save_crash w new cp) =
    [ match cp with
      | O => Some old
      | S k => if (k <? length (encode new))%nat then None else Some new
      end ].
Proof. exact fmeta_process_crash. Qed.
Print Assumptions C21_file_process_crash_outcome.

Theorem C21_file_saved_survives_process_crash :
  forall (w : fworld) (new : hs), wf_hs new -> f_outcomes Process (f_save w new) = [Some new].
Proof. exact fmeta_saved_survives_process_crash. Qed.
Print Assumptions C21_file_saved_survives_process_crash.

(* the first sentence of C21 is false for FileMetaStore: in EVERY save, a process crash after File::create
   and before the last byte of write_all leaves neither the old nor the new state but none at all *)
Theorem C21_file_atomicity_refuted :
  forall (w : fworld) (old new : hs), wf_hs old -> wf_hs new -> fw_cache w = Some (encode old) ->
    forall cp, (1 <= cp <= length (encode new))%nat ->
      f_outcomes Process (f_save_crash w new cp) = [None].
Proof. exact fmeta_atomic_refuted. Qed.
Print Assumptions C21_file_atomicity_refuted.

(* ... and under power loss "no state" stays a possible outcome for ever, because nothing is ever synced *)
Theorem C21_file_power_loss_refuted :
  forall saves : list hs, In None (f_outcomes Power (fold_left f_save saves fw0)).
Proof. exact fmeta_power_loss_refuted. Qed.
Print Assumptions C21_file_power_loss_refuted.

(* RocksDB, process crash: old before the put, new after it — atomic, and durable once save returned *)
Theorem C21_rocks_process_crash :
  forall (w : kworld) (new : hs) (cp : nat), wf_hs new ->
    k_outcomes Process (k_save_crash w new cp) = [ match cp with O => f_load (kw_mem w) | S _ => Some new end ].
Proof. exact rmeta_process_crash. Qed.
Print Assumptions C21_rocks_process_crash.

(* RocksDB, power loss — partial: old-or-new needs the WAL to have been synced after the previous save *)
Theorem C21_rocks_power_loss_partial :
  forall (w : kworld) (old new : hs) (cp : nat), wf_hs old -> wf_hs new ->
    kw_unsynced w = [Some (encode old)] ->
    forall o, In o (k_outcomes Power (k_save_crash w new cp)) -> o = Some old \/ o = Some new.
Proof. exact rmeta_power_loss_synced. Qed.
Print Assumptions C21_rocks_power_loss_partial.

(* RocksDB, any crash mode, any history of saves: the loaded state is one that was saved (or the initial
   absence) — never an undecodable or invented one *)
Theorem C21_rocks_never_undecodable :
  forall (saves : list hs) (m : mode), Forall wf_hs saves ->
    forall o, In o (k_outcomes m (fold_left k_save saves kw0)) ->
      o = None \/ exists h, In h saves /\ o = Some h.
Proof. exact rmeta_never_undecodable. Qed.
Print Assumptions C21_rocks_never_undecodable.

Theorem C21_rocks_power_loss_unsynced_refuted :
  exists a b c : hs, wf_hs a /\ wf_hs b /\ wf_hs c /\
    In (Some a) (k_outcomes Power (k_save (k_save (k_save (k_flush kw0) a) b) c)) /\ Some a <> Some b /\ Some a <> Some c.
Proof.
  exists hA, hB, hC. destruct rmeta_power_loss_unsynced_refuted as [H1 [_ [H2 H3]]].
  exact (conj wf_A (conj wf_B (conj wf_C (conj H1 (conj H2 H3))))).
Qed.
Print Assumptions C21_rocks_power_loss_unsynced_refuted.
