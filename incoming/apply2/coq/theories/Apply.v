(* Apply — executable model of the commit -> apply pipeline of one node, as coded:
     DefaultCommitHandler::run / process_batch          (commit_handler/default_commit_handler.rs)
     DefaultStateMachineHandler::{update_pending, pending_range, apply_chunk}  (state_machine_handler/default_state_machine_handler.rs)
     StateMachineWorker::run / apply_and_notify          (state_machine_handler/worker.rs)
     decode_entries                                      (command.rs)
   Two processes share the atomics last_applied / pending_commit and the unbounded channel sm_apply_tx:
     - the commit handler drains commit notifications (at most max_batch_size per round), raises pending_commit to
       their maximum, computes the range (last_applied, pending_commit], reads it from the log, splits it after every
       Noop / Config entry and sends the chunks to the worker;
     - the worker takes one chunk at a time, hands it to StateMachine::apply_chunk and only THEN stores
       last_applied := index of the chunk's last entry.
   The parameter [fx] selects the range start: [true] = the code as it is (the handler remembers in last_sent the
   last index it has already handed to the worker and starts after max(last_applied, last_sent)), [false] = the code
   BEFORE the fix "last_sent" (range from last_applied alone) — kept as history for the refutation witnesses.
   process_batch also applies every Config entry of the range to the membership (apply_config_change +
   notify_config_applied(index)); the indexes are recorded in [cfgs].  No proofs here. *)
From Coq Require Import NArith List Bool.
From DE Require Import Val.
Import ListNotations.
Open Scope N_scope.

Inductive cmd :=
| CPut (k v ttl : N)                 (* ttl = 0: no expiry *)
| CDel (k : N)
| CCas (k : N) (e : option N) (v : N)
| CNoop.

Inductive ekind := KCmd (c : cmd) | KNoop | KConfig.

Record entry := { e_idx : N; e_term : N; e_kind : ekind }.

(* the committed log: position p (from 0) holds the entry of index p+1 *)
Definition log := list (N * ekind).

Fixpoint index_from (i : N) (lg : log) : list entry :=
  match lg with
  | [] => []
  | (t, k) :: lg' => {| e_idx := i; e_term := t; e_kind := k |} :: index_from (i + 1) lg'
  end.
Definition indexed (lg : log) : list entry := index_from 1 lg.

(* RaftLog::get_entries_range(lo ..= hi) on a log without holes, lo >= 1 *)
Definition get_range (lg : log) (lo hi : N) : list entry :=
  skipn (N.to_nat (lo - 1)) (firstn (N.to_nat hi) (indexed lg)).

(* process_batch: Command entries accumulate; a Noop or Config entry closes the chunk; the rest is sent at the end *)
Fixpoint chunks (acc : list entry) (es : list entry) : list (list entry) :=
  match es with
  | [] => match acc with [] => [] | _ => [acc] end
  | e :: es' =>
      match e_kind e with
      | KCmd _ => chunks (acc ++ [e]) es'
      | _ => (acc ++ [e]) :: chunks [] es'
      end
  end.

Record st := {
  la : N;                        (* DefaultStateMachineHandler.last_applied *)
  pc : N;                        (* DefaultStateMachineHandler.pending_commit *)
  sent : N;                      (* DefaultCommitHandler.last_sent: highest index already handed to the worker *)
  q : list (list entry);         (* sm_apply channel: chunks sent, not yet applied *)
  applied : list (list entry);   (* inputs of StateMachine::apply_chunk so far, oldest first; survives a restart *)
  cfgs : list N                  (* indexes handed to Membership::notify_config_applied so far *)
}.

Definition st0 : st := {| la := 0; pc := 0; sent := 0; q := []; applied := []; cfgs := [] |}.

Definition config_idxs (es : list entry) : list N :=
  map e_idx (filter (fun e => match e_kind e with KConfig => true | _ => false end) es).

Definition stream (s : st) : list entry := concat (applied s).
Definition last_idx (c : list entry) (d : N) : N := last (map e_idx c) d.

(* one round of the commit handler: the drained notifications [g], then process_batch *)
Definition hstep (fx : bool) (lg : log) (s : st) (g : list N) : st :=
  let pc' := fold_left N.max g (pc s) in
  let from := if fx then N.max (la s) (sent s) else la s in
  if from <? pc' then
    let es := get_range lg (from + 1) pc' in
    {| la := la s; pc := pc'; sent := last_idx es (sent s); q := q s ++ chunks [] es; applied := applied s;
       cfgs := cfgs s ++ config_idxs es |}
  else
    {| la := la s; pc := pc'; sent := sent s; q := q s; applied := applied s; cfgs := cfgs s |}.

(* one chunk through the worker: apply_chunk, then last_applied := last index of the chunk *)
Definition wstep (s : st) : st :=
  match q s with
  | [] => s
  | c :: rest =>
      {| la := last_idx c (la s); pc := pc s; sent := sent s; q := rest; applied := applied s ++ [c]; cfgs := cfgs s |}
  end.

(* crash + restart: channel contents and the counters are lost; the handlers are rebuilt with
   last_applied = StateMachine::last_applied().index (= the index of the last entry the state machine was given),
   pending_commit = 0, last_sent = 0 *)
Definition rstep (s : st) : st :=
  let a := last_idx (stream s) 0 in
  {| la := a; pc := 0; sent := 0; q := []; applied := applied s; cfgs := cfgs s |}.

Inductive label := LCommit (g : list N) | LApply | LRestart.

Definition step (fx : bool) (lg : log) (s : st) (l : label) : st :=
  match l with
  | LCommit g => hstep fx lg s g
  | LApply => wstep s
  | LRestart => rstep s
  end.

Definition run (fx : bool) (lg : log) (ls : list label) : st := fold_left (step fx lg) ls st0.

(* ---- the state machine: a key-value store (sorted association list) ---- *)
Definition kv := list (N * N).
Fixpoint kv_get (m : kv) (k : N) : option N :=
  match m with [] => None | (k', v) :: m' => if k =? k' then Some v else kv_get m' k end.
Fixpoint kv_put (m : kv) (k v : N) : kv :=
  match m with
  | [] => [(k, v)]
  | (k', v') :: m' => if k <? k' then (k, v) :: m else if k =? k' then (k, v) :: m' else (k', v') :: kv_put m' k v
  end.
Fixpoint kv_del (m : kv) (k : N) : kv :=
  match m with [] => [] | (k', v') :: m' => if k =? k' then m' else (k', v') :: kv_del m' k end.
Definition oeqb (a b : option N) : bool :=
  match a, b with Some x, Some y => x =? y | None, None => true | _, _ => false end.
Definition kv_apply (m : kv) (c : cmd) : kv :=
  match c with
  | CPut k v _ => kv_put m k v
  | CDel k => kv_del m k
  | CCas k e v => if oeqb (kv_get m k) e then kv_put m k v else m
  | CNoop => m
  end.
(* decode_entries: Noop and Config entries reach the state machine as Command::Noop *)
Definition decode (e : entry) : cmd := match e_kind e with KCmd c => c | _ => CNoop end.
Definition kv_of (es : list entry) : kv := fold_left kv_apply (map decode es) [].
Definition kvstate (s : st) : kv := kv_of (stream s).

(* ---- val glue ---- *)
Definition kind_of_val (v : val) : ekind :=
  let k := vn (vnth v 1) in
  let a := vn (vnth v 2) in let b := vn (vnth v 3) in let c := vn (vnth v 4) in
  if k =? 0 then KCmd (CPut a b c)
  else if k =? 1 then KCmd (CDel a)
  else if k =? 2 then KCmd (CCas a (if b =? 0 then None else Some (b - 1)) c)
  else if k =? 3 then KNoop
  else KConfig.
Definition log_of_val (v : val) : log := map (fun e => (vn (vnth e 0), kind_of_val e)) (vl v).

Definition val_of_cmd (c : cmd) : val :=
  match c with
  | CPut k v t => VL [VN 0; VN k; VN v; VN t]
  | CDel k => VL [VN 1; VN k]
  | CCas k e v => VL [VN 2; VN k; VN (match e with None => 0 | Some x => x + 1 end); VN v]
  | CNoop => VL [VN 3]
  end.
Definition val_of_entry (e : entry) : val := VL [VN (e_idx e); VN (e_term e); val_of_cmd (decode e)].
Definition val_of_kv (m : kv) : val := VL (map (fun p => VL [VN (fst p); VN (snd p)]) m).

(* the handler drains at most [mb] notifications per round *)
Fixpoint groups (fuel : nat) (mb : nat) (cs : list N) : list (list N) :=
  match fuel with
  | O => []
  | S f => match cs with [] => [] | _ => firstn mb cs :: groups f mb (skipn mb cs) end
  end.

Definition labels_of_val (mb : N) (v : val) : list label :=
  let k := vn (vnth v 0) in
  if k =? 0 then
    let cs := vnl (vnth v 1) in
    map LCommit (groups (length cs) (N.to_nat (N.max mb 1)) cs)
  else if k =? 1 then [LApply]
  else [LRestart].

Definition observe (s : st) : val :=
  VL [VN (la s); (if la s <? pc s then VL [VN (la s + 1); VN (pc s)] else VL []); val_of_kv (kvstate s)].

(* input: [log, max_batch_size, [label..]]; output: [[per label: la, pending_range, kv], chunks applied, config indexes] *)
Definition apply_probe_of (fx : bool) (v : val) : val :=
  let lg := log_of_val (vnth v 0) in
  let mb := vn (vnth v 1) in
  let r := fold_left (fun acc lv =>
                        let s' := fold_left (step fx lg) (labels_of_val mb lv) (fst acc) in
                        (s', snd acc ++ [observe s']))
                     (vl (vnth v 2)) (st0, []) in
  VL [VL (snd r); VL (map (fun c => VL (map val_of_entry c)) (applied (fst r))); vns (cfgs (fst r))].

(* the code as it is *)
Definition apply_probe : val -> val := apply_probe_of true.
(* the code before the fix (history; used to replay the old witnesses against an unrepaired tree) *)
Definition apply_probe_unrepaired : val -> val := apply_probe_of false.
