(* Pinned statements of property C06 (state machine safety) on the commit -> apply pipeline model DE.Apply.
   [run true] is the pipeline as coded (DefaultCommitHandler keeps last_sent and starts each range after
   max(last_applied, last_sent)).  [run false] is the pipeline BEFORE that fix; the theorems named C06_history_*
   are kept as a record of what failed and why the fix was needed.  Nothing else lives here.
   (The cross-node part — committed logs agree — is pinned in Properties_C06.v on the abstract Raft model.) *)
From Coq Require Import NArith List.
From DE Require Import Val Apply proofs.C06.
Import ListNotations.
Open Scope N_scope.

(* FULL STATEMENT, code as it is, every schedule of commit rounds / worker steps / crash-restarts: the inputs of
   StateMachine::apply_chunk, concatenated, are exactly the log prefix 1..last_applied (in order, no gap, nothing
   twice, the log's own entries), and the key-value state is the fold of that prefix over the empty store *)
Theorem C06_exactly_once :
  forall (lg : log) (ls : list label),
    stream (run true lg ls) = firstn (length (stream (run true lg ls))) (indexed lg) /\
    la (run true lg ls) = N.of_nat (length (stream (run true lg ls))) /\
    kvstate (run true lg ls) = kv_of (firstn (N.to_nat (la (run true lg ls))) (indexed lg)).
Proof. exact exactly_once. Qed.
Print Assumptions C06_exactly_once.

(* what "the stream is a prefix of the indexed log" means: position k holds index k+1 and is the log's entry *)
Theorem C06_prefix_positions :
  forall (lg : log) (n k : nat) (e : entry),
    nth_error (firstn n (indexed lg)) k = Some e -> e_idx e = N.of_nat k + 1 /\ nth_error (indexed lg) k = Some e.
Proof. exact prefix_positions. Qed.
Print Assumptions C06_prefix_positions.

(* whatever reaches the state machine at index i is the log's entry at i (either variant), and the log holds one
   entry per index: two nodes with the same committed log never apply different commands at one index *)
Theorem C06_applies_log_entries :
  forall (fx : bool) (lg : log) (ls : list label) (e : entry),
    In e (stream (run fx lg ls)) -> In e (indexed lg).
Proof. exact applies_log_entries. Qed.
Print Assumptions C06_applies_log_entries.

Theorem C06_log_entry_unique_per_index :
  forall (lg : log) (e1 e2 : entry), In e1 (indexed lg) -> In e2 (indexed lg) -> e_idx e1 = e_idx e2 -> e1 = e2.
Proof. exact indexed_functional. Qed.
Print Assumptions C06_log_entry_unique_per_index.

(* between restarts the commit handler hands every Config entry of the processed prefix to the membership once *)
Theorem C06_config_applied_once :
  forall (lg : log) (ls : list label), Forall (fun l => l <> LRestart) ls ->
    cfgs (run true lg ls) = config_idxs (firstn (length (stream (run true lg ls) ++ concat (q (run true lg ls)))) (indexed lg)).
Proof. exact config_applied_once. Qed.
Print Assumptions C06_config_applied_once.

(* ------------------------------------------------------------------ HISTORY (pipeline before the fix "last_sent") *)
(* two commit notifications handled before the first chunk was applied *)
Theorem C06_history_unrepaired_double_apply :
  map e_idx (stream (run false w_log1 [LCommit [5]; LCommit [7]; LApply; LApply])) = [1; 2; 3; 4; 5; 1; 2; 3; 4; 5; 6; 7].
Proof. exact unrepaired_double_apply. Qed.
Print Assumptions C06_history_unrepaired_double_apply.

Theorem C06_history_unrepaired_state_diverges :
  forall n : nat,
    kvstate (run false w_log2 [LCommit [2]; LCommit [3]; LApply; LApply]) <> kv_of (firstn n (indexed w_log2)).
Proof. exact unrepaired_state_diverges. Qed.
Print Assumptions C06_history_unrepaired_state_diverges.

(* the Config entry at index 2 was handed to the membership twice *)
Theorem C06_history_unrepaired_config_applied_twice :
  cfgs (run false w_log3 [LCommit [2]; LCommit [5]; LApply; LApply; LApply; LApply]) = [2; 2; 4].
Proof. exact unrepaired_config_applied_twice. Qed.
Print Assumptions C06_history_unrepaired_config_applied_twice.

(* what did hold before the fix: exactly-once when a commit round never started while chunks were queued *)
Theorem C06_history_unrepaired_serial_exactly_once :
  forall (lg : log) (s : st), serial lg s ->
    stream s = firstn (length (stream s)) (indexed lg) /\
    la s = N.of_nat (length (stream s)) /\
    kvstate s = kv_of (firstn (N.to_nat (la s)) (indexed lg)).
Proof. exact unrepaired_serial_exactly_once. Qed.
Print Assumptions C06_history_unrepaired_serial_exactly_once.
