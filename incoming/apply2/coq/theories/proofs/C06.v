(* C06 — state machine safety on the commit -> apply pipeline model DE.Apply.
   Main invariant [Inv]: everything the state machine has been given so far, followed by everything still queued
   for it, is exactly a prefix of the (indexed) committed log.  It is preserved by every step of the pipeline as
   coded ([fx = true]: DefaultCommitHandler keeps last_sent).  HISTORY: before the fix "last_sent" the range was
   computed from last_applied alone ([fx = false]); for that variant the invariant only holds while the commit
   handler never runs with chunks still queued, and the unrestricted statement is refuted by witness schedules
   (they reproduced on the real code through the probe `commit_apply` until the fix). *)
From Coq Require Import Arith NArith List Bool Lia.
From DE Require Import Val Apply.
Import ListNotations.
Open Scope N_scope.

(* ---------- lists ---------- *)
Lemma firstn_len_self : forall (A : Type) (n : nat) (l : list A), firstn n l = firstn (length (firstn n l)) l.
Proof.
  intros A n. induction n as [|n IH]; intros l.
  - reflexivity.
  - destruct l as [|a l]. + reflexivity. + cbn [firstn length]. f_equal. apply IH.
Qed.

Lemma prefix_of_firstn : forall (A : Type) (l1 l2 L : list A),
  l1 ++ l2 = firstn (length (l1 ++ l2)) L -> l1 = firstn (length l1) L.
Proof.
  intros A l1 l2 L H.
  assert (E : l1 = firstn (length l1) (l1 ++ l2)).
  { rewrite firstn_app, Nat.sub_diag, firstn_all. cbn [firstn]. now rewrite app_nil_r. }
  rewrite H in E. rewrite firstn_firstn in E.
  rewrite app_length in E. replace (Nat.min (length l1) (length l1 + length l2)) with (length l1) in E by lia.
  exact E.
Qed.

Lemma in_firstn : forall (A : Type) (n : nat) (l : list A) (x : A), In x (firstn n l) -> In x l.
Proof.
  intros A n. induction n as [|n IH]; intros l x H.
  - destruct H.
  - destruct l as [|a l]. + destruct H. + cbn [firstn] in H. destruct H as [H|H]. * now left. * right. now apply IH.
Qed.

Lemma in_skipn : forall (A : Type) (n : nat) (l : list A) (x : A), In x (skipn n l) -> In x l.
Proof.
  intros A n. induction n as [|n IH]; intros l x H.
  - exact H.
  - destruct l as [|a l]. + destruct H. + right. now apply IH.
Qed.

(* ---------- chunks ---------- *)
Lemma chunks_concat : forall es acc, concat (chunks acc es) = acc ++ es.
Proof.
  induction es as [|e es IH]; intros acc.
  - cbn [chunks]. destruct acc; cbn [concat]; now rewrite ?app_nil_r.
  - cbn [chunks]. destruct (e_kind e).
    + rewrite IH. now rewrite <- app_assoc.
    + cbn [concat]. rewrite IH. now rewrite <- app_assoc.
    + cbn [concat]. rewrite IH. now rewrite <- app_assoc.
Qed.

Lemma chunks_nonempty : forall es acc, Forall (fun c => c <> []) (chunks acc es).
Proof.
  induction es as [|e es IH]; intros acc.
  - cbn [chunks]. destruct acc; constructor; [discriminate | constructor].
  - cbn [chunks]. destruct (e_kind e).
    + apply IH.
    + constructor; [destruct acc; discriminate | apply IH].
    + constructor; [destruct acc; discriminate | apply IH].
Qed.

(* ---------- the indexed log ---------- *)
Lemma nth_error_index_from : forall lg i k e,
  nth_error (index_from i lg) k = Some e -> e_idx e = i + N.of_nat k.
Proof.
  induction lg as [|[t kd] lg IH]; intros i k e H.
  - destruct k; discriminate.
  - destruct k as [|k].
    + cbn in H. inversion H. cbn. lia.
    + cbn [index_from nth_error] in H. apply IH in H. lia.
Qed.

Lemma indexed_position : forall lg k e, nth_error (indexed lg) k = Some e -> e_idx e = N.of_nat k + 1.
Proof. intros lg k e H. apply nth_error_index_from in H. lia. Qed.

Lemma index_from_pos : forall lg i l1 e l2,
  index_from i lg = l1 ++ e :: l2 -> e_idx e = i + N.of_nat (length l1).
Proof.
  intros lg i l1 e l2 H. apply (nth_error_index_from lg i (length l1) e).
  rewrite H, nth_error_app2 by lia. now rewrite Nat.sub_diag.
Qed.

Lemma indexed_functional : forall lg e1 e2,
  In e1 (indexed lg) -> In e2 (indexed lg) -> e_idx e1 = e_idx e2 -> e1 = e2.
Proof.
  intros lg e1 e2 H1 H2 E.
  apply In_nth_error in H1. destruct H1 as [k1 H1]. apply In_nth_error in H2. destruct H2 as [k2 H2].
  pose proof (indexed_position _ _ _ H1) as P1. pose proof (indexed_position _ _ _ H2) as P2.
  assert (k1 = k2) by lia. subst k2. rewrite H1 in H2. now inversion H2.
Qed.

Lemma last_idx_pref : forall lg P c d,
  P ++ c = firstn (length (P ++ c)) (indexed lg) -> c <> [] -> last_idx c d = N.of_nat (length (P ++ c)).
Proof.
  intros lg P c d H Hc.
  destruct (exists_last Hc) as [c' [e Ec]]. subst c.
  pose proof (firstn_skipn (length (P ++ c' ++ [e])) (indexed lg)) as FS.
  rewrite <- H in FS.
  assert (E : indexed lg = (P ++ c') ++ e :: skipn (length (P ++ c' ++ [e])) (indexed lg)).
  { rewrite <- FS at 1. now rewrite <- !app_assoc. }
  apply index_from_pos in E.
  unfold last_idx. rewrite map_app. cbn [map]. rewrite last_last.
  rewrite E. rewrite !app_length. cbn [length]. lia.
Qed.

Lemma last_idx_nil : forall d, last_idx [] d = d.
Proof. reflexivity. Qed.

(* ---------- the invariant ---------- *)
Definition total (s : st) : list entry := stream s ++ concat (q s).

Record Inv (lg : log) (s : st) : Prop := {
  inv_pref : total s = firstn (length (total s)) (indexed lg);
  inv_la : la s = N.of_nat (length (stream s));
  inv_sent : N.max (la s) (sent s) = N.of_nat (length (total s));
  inv_ne : Forall (fun c => c <> []) (q s)
}.

Definition allowed (s : st) (l : label) : Prop :=
  match l with LCommit _ => q s = [] | _ => True end.

Lemma Inv_st0 : forall lg, Inv lg st0.
Proof. intros lg. constructor; cbn; auto. Qed.

Lemma Inv_stream : forall lg s, Inv lg s -> stream s = firstn (length (stream s)) (indexed lg).
Proof. intros lg s I. apply (prefix_of_firstn _ (stream s) (concat (q s))). apply (inv_pref _ _ I). Qed.

Lemma Inv_hstep : forall fx lg s g, Inv lg s -> (fx = true \/ q s = []) -> Inv lg (hstep fx lg s g).
Proof.
  intros fx lg s g I Hm. unfold hstep.
  set (pc' := fold_left N.max g (pc s)).
  assert (Hfrom : (if fx then N.max (la s) (sent s) else la s) = N.of_nat (length (total s))).
  { destruct fx.
    - apply (inv_sent _ _ I).
    - destruct Hm as [Hm|Hm]; [discriminate Hm|].
      rewrite (inv_la _ _ I). unfold total. rewrite Hm. cbn [concat]. now rewrite app_nil_r. }
  rewrite Hfrom.
  destruct (N.ltb_spec (N.of_nat (length (total s))) pc') as [Hlt|Hge].
  2:{ constructor; cbn [la pc sent q applied cfgs]; try apply I. }
  set (es := get_range lg (N.of_nat (length (total s)) + 1) pc').
  set (s' := {| la := la s; pc := pc'; sent := last_idx es (sent s); q := q s ++ chunks [] es; applied := applied s;
                cfgs := cfgs s ++ config_idxs es |}).
  assert (Tot : total s' = total s ++ es).
  { unfold total, s', stream. cbn [q applied]. rewrite concat_app, chunks_concat. cbn [app]. now rewrite app_assoc. }
  assert (Pf : total s ++ es = firstn (N.to_nat pc') (indexed lg)).
  { unfold es, get_range.
    replace (N.to_nat (N.of_nat (length (total s)) + 1 - 1)) with (length (total s)) by lia.
    rewrite <- (firstn_skipn (length (total s)) (firstn (N.to_nat pc') (indexed lg))) at 2.
    f_equal. rewrite firstn_firstn.
    replace (Nat.min (length (total s)) (N.to_nat pc')) with (length (total s)) by lia.
    apply (inv_pref _ _ I). }
  assert (Pf' : total s ++ es = firstn (length (total s ++ es)) (indexed lg)).
  { rewrite Pf at 2. rewrite <- firstn_len_self. exact Pf. }
  clearbody es. subst s'.
  constructor.
  - rewrite Tot. exact Pf'.
  - cbn [la]. unfold stream. cbn [applied]. apply I.
  - cbn [la sent]. rewrite Tot. destruct es as [|e0 es0].
    + rewrite last_idx_nil, app_nil_r. apply I.
    + assert (Ne : e0 :: es0 <> []) by discriminate.
      rewrite (last_idx_pref lg (total s) (e0 :: es0) (sent s) Pf' Ne).
      rewrite (inv_la _ _ I). unfold total. rewrite !app_length. lia.
  - cbn [q]. apply Forall_app. split. + apply I. + apply chunks_nonempty.
Qed.

Lemma Inv_wstep : forall lg s, Inv lg s -> Inv lg (wstep s).
Proof.
  intros lg s I. unfold wstep. destruct (q s) as [|c rest] eqn:Eq; [exact I|].
  set (s' := {| la := last_idx c (la s); pc := pc s; sent := sent s; q := rest; applied := applied s ++ [c]; cfgs := cfgs s |}).
  assert (St : stream s' = stream s ++ c).
  { unfold stream, s'. cbn [applied]. rewrite concat_app. cbn [concat]. now rewrite app_nil_r. }
  assert (Tot : total s' = total s).
  { unfold total. rewrite St. unfold s'. cbn [q]. rewrite Eq. cbn [concat]. now rewrite app_assoc. }
  pose proof (inv_ne _ _ I) as NE. rewrite Eq in NE. inversion NE as [|c0 r0 Hc Hr]; subst.
  assert (Pc : stream s ++ c = firstn (length (stream s ++ c)) (indexed lg)).
  { apply (prefix_of_firstn _ (stream s ++ c) (concat rest)).
    pose proof (inv_pref _ _ I) as P. unfold total in P. rewrite Eq in P. cbn [concat] in P.
    rewrite app_assoc in P. exact P. }
  subst s'.
  constructor.
  - rewrite Tot. apply I.
  - cbn [la]. rewrite St. now apply (last_idx_pref lg).
  - cbn [la sent]. rewrite Tot.
    pose proof (last_idx_pref lg (stream s) c (la s) Pc Hc) as Hla.
    pose proof (inv_la _ _ I) as L. pose proof (inv_sent _ _ I) as S.
    assert (Lt : length (total s) = (length (stream s) + length c + length (concat rest))%nat).
    { unfold total. rewrite Eq. cbn [concat]. rewrite !app_length. lia. }
    assert (Lc : (1 <= length c)%nat) by (destruct c; [contradiction | cbn; lia]).
    rewrite Hla, app_length. lia.
  - exact Hr.
Qed.

Lemma Inv_rstep : forall lg s, Inv lg s -> Inv lg (rstep s).
Proof.
  intros lg s I. unfold rstep.
  set (a := last_idx (stream s) 0).
  set (s' := {| la := a; pc := 0; sent := 0; q := []; applied := applied s; cfgs := cfgs s |}).
  assert (St : stream s' = stream s) by reflexivity.
  assert (Tot : total s' = stream s). { unfold total. rewrite St. cbn. now rewrite app_nil_r. }
  pose proof (Inv_stream _ _ I) as Ps.
  assert (Ha : a = N.of_nat (length (stream s))).
  { unfold a. destruct (stream s) as [|e0 r0] eqn:Es.
    - reflexivity.
    - assert (Ne : e0 :: r0 <> []) by discriminate.
      exact (last_idx_pref lg [] (e0 :: r0) 0 Ps Ne). }
  subst s'.
  constructor.
  - rewrite Tot. exact Ps.
  - cbn [la]. rewrite St. exact Ha.
  - cbn [la sent]. rewrite Tot, Ha. lia.
  - constructor.
Qed.

Lemma Inv_step : forall fx lg s l, Inv lg s -> (fx = true \/ allowed s l) -> Inv lg (step fx lg s l).
Proof.
  intros fx lg s l I H. destruct l as [g| |]; cbn [step].
  - apply Inv_hstep; [exact I|]. destruct H as [H|H]; [now left | now right].
  - now apply Inv_wstep.
  - now apply Inv_rstep.
Qed.

(* HISTORY (before the fix): executions of the unrepaired pipeline in which the commit handler never runs while chunks are queued *)
Inductive serial (lg : log) : st -> Prop :=
| serial0 : serial lg st0
| serialS : forall s l, serial lg s -> allowed s l -> serial lg (step false lg s l).

Lemma Inv_run_fixed : forall lg ls s, Inv lg s -> Inv lg (fold_left (step true lg) ls s).
Proof.
  intros lg ls. induction ls as [|l ls IH]; intros s I.
  - exact I.
  - cbn [fold_left]. apply IH. apply Inv_step; [exact I | now left].
Qed.

Lemma Inv_serial : forall lg s, serial lg s -> Inv lg s.
Proof.
  intros lg s H. induction H as [|s l Hs IH Ha].
  - apply Inv_st0.
  - apply Inv_step; [exact IH | now right].
Qed.

(* ---------- what the invariant means ---------- *)
Definition exactly_once_in_order (lg : log) (s : st) : Prop :=
  stream s = firstn (length (stream s)) (indexed lg)
  /\ la s = N.of_nat (length (stream s))
  /\ kvstate s = kv_of (firstn (N.to_nat (la s)) (indexed lg)).

Lemma Inv_meaning : forall lg s, Inv lg s -> exactly_once_in_order lg s.
Proof.
  intros lg s I. pose proof (Inv_stream _ _ I) as P. pose proof (inv_la _ _ I) as L.
  split; [exact P|]. split; [exact L|].
  unfold kvstate. rewrite L. rewrite Nat2N.id. now rewrite <- P.
Qed.

(* the pipeline as coded, every schedule *)
Theorem exactly_once : forall lg ls, exactly_once_in_order lg (run true lg ls).
Proof. intros lg ls. apply Inv_meaning. unfold run. apply Inv_run_fixed. apply Inv_st0. Qed.

(* HISTORY: the unrepaired pipeline under the serialisation side condition *)
Theorem unrepaired_serial_exactly_once : forall lg s, serial lg s -> exactly_once_in_order lg s.
Proof. intros lg s H. apply Inv_meaning. now apply Inv_serial. Qed.

(* a prefix of the indexed log holds index k+1 at position k: increasing, no gap, nothing twice *)
Theorem prefix_positions : forall lg n k e,
  nth_error (firstn n (indexed lg)) k = Some e -> e_idx e = N.of_nat k + 1 /\ nth_error (indexed lg) k = Some e.
Proof.
  intros lg n k e H.
  assert (H' : nth_error (indexed lg) k = Some e).
  { rewrite <- (firstn_skipn n (indexed lg)).
    assert (k < length (firstn n (indexed lg)))%nat by (apply nth_error_Some; congruence).
    now rewrite nth_error_app1. }
  split; [now apply indexed_position in H' | exact H'].
Qed.

(* ---------- both variants, every schedule: what is applied is always the log's entry ---------- *)
Definition faithful (lg : log) (s : st) : Prop :=
  forall e, In e (total s) -> In e (indexed lg).

Lemma total_hstep : forall fx lg s g,
  total (hstep fx lg s g) = total s \/ exists lo hi, total (hstep fx lg s g) = total s ++ get_range lg lo hi.
Proof.
  intros fx lg s g. unfold hstep. destruct (_ <? _).
  - right. eexists. eexists. unfold total, stream. cbn [q applied].
    rewrite concat_app, chunks_concat. cbn [app]. rewrite app_assoc. reflexivity.
  - now left.
Qed.

Lemma faithful_step : forall fx lg s l, faithful lg s -> faithful lg (step fx lg s l).
Proof.
  intros fx lg s l F. destruct l as [g| |]; cbn [step].
  - destruct (total_hstep fx lg s g) as [E|[lo [hi E]]]; intros e H; rewrite E in H.
    + now apply F.
    + apply in_app_or in H. destruct H as [H|H].
      * now apply F.
      * unfold get_range in H. apply in_skipn in H. now apply in_firstn in H.
  - unfold wstep. destruct (q s) as [|c rest] eqn:Eq; [exact F|].
    intros e H. apply F. unfold total, stream in *. cbn [q applied] in H. rewrite Eq.
    rewrite concat_app in H. cbn [concat] in *. rewrite app_nil_r in H. now rewrite app_assoc.
  - intros e H. apply F. unfold total, stream, rstep in *. cbn [q applied concat] in H.
    rewrite app_nil_r in H. apply in_or_app. now left.
Qed.

Theorem applies_log_entries : forall fx lg ls e,
  In e (stream (run fx lg ls)) -> In e (indexed lg).
Proof.
  intros fx lg ls.
  assert (G : forall s, faithful lg s -> faithful lg (fold_left (step fx lg) ls s)).
  { induction ls as [|l ls IH]; intros s F; [exact F|]. cbn [fold_left]. apply IH. now apply faithful_step. }
  intros e H. apply (G st0).
  - intros x Hx. destruct Hx.
  - unfold total. apply in_or_app. now left.
Qed.

(* ---------- configuration entries: process_batch hands each one to the membership exactly once ---------- *)
Lemma config_idxs_app : forall a b, config_idxs (a ++ b) = config_idxs a ++ config_idxs b.
Proof. intros a b. unfold config_idxs. now rewrite filter_app, map_app. Qed.

Lemma cfgs_total_step : forall fx lg s l, l <> LRestart ->
  cfgs s = config_idxs (total s) -> cfgs (step fx lg s l) = config_idxs (total (step fx lg s l)).
Proof.
  intros fx lg s l Hl H. destruct l as [g| |]; cbn [step]; [| |contradiction].
  - unfold hstep. destruct (_ <? _).
    + unfold total, stream. cbn [q applied cfgs]. rewrite concat_app, chunks_concat. cbn [app].
      rewrite app_assoc, config_idxs_app. unfold total, stream in H. now rewrite H.
    + exact H.
  - unfold wstep. destruct (q s) as [|c rest] eqn:Eq; [exact H|].
    unfold total, stream in *. cbn [q applied cfgs]. rewrite H, Eq.
    rewrite concat_app. cbn [concat]. now rewrite app_nil_r, app_assoc.
Qed.

Theorem config_applied_once : forall lg ls, Forall (fun l => l <> LRestart) ls ->
  cfgs (run true lg ls) = config_idxs (firstn (length (total (run true lg ls))) (indexed lg)).
Proof.
  intros lg ls Hn.
  assert (G : forall s, cfgs s = config_idxs (total s) ->
                        cfgs (fold_left (step true lg) ls s) = config_idxs (total (fold_left (step true lg) ls s))).
  { induction Hn as [|l ls Hl Hls IH]; intros s H; [exact H|]. cbn [fold_left]. apply IH. now apply cfgs_total_step. }
  unfold run. rewrite (G st0 eq_refl).
  rewrite <- (inv_pref _ _ (Inv_run_fixed lg ls st0 (Inv_st0 lg))). reflexivity.
Qed.

(* ---------- witnesses ---------- *)
Definition w_log1 : log := [(1, KCmd (CPut 1 1 0)); (1, KCmd (CPut 2 2 0)); (1, KCmd (CPut 3 3 0)); (1, KCmd (CPut 4 4 0));
                            (1, KCmd (CPut 5 5 0)); (1, KCmd (CPut 6 6 0)); (1, KCmd (CPut 7 7 0))].
Definition w_sched1 : list label := [LCommit [5]; LCommit [7]; LApply; LApply].
Definition w_log2 : log := [(1, KCmd (CCas 1 (Some 1) 9)); (1, KCmd (CCas 1 None 1)); (1, KCmd (CPut 2 2 0))].
Definition w_sched2 : list label := [LCommit [2]; LCommit [3]; LApply; LApply].
Definition w_log3 : log := [(1, KCmd (CPut 1 1 0)); (1, KConfig); (1, KCmd (CPut 3 3 0)); (1, KConfig); (1, KCmd (CDel 1))].
Definition w_sched3 : list label := [LCommit [2]; LCommit [5]; LApply; LApply; LApply; LApply].

(* non-vacuity of exactly_once / config_applied_once: the racing schedules on the pipeline as coded *)
Example witness1 : map e_idx (stream (run true w_log1 w_sched1)) = [1; 2; 3; 4; 5; 6; 7].
Proof. vm_compute. reflexivity. Qed.
Example witness2 : kvstate (run true w_log2 w_sched2) = [(1, 1); (2, 2)] /\ la (run true w_log2 w_sched2) = 3.
Proof. vm_compute. split; reflexivity. Qed.
Example witness3 : cfgs (run true w_log3 w_sched3) = [2; 4] /\ map e_idx (stream (run true w_log3 w_sched3)) = [1; 2; 3; 4; 5].
Proof. vm_compute. split; reflexivity. Qed.
Example witness_restart :
  map e_idx (stream (run true w_log1 [LCommit [3]; LApply; LCommit [6]; LRestart; LCommit [6]; LApply])) = [1; 2; 3; 4; 5; 6].
Proof. vm_compute. reflexivity. Qed.

(* HISTORY: the same schedules before the fix (range from last_applied alone) *)
Theorem unrepaired_double_apply :
  map e_idx (stream (run false w_log1 w_sched1)) = [1; 2; 3; 4; 5; 1; 2; 3; 4; 5; 6; 7].
Proof. vm_compute. reflexivity. Qed.

Theorem unrepaired_state_diverges :
  forall n, kvstate (run false w_log2 w_sched2) <> kv_of (firstn n (indexed w_log2)).
Proof.
  intros n. destruct n as [|[|[|[|n]]]]; vm_compute; discriminate.
Qed.

Theorem unrepaired_config_applied_twice : cfgs (run false w_log3 w_sched3) = [2; 2; 4].
Proof. vm_compute. reflexivity. Qed.

Example unrepaired_serial_witness :
  serial w_log1 (run false w_log1 [LCommit [3]; LApply; LRestart; LCommit [6]; LApply])
  /\ map e_idx (stream (run false w_log1 [LCommit [3]; LApply; LRestart; LCommit [6]; LApply])) = [1; 2; 3; 4; 5; 6].
Proof.
  split; [|vm_compute; reflexivity].
  unfold run. cbn [fold_left].
  repeat (apply serialS; [| vm_compute; auto]). apply serial0.
Qed.
