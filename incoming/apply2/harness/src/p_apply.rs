//! probe `commit_apply` (C06): the real commit -> apply pipeline of one node on a current-thread runtime:
//!   DefaultCommitHandler::run (task)  +  StateMachineWorker::run (task)  +  DefaultStateMachineHandler
//!   over a real BufferedRaftLog (in-memory store) and a recording key-value state machine whose apply_chunk
//!   waits for a permit, so that the interleaving of "commit notification processed" and "chunk applied" is
//!   dictated by the case.
//! Input: [log, max_batch_size, [label..]]
//!   log entry = [term, kind, a, b, c]: kind 0 put(key a, value b, ttl c) | 1 delete(key a) | 2 cas(key a, expected b (0 = none,
//!               x+1 = Some x), new c) | 3 Noop entry | 4 Config entry          (entry i of the list has index i+1)
//!   label = [0, [commit index..]]  the notifications are put on the channel together, then the handler runs until idle
//!         | [1]                    the worker is allowed to finish the chunk it is holding (no-op when it holds none)
//!         | [2]                    crash + restart: both tasks are aborted, handler/worker/channels are rebuilt as
//!                                  node/builder.rs does (last_applied = StateMachine::last_applied().index)
//! Output: [[per label: last_applied, pending_range ([] | [lo,hi]), kv contents [[k,v]..]],
//!          [per apply_chunk call: [[index, term, cmd]..]],   cmd = [0,k,v,ttl] | [1,k] | [2,k,expected,v] | [3]
//!          [index of every Config entry the commit handler applied to the membership
//!           (Membership::apply_config_change + notify_config_applied(index)), in call order]]
use crate::sim::*;
use async_trait::async_trait;
use bytes::Bytes;
use d_engine_core::*;
use d_engine_proto::client::WriteCommand;
use d_engine_proto::common::entry_payload::Payload;
use d_engine_proto::common::{Entry, EntryPayload, LogId, MembershipChange, Noop};
use d_engine_proto::server::storage::SnapshotMetadata;
use prost::Message;
use serde_json::{json, Value};
use std::collections::BTreeMap;
use std::sync::atomic::{AtomicBool, AtomicU64, AtomicUsize, Ordering};
use std::sync::{Arc, Mutex};
use tokio::sync::{mpsc, watch, Semaphore};

#[derive(Debug)]
pub struct GateSM {
    running: AtomicBool,
    gate: Semaphore,
    entered: AtomicU64,
    done: AtomicU64,
    data: Mutex<BTreeMap<Vec<u8>, Bytes>>,
    calls: Mutex<Vec<Vec<ApplyEntry>>>,
    idx: AtomicU64,
    term: AtomicU64,
}

impl GateSM {
    fn new() -> Self {
        GateSM { running: AtomicBool::new(true), gate: Semaphore::new(0), entered: AtomicU64::new(0), done: AtomicU64::new(0), data: Mutex::new(BTreeMap::new()), calls: Mutex::new(vec![]), idx: AtomicU64::new(0), term: AtomicU64::new(0) }
    }
}

#[async_trait]
impl StateMachine for GateSM {
    async fn start(&self) -> Result<()> {
        self.running.store(true, Ordering::SeqCst);
        Ok(())
    }
    fn stop(&self) -> Result<()> {
        self.running.store(false, Ordering::SeqCst);
        Ok(())
    }
    fn is_running(&self) -> bool {
        self.running.load(Ordering::SeqCst)
    }
    fn get(&self, key_buffer: &[u8]) -> Result<Option<Bytes>> {
        Ok(self.data.lock().unwrap().get(key_buffer).cloned())
    }
    fn entry_term(&self, _entry_id: u64) -> Option<u64> {
        None
    }
    async fn apply_chunk(&self, chunk: &[ApplyEntry]) -> Result<Vec<ApplyResult>> {
        self.entered.fetch_add(1, Ordering::SeqCst);
        let permit = self.gate.acquire().await.expect("gate closed");
        permit.forget();
        let mut res = Vec::with_capacity(chunk.len());
        {
            let mut d = self.data.lock().unwrap();
            self.calls.lock().unwrap().push(chunk.to_vec());
            for e in chunk {
                let ok = match &e.command {
                    Command::Noop => true,
                    Command::Insert { key, value, .. } => {
                        d.insert(key.to_vec(), value.clone());
                        true
                    }
                    Command::Delete { key } => {
                        d.remove(key.as_ref());
                        true
                    }
                    Command::CompareAndSwap { key, expected, value } => {
                        let cur = d.get(key.as_ref()).cloned();
                        if cur == *expected {
                            d.insert(key.to_vec(), value.clone());
                            true
                        } else {
                            false
                        }
                    }
                };
                res.push(if ok { ApplyResult::success(e.index) } else { ApplyResult::failure(e.index) });
                self.idx.store(e.index, Ordering::SeqCst);
                self.term.store(e.term, Ordering::SeqCst);
            }
        }
        self.done.fetch_add(1, Ordering::SeqCst);
        Ok(res)
    }
    fn len(&self) -> usize {
        self.data.lock().unwrap().len()
    }
    fn update_last_applied(&self, last_applied: LogId) {
        self.idx.store(last_applied.index, Ordering::SeqCst);
        self.term.store(last_applied.term, Ordering::SeqCst);
    }
    fn last_applied(&self) -> LogId {
        LogId { index: self.idx.load(Ordering::SeqCst), term: self.term.load(Ordering::SeqCst) }
    }
    fn persist_last_applied(&self, _last_applied: LogId) -> Result<()> {
        Ok(())
    }
    fn update_last_snapshot_metadata(&self, _snapshot_metadata: &SnapshotMetadata) -> Result<()> {
        Ok(())
    }
    fn snapshot_metadata(&self) -> Option<SnapshotMetadata> {
        None
    }
    fn persist_last_snapshot_metadata(&self, _snapshot_metadata: &SnapshotMetadata) -> Result<()> {
        Ok(())
    }
    async fn apply_snapshot_from_file(&self, _metadata: &SnapshotMetadata, _snapshot_path: std::path::PathBuf) -> Result<()> {
        Ok(())
    }
    async fn generate_snapshot_data(&self, _new_snapshot_dir: std::path::PathBuf, _last_included: LogId) -> Result<Bytes> {
        Ok(Bytes::new())
    }
    fn save_hard_state(&self) -> Result<()> {
        Ok(())
    }
    fn flush(&self) -> Result<()> {
        Ok(())
    }
    async fn flush_async(&self) -> Result<()> {
        Ok(())
    }
    async fn reset(&self) -> Result<()> {
        self.data.lock().unwrap().clear();
        Ok(())
    }
}

#[derive(Debug)]
pub struct ApplyTC;
impl TypeConfig for ApplyTC {
    type SE = SimEngine;
    type SM = GateSM;
    type R = BufferedRaftLog<Self>;
    type M = MockMembership<Self>;
    type TR = MockTransport<Self>;
    type E = ElectionHandler<Self>;
    type REP = ReplicationHandler<Self>;
    type C = MockCommitHandler;
    type SMH = DefaultStateMachineHandler<Self>;
    type SNP = MockSnapshotPolicy;
    type PE = MockPurgeExecutor;
}

fn b1(x: u64) -> Bytes {
    Bytes::from(vec![x as u8])
}

fn entry_of(index: u64, e: &Value) -> Entry {
    let term = e[0].as_u64().unwrap();
    let a = e[2].as_u64().unwrap_or(0);
    let b = e[3].as_u64().unwrap_or(0);
    let c = e[4].as_u64().unwrap_or(0);
    let cmd = |wc: WriteCommand| Payload::Command(Bytes::from(wc.encode_to_vec()));
    let payload = match e[1].as_u64().unwrap() {
        0 => cmd(if c == 0 { WriteCommand::insert(b1(a), b1(b)) } else { WriteCommand::insert_with_ttl(b1(a), b1(b), c) }),
        1 => cmd(WriteCommand::delete(b1(a))),
        2 => cmd(WriteCommand::compare_and_swap(b1(a), if b == 0 { None } else { Some(b1(b - 1)) }, b1(c))),
        3 => Payload::Noop(Noop {}),
        _ => Payload::Config(MembershipChange { change: None }),
    };
    Entry { index, term, payload: Some(EntryPayload { payload: Some(payload) }) }
}

fn byte0(b: &[u8]) -> u64 {
    b.first().copied().unwrap_or(0) as u64
}

fn cmd_json(c: &Command) -> Value {
    match c {
        Command::Insert { key, value, ttl_secs } => json!([0, byte0(key), byte0(value), ttl_secs.unwrap_or(0)]),
        Command::Delete { key } => json!([1, byte0(key)]),
        Command::CompareAndSwap { key, expected, value } => json!([2, byte0(key), expected.as_ref().map(|e| byte0(e) + 1).unwrap_or(0), byte0(value)]),
        Command::Noop => json!([3]),
    }
}

struct Pipeline {
    handler: Arc<DefaultStateMachineHandler<ApplyTC>>,
    commit_tx: mpsc::UnboundedSender<NewCommitData>,
    ch: tokio::task::JoinHandle<()>,
    wk: tokio::task::JoinHandle<()>,
    _shutdown_tx: watch::Sender<()>,
    _ev_rx: mpsc::UnboundedReceiver<InternalEvent>,
}

fn build(log: &Arc<BufferedRaftLog<ApplyTC>>, sm: &Arc<GateSM>, max_batch: usize, cfg_calls: &Arc<Mutex<Vec<u64>>>) -> Pipeline {
    // as d-engine-server/src/node/builder.rs: the handler starts from the state machine's own last applied index
    let handler = Arc::new(DefaultStateMachineHandler::<ApplyTC>::new(
        1,
        sm.last_applied().index,
        sm.clone(),
        base_config().raft.snapshot.clone(),
        MockSnapshotPolicy::new(),
        None,
        Arc::new(AtomicUsize::new(0)),
    ));
    let mut mm = MockMembership::<ApplyTC>::new();
    mm.expect_apply_config_change().returning(|_| Ok(()));
    let cc = cfg_calls.clone();
    mm.expect_notify_config_applied().returning(move |i| cc.lock().unwrap().push(i));
    let (ev_tx, ev_rx) = mpsc::unbounded_channel::<InternalEvent>();
    let (sm_apply_tx, sm_apply_rx) = mpsc::unbounded_channel::<Vec<Entry>>();
    let (commit_tx, commit_rx) = mpsc::unbounded_channel::<NewCommitData>();
    let (shutdown_tx, shutdown_rx) = watch::channel(());
    let worker = StateMachineWorker::<ApplyTC>::new(1, handler.clone(), sm_apply_rx, ev_tx.clone(), shutdown_rx.clone());
    let deps = CommitHandlerDependencies::<ApplyTC> {
        state_machine_handler: handler.clone(),
        raft_log: log.clone(),
        membership: Arc::new(mm),
        internal_event_tx: ev_tx,
        sm_apply_tx,
        shutdown_signal: shutdown_rx,
        max_batch_size: max_batch,
    };
    let mut commit_handler = DefaultCommitHandler::<ApplyTC>::new(1, 2, 1, deps, commit_rx);
    let wk = tokio::spawn(async move {
        let _ = worker.run().await;
    });
    let ch = tokio::spawn(async move {
        let _ = commit_handler.run().await;
    });
    Pipeline { handler, commit_tx, ch, wk, _shutdown_tx: shutdown_tx, _ev_rx: ev_rx }
}

async fn settle() {
    for _ in 0..24 {
        tokio::task::yield_now().await;
    }
}

pub fn run(rt: &tokio::runtime::Runtime, case: Value) -> Value {
    let engine = Arc::new(SimEngine::default());
    let (log, rx) = BufferedRaftLog::<ApplyTC>::new(1, PersistenceConfig::default(), engine);
    let log = log.start(rx, None);
    let max_batch = case[1].as_u64().unwrap_or(1).max(1) as usize;
    let sm = Arc::new(GateSM::new());
    let mut steps = vec![];
    let cfg_calls: Arc<Mutex<Vec<u64>>> = Arc::new(Mutex::new(vec![]));
    rt.block_on(async {
        let es: Vec<Entry> = case[0].as_array().unwrap().iter().enumerate().map(|(i, e)| entry_of(i as u64 + 1, e)).collect();
        if !es.is_empty() {
            log.append_entries(es).await.unwrap();
        }
        let mut p = build(&log, &sm, max_batch, &cfg_calls);
        settle().await;
        for l in case[2].as_array().unwrap() {
            match l[0].as_u64().unwrap() {
                0 => {
                    for c in crate::ints(&l[1]) {
                        let _ = p.commit_tx.send(NewCommitData { new_commit_index: c, role: 2, current_term: 1 });
                    }
                    settle().await;
                }
                1 => {
                    let done = sm.done.load(Ordering::SeqCst);
                    if sm.entered.load(Ordering::SeqCst) > done {
                        sm.gate.add_permits(1);
                        let mut guard = 0;
                        while sm.done.load(Ordering::SeqCst) == done && guard < 10_000 {
                            tokio::task::yield_now().await;
                            guard += 1;
                        }
                    }
                    settle().await;
                }
                _ => {
                    p.ch.abort();
                    p.wk.abort();
                    let _ = (&mut p.ch).await;
                    let _ = (&mut p.wk).await;
                    // a chunk the aborted worker was holding was never applied
                    sm.entered.store(sm.done.load(Ordering::SeqCst), Ordering::SeqCst);
                    p = build(&log, &sm, max_batch, &cfg_calls);
                    settle().await;
                }
            }
            let range = match p.handler.pending_range() {
                Some(r) => json!([*r.start(), *r.end()]),
                None => json!([]),
            };
            let kv: Vec<Value> = sm.data.lock().unwrap().iter().map(|(k, v)| json!([byte0(k), byte0(v)])).collect();
            steps.push(json!([p.handler.last_applied(), range, kv]));
        }
        p.ch.abort();
        p.wk.abort();
        let _ = (&mut p.ch).await;
        let _ = (&mut p.wk).await;
    });
    rt.block_on(log.close());
    let calls: Vec<Value> = sm.calls.lock().unwrap().iter().map(|c| Value::Array(c.iter().map(|e| json!([e.index, e.term, cmd_json(&e.command)])).collect())).collect();
    let cfgs = cfg_calls.lock().unwrap().clone();
    json!([steps, calls, cfgs])
}
