(* generated from AR_logs.v for the PROPOSED system DE.AbstractRaftP (no change in the proofs) *)
(* AR_logsP — leader log = ghost leader log (T2a), term bounds and monotonicity (T2b), log matching (T2c). *)
From Coq Require Import NArith List Bool Lia ZifyBool ZifyN PeanoNat.
From DE Require Import AbstractRaftP.
From DE.proofs Require Import AR_electionP.
Import ListNotations.
Open Scope N_scope.

(* ------------------------------------------------------------------ *)
(* N-level <-> nat-level                                               *)
(* ------------------------------------------------------------------ *)
Lemma has_index_spec l i : has_index l i = true <-> 0 < i /\ i <= N.of_nat (length l).
Proof. unfold has_index. lia. Qed.

Lemma has_index_nth l i : has_index l i = true ->
  exists e, nth_error l (N.to_nat (i - 1)) = Some e /\ term_at l i = a_term e /\
            S (N.to_nat (i - 1)) = N.to_nat i.
Proof.
  intros H. apply has_index_spec in H. destruct H as [H0 H1].
  destruct (nth_error_lt_Some (N.to_nat (i - 1)) l) as [e He]; [lia|].
  exists e. split; [exact He|]. split; [|lia].
  unfold term_at. destruct (N.eqb_spec i 0); [lia|]. now rewrite He.
Qed.

Lemma nth_has_index l j e : nth_error l j = Some e ->
  has_index l (N.of_nat (S j)) = true /\ term_at l (N.of_nat (S j)) = a_term e.
Proof.
  intros H. pose proof (nth_error_Some_lt _ _ _ H). split.
  - apply has_index_spec. lia.
  - unfold term_at. destruct (N.eqb_spec (N.of_nat (S j)) 0); [lia|].
    replace (N.to_nat (N.of_nat (S j) - 1)) with j by lia. now rewrite H.
Qed.

Lemma In_firstn {A} (e : A) k l : In e (firstn k l) -> In e l.
Proof. intros H. rewrite <- (firstn_skipn k l). apply in_or_app. now left. Qed.

Lemma In_skipn {A} (e : A) k l : In e (skipn k l) -> In e l.
Proof. intros H. rewrite <- (firstn_skipn k l). apply in_or_app. now right. Qed.

Lemma In_slice e L prev k : In e (slice L prev k) -> In e L.
Proof. unfold slice. intros H. eapply In_skipn, In_firstn, H. Qed.

Lemma slice_nat L prev k : slice L prev k = firstn (N.to_nat k) (skipn (N.to_nat prev) L).
Proof. reflexivity. Qed.

Lemma prefix_le l L i k : prefix l i = prefix L i -> k <= i -> prefix l k = prefix L k.
Proof. unfold prefix. intros E H. eapply firstn_eq_le; [exact E|lia]. Qed.

Lemma prefix_len l L i : prefix l i = prefix L i -> i <= N.of_nat (length L) -> i <= N.of_nat (length l).
Proof. unfold prefix. intros E H. pose proof (firstn_eq_len _ _ _ E). lia. Qed.

(* ------------------------------------------------------------------ *)
(* "every entry of term t sits in the leader log of t at the same index, with the same prefix" *)
(* ------------------------------------------------------------------ *)
Definition glog (G : N -> list aentry) (l : list aentry) : Prop :=
  forall j e, nth_error l j = Some e -> firstn (S j) l = firstn (S j) (G (a_term e)).

Definition sorted (l : list aentry) : Prop :=
  forall j1 j2 e1 e2, (j1 <= j2)%nat -> nth_error l j1 = Some e1 -> nth_error l j2 = Some e2 ->
                      a_term e1 <= a_term e2.

Definition gext (G G' : N -> list aentry) : Prop := forall t, exists x, G' t = G t ++ x.

Lemma glog_nil G : glog G [].
Proof. intros [|j] e H; discriminate. Qed.

Lemma glog_ext G G' l : gext G G' -> glog G l -> glog G' l.
Proof.
  intros X H j e He. rewrite (H j e He). destruct (X (a_term e)) as [x ->].
  symmetry. apply firstn_app_le.
  pose proof (nth_error_Some_lt _ _ _ He).
  pose proof (f_equal (@length _) (H j e He)) as E. rewrite !firstn_length in E. lia.
Qed.

Lemma glog_lmc G l L : glog G l -> glog G L -> lmc l L.
Proof. intros Hl HL j x y Hx Hy E. rewrite (Hl j x Hx), (HL j y Hy), E. reflexivity. Qed.

Lemma glog_firstn G l p : glog G l -> glog G (firstn p l).
Proof.
  intros H j e He.
  assert (Hj : (j < p)%nat).
  { apply nth_error_Some_lt in He. rewrite firstn_length in He. lia. }
  rewrite nth_error_firstn_lt in He by exact Hj.
  rewrite firstn_le_firstn by lia. now apply H.
Qed.

Lemma glog_snoc G l e : glog G l -> G (a_term e) = l ++ [e] -> glog G (l ++ [e]).
Proof.
  intros H E j x Hx. destruct (Nat.lt_ge_cases j (length l)) as [Hj|Hj].
  - rewrite nth_error_app1 in Hx by exact Hj. rewrite firstn_app_le by lia. now apply H.
  - rewrite nth_error_app2 in Hx by exact Hj.
    destruct (j - length l)%nat as [|d] eqn:Ed; cbn in Hx; [|destruct d; discriminate].
    inversion Hx; subst x. now rewrite E.
Qed.

Lemma sorted_nil : sorted [].
Proof. intros [|j1] j2 e1 e2 _ H; discriminate. Qed.

Lemma sorted_firstn l p : sorted l -> sorted (firstn p l).
Proof.
  intros H j1 j2 e1 e2 Hle H1 H2.
  assert (Hj : (j2 < p)%nat).
  { apply nth_error_Some_lt in H2. rewrite firstn_length in H2. lia. }
  rewrite nth_error_firstn_lt in H1 by lia. rewrite nth_error_firstn_lt in H2 by lia. eauto.
Qed.

Lemma sorted_snoc l e : sorted l -> (forall x, In x l -> a_term x <= a_term e) -> sorted (l ++ [e]).
Proof.
  intros H Hb j1 j2 e1 e2 Hle H1 H2.
  destruct (Nat.lt_ge_cases j2 (length l)) as [Hj|Hj].
  - rewrite nth_error_app1 in H1 by lia. rewrite nth_error_app1 in H2 by lia. eauto.
  - rewrite nth_error_app2 in H2 by exact Hj.
    destruct (j2 - length l)%nat as [|d] eqn:Ed; cbn in H2; [|destruct d; discriminate].
    inversion H2; subst e2.
    destruct (Nat.lt_ge_cases j1 (length l)) as [Hj1|Hj1].
    + rewrite nth_error_app1 in H1 by lia. apply Hb. eapply nth_error_In; eauto.
    + rewrite nth_error_app2 in H1 by exact Hj1.
      destruct (j1 - length l)%nat as [|d'] eqn:Ed'; cbn in H1; [|destruct d'; discriminate].
      inversion H1; subst. lia.
Qed.

(* matching term at prev  ==>  matching prefix up to prev *)
Lemma term_at_match G l L prev : glog G l -> glog G L ->
  prev <= N.of_nat (length l) -> prev <= N.of_nat (length L) ->
  term_at l prev = term_at L prev -> prefix l prev = prefix L prev.
Proof.
  intros Hl HL H1 H2 E. unfold prefix.
  destruct (N.eqb_spec prev 0) as [->|Hz]; [reflexivity|].
  destruct (has_index_nth l prev) as (x & Hx & Tx & Sx); [apply has_index_spec; lia|].
  destruct (has_index_nth L prev) as (y & Hy & Ty & Sy); [apply has_index_spec; lia|].
  rewrite <- Sx. apply (glog_lmc G l L Hl HL _ x y Hx Hy). congruence.
Qed.

(* the follower step, N level *)
Lemma accept_dich G l L prev k : glog G l -> glog G L ->
  prev + k <= N.of_nat (length L) -> prev <= N.of_nat (length l) ->
  term_at l prev = term_at L prev ->
  (merge_from l (N.to_nat prev) (slice L prev k) = l /\ prefix l (prev + k) = prefix L (prev + k))
  \/ merge_from l (N.to_nat prev) (slice L prev k) = prefix L (prev + k).
Proof.
  intros Hl HL Hpk Hp E. unfold prefix. rewrite slice_nat, N2Nat.inj_add.
  apply merge_dich.
  - eapply glog_lmc; eauto.
  - apply (term_at_match G); auto. lia.
  - lia.
Qed.

Lemma accept_keeps l L prev k i : prev <= N.of_nat (length l) ->
  prefix l i = prefix L i -> prefix (merge_from l (N.to_nat prev) (slice L prev k)) i = prefix L i.
Proof. intros Hp E. unfold prefix. rewrite slice_nat. apply merge_keeps; [lia|exact E]. Qed.

Lemma accept_result G l L prev k : glog G l -> glog G L ->
  prev + k <= N.of_nat (length L) -> prev <= N.of_nat (length l) ->
  term_at l prev = term_at L prev ->
  prefix (merge_from l (N.to_nat prev) (slice L prev k)) (prev + k) = prefix L (prev + k).
Proof.
  intros Hl HL Hpk Hp E.
  destruct (accept_dich G l L prev k Hl HL Hpk Hp E) as [[-> H]| ->]; [exact H|].
  unfold prefix. now rewrite firstn_le_firstn.
Qed.

(* ------------------------------------------------------------------ *)
(* log invariants                                                      *)
(* ------------------------------------------------------------------ *)
Section Logs.
Variable nodes : list N.

Record linv (s : astate) : Prop := {
  l_llog_terms : forall t e, In e (g_llog s t) -> a_term e <= t;
  l_log_terms : forall n e, In e (a_log s n) -> a_term e <= a_cur s n;
  l_glog_log : forall n, glog (g_llog s) (a_log s n);
  l_glog_llog : forall t, glog (g_llog s) (g_llog s t);
  l_sorted_log : forall n, sorted (a_log s n);
  l_sorted_llog : forall t, sorted (g_llog s t)
}.

Lemma linv_init : linv ainit.
Proof.
  constructor; cbn; intros; try contradiction; auto using glog_nil, sorted_nil.
Qed.

(* ghost leader logs only grow; where a leader already exists, by entries of its own term *)
Lemma step_gext s s' : binv nodes s -> astep nodes s s' ->
  forall t', exists x, g_llog s' t' = g_llog s t' ++ x /\
     ((exists m, In (m,t') (g_leaders s)) -> forall e, In e x -> a_term e = t').
Proof.
  intros B H t'. step_cases H; try (exists []; rewrite app_nil_r; split; [reflexivity|intros _ ? []]).
  - unfold upd. destruct (N.eqb_spec t' (a_cur s0 n)) as [->|Hne].
    + exists (a_log s0 n). rewrite (b_llog_nil _ _ B _ Hnl). split; [reflexivity|].
      intros [m Hm]. exfalso. eapply Hnl; eauto.
    + exists []. rewrite app_nil_r. split; [reflexivity|intros _ ? []].
  - unfold upd. destruct (N.eqb_spec t' (a_cur s0 n)) as [->|Hne].
    + exists [{| a_term := a_cur s0 n; a_pl := pl |}]. rewrite (b_leader_log _ _ B _ Hl).
      split; [reflexivity|]. intros _ e [<-|[]]. reflexivity.
    + exists []. rewrite app_nil_r. split; [reflexivity|intros _ ? []].
Qed.

Lemma step_gext' s s' : binv nodes s -> astep nodes s s' -> gext (g_llog s) (g_llog s').
Proof. intros B H t. destruct (step_gext s s' B H t) as (x & E & _). eauto. Qed.

Lemma linv_step s s' : binv nodes s -> linv s -> astep nodes s s' -> linv s'.
Proof.
  intros B L H. pose proof (step_gext' s s' B H) as X. pose proof (cur_mono nodes s s' H) as CM.
  constructor.
  - (* llog_terms *)
    intros t' e Hin. step_cases H; upd_cases; eauto using l_llog_terms.
    + eapply l_log_terms; eauto.
    + rewrite (b_leader_log _ _ B _ Hl) in Hin. apply in_app_or in Hin. destruct Hin as [Hin|[<-|[]]].
      * eapply l_llog_terms; eauto.
      * cbn. lia.
  - (* log_terms *)
    intros n' e Hin. specialize (CM n').
    step_cases H; try (pose proof (l_log_terms _ L _ _ Hin); lia).
    + upd_cases; [|eapply l_log_terms; eauto].
      apply in_app_or in Hin. destruct Hin as [Hin|[<-|[]]]; [eapply l_log_terms; eauto|cbn; lia].
    + upd_cases; [|eapply l_log_terms; eauto].
      apply merge_In in Hin. destruct Hin as [Hin|Hin].
      * pose proof (l_log_terms _ L _ _ Hin). lia.
      * eapply l_llog_terms; eauto using In_slice.
  - (* glog_log *)
    intros n'. 
    assert (G0 : glog (g_llog s') (a_log s n')) by (eapply glog_ext; eauto using l_glog_log).
    step_cases H; try exact G0.
    + unfold upd at 2. destruct (N.eqb_spec n' n) as [->|Hne]; [|exact G0].
      apply glog_snoc; [exact G0|]. cbn [a_term]. unfold upd. now rewrite N.eqb_refl.
    + unfold upd. destruct (N.eqb_spec n' f) as [->|Hne]; [|exact G0].
      destruct (accept_dich (g_llog s0) (a_log s0 f) (g_llog s0 t) prev k) as [[-> _]| ->];
        eauto using l_glog_log, l_glog_llog.
      apply glog_firstn. apply l_glog_llog; auto.
  - (* glog_llog *)
    intros t'.
    assert (G0 : glog (g_llog s') (g_llog s t')) by (eapply glog_ext; eauto using l_glog_llog).
    step_cases H; try exact G0.
    + unfold upd at 2. destruct (N.eqb_spec t' (a_cur s0 n)) as [->|Hne]; [|exact G0].
      eapply glog_ext; eauto using l_glog_log.
    + unfold upd at 2. destruct (N.eqb_spec t' (a_cur s0 n)) as [->|Hne]; [|exact G0].
      apply glog_snoc.
      * eapply glog_ext; eauto using l_glog_log.
      * cbn [a_term]. unfold upd. now rewrite N.eqb_refl.
  - (* sorted_log *)
    intros n'. step_cases H; eauto using l_sorted_log.
    + unfold upd. destruct (N.eqb_spec n' n) as [->|Hne]; [|eauto using l_sorted_log].
      apply sorted_snoc; [eauto using l_sorted_log|]. cbn [a_term]. eauto using l_log_terms.
    + unfold upd. destruct (N.eqb_spec n' f) as [->|Hne]; [|eauto using l_sorted_log].
      destruct (accept_dich (g_llog s0) (a_log s0 f) (g_llog s0 t) prev k) as [[-> _]| ->];
        eauto using l_glog_log, l_glog_llog, l_sorted_log.
      apply sorted_firstn. eauto using l_sorted_llog.
  - (* sorted_llog *)
    intros t'. step_cases H; eauto using l_sorted_llog.
    + unfold upd. destruct (N.eqb_spec t' (a_cur s0 n)) as [->|Hne]; eauto using l_sorted_llog, l_sorted_log.
    + unfold upd. destruct (N.eqb_spec t' (a_cur s0 n)) as [->|Hne]; [|eauto using l_sorted_llog].
      apply sorted_snoc; [eauto using l_sorted_log|]. cbn [a_term]. eauto using l_log_terms.
Qed.

Lemma reach_linv s : reach nodes s -> linv s.
Proof.
  induction 1 as [|s s' R IH H]; [exact linv_init|].
  eapply linv_step; eauto using reach_binv.
Qed.

(* T2a *)
Theorem leader_log_is_llog : forall s, reach nodes s ->
  forall n, In (n, a_cur s n) (g_leaders s) -> a_log s n = g_llog s (a_cur s n).
Proof. intros s R. exact (b_leader_log _ _ (reach_binv _ s R)). Qed.

(* T2b *)
Definition nondecreasing (l : list aentry) : Prop :=
  forall i j, 0 < i -> i <= j -> j <= N.of_nat (length l) -> term_at l i <= term_at l j.

Lemma sorted_nondecreasing l : sorted l -> nondecreasing l.
Proof.
  intros S i j H0 Hij Hj.
  destruct (has_index_nth l i) as (x & Hx & Tx & _); [apply has_index_spec; lia|].
  destruct (has_index_nth l j) as (y & Hy & Ty & _); [apply has_index_spec; lia|].
  rewrite Tx, Ty. refine (S _ _ _ _ _ Hx Hy). lia.
Qed.

Theorem llog_terms : forall s, reach nodes s ->
  (forall t e, In e (g_llog s t) -> a_term e <= t) /\
  (forall n e, In e (a_log s n) -> a_term e <= a_cur s n) /\
  (forall t, nondecreasing (g_llog s t)) /\
  (forall n, nondecreasing (a_log s n)).
Proof.
  intros s R. pose proof (reach_linv s R) as L.
  repeat split; eauto using l_llog_terms, l_log_terms, sorted_nondecreasing, l_sorted_llog, l_sorted_log.
Qed.

(* log matching for any two lists that satisfy glog *)
Lemma glog_matching G l1 l2 i : glog G l1 -> glog G l2 ->
  has_index l1 i = true -> has_index l2 i = true -> term_at l1 i = term_at l2 i ->
  prefix l1 i = prefix l2 i.
Proof.
  intros G1 G2 H1 H2 E. apply has_index_spec in H1, H2.
  apply (term_at_match G); auto; lia.
Qed.

(* every entry of term t, anywhere, is the entry of the leader log of t at that index *)
Theorem entry_from_leader_log : forall s, reach nodes s -> forall n i,
  has_index (a_log s n) i = true ->
  i <= N.of_nat (length (g_llog s (term_at (a_log s n) i))) /\
  prefix (a_log s n) i = prefix (g_llog s (term_at (a_log s n) i)) i.
Proof.
  intros s R n i H. pose proof (reach_linv s R) as L.
  destruct (has_index_nth _ _ H) as (e & He & Te & Se).
  pose proof (l_glog_log _ L n _ _ He) as E. rewrite Se in E. rewrite Te.
  split; [|exact E].
  apply has_index_spec in H. pose proof (firstn_eq_len _ _ _ (eq_sym E)). lia.
Qed.

(* T2c *)
Theorem log_matching : forall s, reach nodes s -> forall n m i,
  has_index (a_log s n) i = true -> has_index (a_log s m) i = true ->
  term_at (a_log s n) i = term_at (a_log s m) i -> prefix (a_log s n) i = prefix (a_log s m) i.
Proof.
  intros s R n m i. pose proof (reach_linv s R) as L.
  apply (glog_matching (g_llog s)); eauto using l_glog_log.
Qed.

Theorem log_matching_llog : forall s, reach nodes s -> forall n t i,
  has_index (a_log s n) i = true -> has_index (g_llog s t) i = true ->
  term_at (a_log s n) i = term_at (g_llog s t) i -> prefix (a_log s n) i = prefix (g_llog s t) i.
Proof.
  intros s R n t i. pose proof (reach_linv s R) as L.
  apply (glog_matching (g_llog s)); eauto using l_glog_log, l_glog_llog.
Qed.

Theorem log_matching_llog2 : forall s, reach nodes s -> forall t1 t2 i,
  has_index (g_llog s t1) i = true -> has_index (g_llog s t2) i = true ->
  term_at (g_llog s t1) i = term_at (g_llog s t2) i -> prefix (g_llog s t1) i = prefix (g_llog s t2) i.
Proof.
  intros s R t1 t2 i. pose proof (reach_linv s R) as L.
  apply (glog_matching (g_llog s)); eauto using l_glog_llog.
Qed.

End Logs.

Print Assumptions leader_log_is_llog.
Print Assumptions llog_terms.
Print Assumptions log_matching.
Print Assumptions log_matching_llog.
Print Assumptions log_matching_llog2.
