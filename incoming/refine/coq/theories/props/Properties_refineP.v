(* Pinned statements for the PROPOSED generalisation DE.AbstractRaftP (block `refine`): the safety theorems of
   DE.AbstractRaft re-proved for it, and the soundness of its executable steps. Nothing else lives here. *)
From Coq Require Import NArith List.
From DE Require Import Val AbstractRaftP ARExecP proofs.ARExecPSound
  proofs.AR_electionP proofs.AR_logsP proofs.AR_completeP proofs.AR_smsP.
Import ListNotations.
Open Scope N_scope.

Theorem RefineP_exec_sound : forall nodes s l s', aexec nodes s l = Some s' -> astep nodes s s'.
Proof. exact aexec_sound. Qed.
Print Assumptions RefineP_exec_sound.

Theorem RefineP_trace_reaches : forall nodes ls s, aexec_all nodes ainit ls = Some s -> reach nodes s.
Proof. exact aexec_all_sound. Qed.
Print Assumptions RefineP_trace_reaches.

Theorem RefineP_election_safety : forall nodes s, reach nodes s ->
  forall a b t, In (a, t) (g_leaders s) -> In (b, t) (g_leaders s) -> a = b.
Proof. exact election_safety. Qed.
Print Assumptions RefineP_election_safety.

Theorem RefineP_log_matching : forall nodes s, reach nodes s -> forall n m i,
  has_index (a_log s n) i = true -> has_index (a_log s m) i = true ->
  term_at (a_log s n) i = term_at (a_log s m) i -> prefix (a_log s n) i = prefix (a_log s m) i.
Proof. exact log_matching. Qed.
Print Assumptions RefineP_log_matching.

Theorem RefineP_leader_completeness : forall nodes s, reach nodes s ->
  forall t t' l', t < t' -> In (l', t') (g_leaders s) ->
  forall i, i <= g_lcommit s t -> i <= N.of_nat (length (g_llog s t)) ->
  prefix (g_llog s t') i = prefix (g_llog s t) i.
Proof. exact leader_completeness. Qed.
Print Assumptions RefineP_leader_completeness.

Theorem RefineP_commit_within_log : forall nodes s, reach nodes s ->
  forall n, a_commit s n <= N.of_nat (length (a_log s n)).
Proof. exact commit_within_log. Qed.
Print Assumptions RefineP_commit_within_log.

Theorem RefineP_committed_agree : forall nodes s, reach nodes s -> forall n m i,
  0 < i -> i <= a_commit s n -> i <= a_commit s m ->
  nth_error (a_log s n) (N.to_nat (i - 1)) = nth_error (a_log s m) (N.to_nat (i - 1)).
Proof. exact committed_agree. Qed.
Print Assumptions RefineP_committed_agree.

Theorem RefineP_follower_commit_matches_leader : forall nodes s, reach nodes s -> forall l t f,
  In (l, t) (g_leaders s) -> a_cur s f = t ->
  forall i, i <= a_commit s f -> prefix (a_log s f) i = prefix (g_llog s t) i.
Proof. exact follower_commit_matches_leader. Qed.
Print Assumptions RefineP_follower_commit_matches_leader.
