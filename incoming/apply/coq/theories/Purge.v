(* Purge — executable model of log compaction as coded:
     LeaderState::{can_purge_logs, scheduled_purge_upto, handle_snapshot_created, handle_log_purge_completed}   (raft_role/leader_state.rs)
     FollowerState::{can_purge_logs, handle_snapshot_created}                                                   (raft_role/follower_state.rs)
     DefaultPurgeExecutor::execute_purge                                                                        (purge/default_executor.rs)
     BufferedRaftLog::{purge_logs_up_to, first_entry_id, entry_term} and its reopening (load_purge_boundary)    (storage/buffered_raft_log.rs)
     ReplicationHandler::prepare_batch_requests routing (snapshot target vs AppendEntries) + build_append_request prev term
   No proofs here. *)
From Coq Require Import NArith List Bool.
From DE Require Import Val.
Import ListNotations.
Open Scope N_scope.

(* ---------- part A: when does a role purge ---------- *)
(* the log as an interval: first index (0 = empty), last index (0 = empty), purge boundary (0 = none) *)
Record plog := { pf : N; pl : N; pb : N }.

(* BufferedRaftLog::purge_logs_up_to(cutoff): remove_range(0..=cutoff), min/max from what is left, boundary := cutoff *)
Definition purge_log (g : plog) (p : N) : plog :=
  if pl g =? 0 then {| pf := 0; pl := 0; pb := p |}
  else if p <? pf g then {| pf := pf g; pl := pl g; pb := p |}
  else if pl g <=? p then {| pf := 0; pl := 0; pb := p |}
  else {| pf := p + 1; pl := pl g; pb := p |}.

(* n entries appended at [start] (the caller appends above everything that ever existed) *)
Definition append_log (g : plog) (start n : N) : plog :=
  if n =? 0 then g
  else if pl g =? 0 then {| pf := start; pl := start + n - 1; pb := pb g |}
  else {| pf := pf g; pl := start + n - 1; pb := pb g |}.

(* a purge up to p that changes nothing: boundary already p, no entry at or below p *)
Definition stableb (g : plog) (p : N) : bool := (pb g =? p) && ((pl g =? 0) || (p <? pf g)).

Record purge_rec := { pg_p : N; pg_commit : N; pg_noop : bool }.

Record rstate := {
  r_leader : bool;
  r_commit : N;
  r_purged : option N;          (* role.last_purged_index (index part) *)
  r_sched : option N;           (* LeaderState.scheduled_purge_upto (index part) *)
  r_log : plog;
  r_nx : N;                     (* next index the writer uses *)
  r_snaps : list N;             (* last_included of every snapshot this node has created *)
  r_purges : list purge_rec     (* every execute_purge call: cutoff, commit index at that moment, whether it changed nothing *)
}.

Definition rinit (leader : bool) (n0 : N) : rstate :=
  {| r_leader := leader; r_commit := 0; r_purged := None; r_sched := None;
     r_log := append_log {| pf := 0; pl := 0; pb := 0 |} 1 n0; r_nx := n0 + 1; r_snaps := []; r_purges := [] |}.

(* can_purge_logs (same body in LeaderState and FollowerState) *)
Definition can_purge (commit : N) (purged : option N) (li : N) : bool :=
  (li <? commit) && match purged with Some x => x <? li | None => true end.

Inductive pevent := PCommit (c : N) | PAppend (n : N) | PSnap (li : N).

Definition exec_purge (s : rstate) (p : N) (purged' : option N) (sched' : option N) (snaps' : list N) : rstate :=
  {| r_leader := r_leader s; r_commit := r_commit s; r_purged := purged'; r_sched := sched';
     r_log := purge_log (r_log s) p; r_nx := r_nx s; r_snaps := snaps';
     r_purges := r_purges s ++ [{| pg_p := p; pg_commit := r_commit s; pg_noop := stableb (r_log s) p |}] |}.

Definition pstep (s : rstate) (e : pevent) : rstate :=
  match e with
  | PCommit c =>
      (* LeaderState overrides update_commit_index: only forward; the default (follower) stores what it is given *)
      {| r_leader := r_leader s; r_commit := (if r_leader s then N.max (r_commit s) c else c); r_purged := r_purged s;
         r_sched := r_sched s; r_log := r_log s; r_nx := r_nx s; r_snaps := r_snaps s; r_purges := r_purges s |}
  | PAppend n =>
      let start := N.max (r_nx s) (pb (r_log s) + 1) in
      if n =? 0 then s else
      {| r_leader := r_leader s; r_commit := r_commit s; r_purged := r_purged s; r_sched := r_sched s;
         r_log := append_log (r_log s) start n; r_nx := start + n; r_snaps := r_snaps s; r_purges := r_purges s |}
  | PSnap li =>
      let can := can_purge (r_commit s) (r_purged s) li in
      let snaps' := li :: r_snaps s in
      if r_leader s then
        (* phase 1: scheduled_purge_upto only moves forward; phase 2: execute whatever is scheduled; then LogPurgeCompleted *)
        let sched' := if can then match r_sched s with
                                  | Some e0 => if li <=? e0 then Some e0 else Some li
                                  | None => Some li
                                  end
                      else r_sched s in
        match sched' with
        | Some x =>
            let purged' := match r_purged s with
                           | None => Some x
                           | Some c => if c <? x then Some x else Some c
                           end in
            exec_purge s x purged' sched' snaps'
        | None =>
            {| r_leader := r_leader s; r_commit := r_commit s; r_purged := r_purged s; r_sched := None; r_log := r_log s;
               r_nx := r_nx s; r_snaps := snaps'; r_purges := r_purges s |}
        end
      else if can then exec_purge s li (Some li) (r_sched s) snaps'
      else {| r_leader := r_leader s; r_commit := r_commit s; r_purged := r_purged s; r_sched := r_sched s; r_log := r_log s;
              r_nx := r_nx s; r_snaps := snaps'; r_purges := r_purges s |}
  end.

Definition prun (leader : bool) (n0 : N) (es : list pevent) : rstate := fold_left pstep es (rinit leader n0).

(* ---------- part B: what a leader serves across the purge boundary ---------- *)
Definition term_at (ts : list N) (i : N) : option N :=
  if i =? 0 then None else nth_error ts (N.to_nat (i - 1)).

(* the leader's view of its log: entries v_first..v_last with the terms of [v_ts] (absolute positions), boundary id *)
Record lview := { v_ts : list N; v_first : N; v_last : N; v_bidx : N; v_bterm : N }.

(* log with terms ts (entry i has term nth (i-1)), purged up to p; [persist] = the store keeps the boundary id over a restart *)
Definition view (ts : list N) (p : N) (persist : bool) : lview :=
  let len := N.of_nat (length ts) in
  let gone := (len <=? p) in
  {| v_ts := ts;
     v_first := if p =? 0 then (if len =? 0 then 0 else 1) else if gone then 0 else p + 1;
     v_last := if gone then 0 else len;
     v_bidx := if persist then p else 0;
     v_bterm := if persist then (if p =? 0 then 0 else match term_at ts p with Some t => t | None => 1 end) else 0 |}.

(* BufferedRaftLog::entry_term *)
Definition entry_term (v : lview) (i : N) : option N :=
  if (v_last v =? 0) || (i <? v_first v) || (v_last v <? i) then
    (if (0 <? v_bidx v) && (i =? v_bidx v) then Some (v_bterm v) else None)
  else term_at (v_ts v) i.

Inductive route := RSnap | RApp (prev pterm : N) (ents : list N).

Fixpoint upto (from : N) (n : nat) : list N :=
  match n with O => [] | S n' => from :: upto (from + 1) n' end.

(* prepare_batch_requests for one peer with the given next index (no new entries, cap not reached) *)
Definition route_of (v : lview) (next : N) : route :=
  if (1 <? v_first v) && (next <? v_first v) then RSnap
  else
    let prev := next - 1 in
    let pt := match entry_term v prev with Some t => t | None => 0 end in
    RApp prev pt (if next <=? v_last v then upto next (N.to_nat (v_last v + 1 - next)) else []).

(* a peer is served: by snapshot when the leader still knows a snapshot, by log when the request carries the true
   term of prev_log_index *)
Definition served (ts : list N) (meta : bool) (r : route) : Prop :=
  match r with
  | RSnap => meta = true
  | RApp prev pt _ => Some pt = term_at ts prev
  end.

(* ---------- val glue ---------- *)
Definition pevent_of_val (v : val) : pevent :=
  let k := vn (vnth v 0) in
  if k =? 0 then PCommit (vn (vnth v 1)) else if k =? 1 then PAppend (vn (vnth v 1)) else PSnap (vn (vnth v 1)).

Definition robserve (s : rstate) : val :=
  VL [VN (pf (r_log s)); VN (pl (r_log s)); VN (pb (r_log s)); vopt (r_purged s);
      (if r_leader s then vopt (r_sched s) else VL []); VN (r_commit s)].

(* input [role, n0, [event..]] *)
Definition purge_role_probe (v : val) : val :=
  let s0 := rinit (vn (vnth v 0) =? 0) (vn (vnth v 1)) in
  VL (snd (fold_left (fun acc ev => let s' := pstep (fst acc) (pevent_of_val ev) in (s', snd acc ++ [robserve s']))
                     (vl (vnth v 2)) (s0, []))).

Definition val_of_route (r : route) : val :=
  match r with
  | RSnap => VL [VN 0]
  | RApp prev pt es => VL [VN 1; VN prev; VN pt; vns es]
  end.

(* which engine keeps what over a restart: 0 in-memory store (object survives), 1 file, 2 rocksdb *)
Definition engine_persists_boundary (engine : N) : bool := negb (engine =? 1).
Definition engine_persists_meta (engine : N) : bool := negb (engine =? 1).

(* input [engine, terms, p, restart, [next..]] *)
Definition purge_route_probe (v : val) : val :=
  let engine := vn (vnth v 0) in
  let ts := vnl (vnth v 1) in
  let p := vn (vnth v 2) in
  let restart := negb (vn (vnth v 3) =? 0) in
  let vw := view ts p (if restart then engine_persists_boundary engine else true) in
  let meta := if p =? 0 then false else if restart then engine_persists_meta engine else true in
  VL [VN (v_first vw); VN (v_last vw); vopt (entry_term vw p); vb meta;
      VL (map (fun n => val_of_route (route_of vw (vn n))) (vl (vnth v 4)))].
