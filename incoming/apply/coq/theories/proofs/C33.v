(* C33 — log compaction never discards needed entries, on the model DE.Purge. *)
From Coq Require Import Arith NArith List Bool Lia.
From DE Require Import Val Purge.
Import ListNotations.
Open Scope N_scope.

(* ---------- part A: every purge is below the commit index (or removes nothing) and at a snapshot the node created ---------- *)
Definition purge_ok (snaps : list N) (x : purge_rec) : Prop :=
  In (pg_p x) snaps /\ (pg_p x < pg_commit x \/ pg_noop x = true).

Lemma stable_after_purge : forall g p, stableb (purge_log g p) p = true.
Proof.
  intros g p. unfold purge_log, stableb.
  destruct (N.eqb_spec (pl g) 0) as [E|E]; cbn [pf pl pb].
  - rewrite N.eqb_refl. reflexivity.
  - destruct (N.ltb_spec p (pf g)) as [L|L]; cbn [pf pl pb].
    + rewrite N.eqb_refl. cbn [andb]. apply orb_true_iff. right. now apply N.ltb_lt.
    + destruct (N.leb_spec (pl g) p) as [M|M]; cbn [pf pl pb].
      * rewrite N.eqb_refl. reflexivity.
      * rewrite N.eqb_refl. cbn [andb]. apply orb_true_iff. right. apply N.ltb_lt. lia.
Qed.

Lemma stable_append : forall g x start n,
  stableb g x = true -> pb g + 1 <= start -> stableb (append_log g start n) x = true.
Proof.
  intros g x start n H Hs. unfold stableb in *. apply andb_true_iff in H. destruct H as [Hb Hr].
  apply N.eqb_eq in Hb. unfold append_log.
  destruct (N.eqb_spec n 0) as [En|En].
  - apply andb_true_iff. split; [now apply N.eqb_eq | exact Hr].
  - destruct (N.eqb_spec (pl g) 0) as [E|E]; cbn [pf pl pb].
    + apply andb_true_iff. split; [now apply N.eqb_eq|]. apply orb_true_iff. right. apply N.ltb_lt. lia.
    + apply andb_true_iff. split; [now apply N.eqb_eq|]. apply orb_true_iff. right.
      apply orb_true_iff in Hr. destruct Hr as [Hr|Hr]; [discriminate Hr | exact Hr].
Qed.

Lemma purge_ok_mono : forall snaps li l, Forall (purge_ok snaps) l -> Forall (purge_ok (li :: snaps)) l.
Proof.
  intros snaps li l H. induction H as [|x l Hx Hl IH]; constructor; [|exact IH].
  destruct Hx as [Hi Hc]. split; [now right | exact Hc].
Qed.

Definition PInv (s : rstate) : Prop :=
  Forall (purge_ok (r_snaps s)) (r_purges s)
  /\ (forall x, r_sched s = Some x -> In x (r_snaps s) /\ stableb (r_log s) x = true)
  /\ (r_leader s = false -> r_sched s = None).

Lemma PInv_init : forall leader n0, PInv (rinit leader n0).
Proof. intros. split; [constructor|]. split; [intros x H; discriminate H | reflexivity]. Qed.

(* executing a purge that is justified keeps the invariant *)
Lemma PInv_exec : forall s p purged' sched' li,
  PInv s ->
  (p = li \/ In p (r_snaps s)) ->
  (p < r_commit s \/ stableb (r_log s) p = true) ->
  (forall x, sched' = Some x -> x = p) ->
  (r_leader s = false -> sched' = None) ->
  PInv (exec_purge s p purged' sched' (li :: r_snaps s)).
Proof.
  intros s p purged' sched' li [HF [HS HL]] Hin Hok Hsc Hl. unfold exec_purge.
  split; [|split]; cbn [r_purges r_snaps r_sched r_log r_leader].
  - apply Forall_app. split.
    + now apply purge_ok_mono.
    + constructor; [|constructor]. split; cbn [pg_p pg_commit pg_noop].
      * destruct Hin as [Hin|Hin]; [left; now symmetry | now right].
      * exact Hok.
  - intros x Hx. apply Hsc in Hx. subst x. split.
    + destruct Hin as [Hin|Hin]; [left; now symmetry | now right].
    + apply stable_after_purge.
  - exact Hl.
Qed.

Lemma PInv_step : forall s e, PInv s -> PInv (pstep s e).
Proof.
  intros s e I. pose proof I as [HF [HS HL]].
  destruct e as [c|n|li]; cbn [pstep].
  - split; [exact HF|]. split; [exact HS | exact HL].
  - destruct (N.eqb_spec n 0) as [En|En]; [exact I|].
    split; [exact HF|]. split; cbn [r_sched r_snaps r_log r_leader]; [|exact HL].
    intros x Hx. destruct (HS x Hx) as [Hi Hst]. split; [exact Hi|]. apply stable_append; [exact Hst | lia].
  - destruct (r_leader s) eqn:Ld.
    + (* leader *)
      destruct (can_purge (r_commit s) (r_purged s) li) eqn:Can.
      * assert (Hlt : li < r_commit s).
        { unfold can_purge in Can. apply andb_true_iff in Can. destruct Can as [Can _]. now apply N.ltb_lt in Can. }
        destruct (r_sched s) as [e0|] eqn:Es.
        -- destruct (N.leb_spec li e0) as [Le|Le].
           ++ destruct (HS e0 eq_refl) as [Hi Hst].
              apply PInv_exec; auto.
              ** intros x Hx. now inversion Hx.
              ** intros Hf. rewrite Ld in Hf. discriminate Hf.
           ++ apply PInv_exec; auto.
              ** intros x Hx. now inversion Hx.
              ** intros Hf. rewrite Ld in Hf. discriminate Hf.
        -- apply PInv_exec; auto.
           ++ intros x Hx. now inversion Hx.
           ++ intros Hf. rewrite Ld in Hf. discriminate Hf.
      * destruct (r_sched s) as [e0|] eqn:Es.
        -- destruct (HS e0 eq_refl) as [Hi Hst].
           apply PInv_exec; auto.
           ++ intros x Hx. now inversion Hx.
           ++ intros Hf. rewrite Ld in Hf. discriminate Hf.
        -- split; cbn [r_purges r_snaps r_sched r_log r_leader]; [now apply purge_ok_mono|].
           split; [intros x Hx; discriminate Hx | reflexivity].
    + (* follower *)
      pose proof (HL eq_refl) as Hn.
      destruct (can_purge (r_commit s) (r_purged s) li) eqn:Can.
      * assert (Hlt : li < r_commit s).
        { unfold can_purge in Can. apply andb_true_iff in Can. destruct Can as [Can _]. now apply N.ltb_lt in Can. }
        apply PInv_exec; auto.
        intros x Hx. rewrite Hn in Hx. discriminate Hx.
      * split; cbn [r_purges r_snaps r_sched r_log r_leader]; [now apply purge_ok_mono|].
        split; [|exact HL]. intros x Hx. rewrite Hn in Hx. discriminate Hx.
Qed.

Lemma PInv_run : forall es s, PInv s -> PInv (fold_left pstep es s).
Proof. induction es as [|e es IH]; intros s I; [exact I|]. cbn [fold_left]. apply IH. now apply PInv_step. Qed.

Theorem purge_safe : forall leader n0 es,
  Forall (fun x => In (pg_p x) (r_snaps (prun leader n0 es)) /\ (pg_p x < pg_commit x \/ pg_noop x = true))
         (r_purges (prun leader n0 es)).
Proof. intros. unfold prun. exact (proj1 (PInv_run es _ (PInv_init leader n0))). Qed.

(* what "removes nothing" means: same entries, same boundary *)
Theorem noop_purge_keeps_entries : forall g p, stableb g p = true ->
  pl (purge_log g p) = pl g /\ pb (purge_log g p) = pb g /\ (pl g <> 0 -> pf (purge_log g p) = pf g).
Proof.
  intros g p H. unfold stableb in H. apply andb_true_iff in H. destruct H as [Hb Hr]. apply N.eqb_eq in Hb.
  unfold purge_log. destruct (N.eqb_spec (pl g) 0) as [E|E]; cbn [pf pl pb].
  - split; [now symmetry|]. split; [now symmetry | intros C; contradiction].
  - apply orb_true_iff in Hr. destruct Hr as [Hr|Hr]; [discriminate Hr|].
    rewrite Hr. cbn [pf pl pb]. split; [reflexivity|]. split; [now symmetry | reflexivity].
Qed.

(* non-vacuity: a leader purges, re-executes the scheduled purge, and purges again *)
Example purge_safe_witness :
  map (fun x => (pg_p x, pg_commit x, pg_noop x))
      (r_purges (prun true 10 [PCommit 8; PSnap 5; PSnap 3; PAppend 3; PCommit 12; PSnap 7]))
  = [(5, 8, false); (5, 8, true); (7, 12, false)]
  /\ pf (r_log (prun true 10 [PCommit 8; PSnap 5; PSnap 3; PAppend 3; PCommit 12; PSnap 7])) = 8.
Proof. vm_compute. split; reflexivity. Qed.
Example purge_refused_witness :   (* last_included = commit index: refused *)
  r_purges (prun false 10 [PCommit 5; PSnap 5]) = [] /\ r_purges (prun true 10 [PCommit 5; PSnap 5]) = [].
Proof. vm_compute. split; reflexivity. Qed.

(* ---------- part B: routing across the purge boundary ---------- *)
Lemma term_at_some : forall ts i, 0 < i -> i <= N.of_nat (length ts) -> exists t, term_at ts i = Some t.
Proof.
  intros ts i H1 H2. unfold term_at. destruct (N.eqb_spec i 0) as [E|E]; [lia|].
  destruct (nth_error ts (N.to_nat (i - 1))) as [t|] eqn:En; [now exists t|].
  apply nth_error_None in En. lia.
Qed.

Section Routing.
  Variable ts : list N.
  Variable p : N.
  Hypothesis Hp0 : 0 < p.
  Hypothesis Hplen : p < N.of_nat (length ts).

  Lemma view_first : forall b, v_first (view ts p b) = p + 1.
  Proof.
    intros b. unfold view. cbn [v_first].
    destruct (N.eqb_spec p 0) as [E|E]; [lia|]. destruct (N.leb_spec (N.of_nat (length ts)) p) as [L|L]; [lia|reflexivity].
  Qed.
  Lemma view_last : forall b, v_last (view ts p b) = N.of_nat (length ts).
  Proof.
    intros b. unfold view. cbn [v_last]. destruct (N.leb_spec (N.of_nat (length ts)) p) as [L|L]; [lia|reflexivity].
  Qed.

  Lemma route_below : forall b next, next <= p -> route_of (view ts p b) next = RSnap.
  Proof.
    intros b next Hn. unfold route_of. rewrite view_first.
    assert (H1 : (1 <? p + 1) = true) by (apply N.ltb_lt; lia).
    assert (H2 : (next <? p + 1) = true) by (apply N.ltb_lt; lia).
    now rewrite H1, H2.
  Qed.

  Lemma route_above_shape : forall b next, p < next ->
    exists es, route_of (view ts p b) next =
               RApp (next - 1) (match entry_term (view ts p b) (next - 1) with Some t => t | None => 0 end) es.
  Proof.
    intros b next Hn. unfold route_of. rewrite view_first.
    assert (H2 : (next <? p + 1) = false) by (apply N.ltb_ge; lia).
    rewrite H2, andb_false_r. eexists. reflexivity.
  Qed.

  Lemma entry_term_boundary_persist : entry_term (view ts p true) p = term_at ts p.
  Proof.
    unfold entry_term. rewrite view_first, view_last.
    assert (H1 : (p <? p + 1) = true) by (apply N.ltb_lt; lia).
    rewrite H1, orb_true_r. cbn [orb]. unfold view. cbn [v_bidx v_bterm].
    assert (H3 : (0 <? p) = true) by (now apply N.ltb_lt).
    rewrite H3, N.eqb_refl. cbn [andb].
    destruct (N.eqb_spec p 0) as [E|E]; [lia|].
    destruct (term_at_some ts p Hp0 ltac:(lia)) as [t Ht]. now rewrite Ht.
  Qed.

  Lemma entry_term_boundary_lost : entry_term (view ts p false) p = None.
  Proof.
    unfold entry_term. rewrite view_first, view_last.
    assert (H1 : (p <? p + 1) = true) by (apply N.ltb_lt; lia).
    rewrite H1, orb_true_r. cbn [orb]. unfold view. cbn [v_bidx v_bterm]. reflexivity.
  Qed.

  Lemma entry_term_inside : forall b i, p < i -> i <= N.of_nat (length ts) -> entry_term (view ts p b) i = term_at ts i.
  Proof.
    intros b i H1 H2. unfold entry_term. rewrite view_first, view_last.
    assert (A : (N.of_nat (length ts) =? 0) = false) by (apply N.eqb_neq; lia).
    assert (B : (i <? p + 1) = false) by (apply N.ltb_ge; lia).
    assert (C : (N.of_nat (length ts) <? i) = false) by (apply N.ltb_ge; lia).
    rewrite A, B, C. reflexivity.
  Qed.

  Theorem routing_across_boundary : forall next,
    1 <= next -> next <= N.of_nat (length ts) + 1 ->
    served ts true (route_of (view ts p true) next).
  Proof.
    intros next H1 H2. destruct (N.le_gt_cases next p) as [Le|Gt].
    - rewrite route_below by exact Le. reflexivity.
    - destruct (route_above_shape true next Gt) as [es Hr]. rewrite Hr. cbn [served].
      destruct (N.eq_dec (next - 1) p) as [E|E].
      + rewrite E, entry_term_boundary_persist.
        destruct (term_at_some ts p Hp0 ltac:(lia)) as [t Ht]. now rewrite Ht.
      + rewrite entry_term_inside by lia.
        destruct (term_at_some ts (next - 1) ltac:(lia) ltac:(lia)) as [t Ht]. now rewrite Ht.
  Qed.

  (* the store does not keep the boundary id and the state machine does not keep the snapshot metadata *)
  Theorem restart_without_persistence :
    (forall next, next <= p -> ~ served ts false (route_of (view ts p false) next))
    /\ (exists es, route_of (view ts p false) (p + 1) = RApp p 0 es)
    /\ (forall next, p + 1 < next -> next <= N.of_nat (length ts) + 1 -> served ts false (route_of (view ts p false) next)).
  Proof.
    split; [|split].
    - intros next Le. rewrite route_below by exact Le. cbn [served]. discriminate.
    - destruct (route_above_shape false (p + 1) ltac:(lia)) as [es Hr]. exists es. rewrite Hr.
      replace (p + 1 - 1) with p by lia. now rewrite entry_term_boundary_lost.
    - intros next G L. destruct (route_above_shape false next ltac:(lia)) as [es Hr]. rewrite Hr. cbn [served].
      rewrite entry_term_inside by lia.
      destruct (term_at_some ts (next - 1) ltac:(lia) ltac:(lia)) as [t Ht]. now rewrite Ht.
  Qed.
End Routing.

(* concrete refutation: log terms [1;1;2;2;3;3], purged up to 4, File-like restart *)
Theorem restart_without_persistence_refuted :
  exists ts p next, 0 < p /\ p < N.of_nat (length ts) /\ 1 <= next /\ next <= N.of_nat (length ts) + 1 /\
    route_of (view ts p false) next = RApp 4 0 [5; 6] /\ term_at ts 4 = Some 2 /\
    ~ served ts false (route_of (view ts p false) next) /\ ~ served ts false (route_of (view ts p false) 1).
Proof.
  exists [1; 1; 2; 2; 3; 3], 4, 5. vm_compute.
  repeat split; try discriminate; try reflexivity; intro H; discriminate H.
Qed.

Example routing_witness :
  route_of (view [1; 1; 2; 2; 3; 3] 4 true) 5 = RApp 4 2 [5; 6] /\ route_of (view [1; 1; 2; 2; 3; 3] 4 true) 3 = RSnap
  /\ route_of (view [1; 1; 2; 2; 3; 3] 4 true) 7 = RApp 6 3 [].
Proof. vm_compute. repeat split; reflexivity. Qed.
