"""C33 — log compaction never discards needed entries (purge condition, purge boundary, routing across it, restart)."""
import json
from dvlib import core, flow
from dvlib.core import Broken

ID = 'C33'
PROPS_FILE = 'theories/props/Properties_C33.v'
CONE = ['theories/Purge.v', 'theories/proofs/C33.v']
IMPORTS = 'From DE Require Import Purge.'
ENGINE = {0: 'sim', 1: 'file', 2: 'rocksdb'}

def gen_role(run, thorough):
    r = run.rng('purge_role'); cases = []; dist = {}
    def tag(t): dist[t] = dist.get(t, 0) + 1
    # exhaustive small grid for the decision: (role, previous purge, commit, last_included)
    top = 8 if thorough else 6
    for role in (0, 1):
        for lp in ([0, 1, 2, 3, 4] if thorough else [0, 2, 3]):
            for c in range(0, top + 1):
                for li in range(0, top + 1):
                    evs = ([[0, 8], [2, lp]] if lp else []) + [[0, c], [2, li]]
                    cases.append([role, 8, evs]); tag('grid')
    for k in range(1500 if thorough else 300):
        role = r.below(2); n0 = r.range(3, 10); last = n0; commit = 0; evs = []
        for _ in range(r.range(3, 9)):
            x = r.below(100)
            if x < 35:
                commit = r.range(commit, last) if r.chance(5, 6) else r.range(0, last + 2)
                evs.append([0, commit])
            elif x < 55:
                n = r.range(0, 3); evs.append([1, n]); last += n
            else:
                li = r.range(0, max(0, commit - 1)) if r.chance(3, 4) else r.range(0, last + 1)
                evs.append([2, li])
        tag('leader' if role == 0 else 'follower')
        cases.append([role, n0, evs])
    return cases, dist

def oracle_role(case, out):
    """A node purges log entries only when they are committed and covered by a snapshot it holds."""
    role, n0, evs = case
    first, last = (1 if n0 else 0), n0
    snaps = []
    for ev, o in zip(evs, out):
        f2, l2, b, lp, sc, commit = o
        if ev[0] == 2: snaps.append(ev[1])
        removed_upto = None
        if last and (l2 == 0 and f2 == 0): removed_upto = last            # everything went
        elif last and f2 > first: removed_upto = f2 - 1
        if removed_upto is not None and removed_upto >= first:
            if ev[0] != 2:
                return ('purge-without-snapshot', 'entries up to %d were removed by event %s' % (removed_upto, ev))
            if not (removed_upto < commit):
                return ('purged-uncommitted-entry', 'entries up to %d removed while commit index is %d' % (removed_upto, commit))
            if not snaps or removed_upto > max(snaps):
                return ('purged-beyond-snapshot', 'entries up to %d removed, snapshots held end at %s' % (removed_upto, snaps))
        first, last = f2, l2
    return None

def gen_route(run, thorough):
    r = run.rng('purge_route'); cases = []; dist = {}
    def tag(t): dist[t] = dist.get(t, 0) + 1
    n = 150 if thorough else 30
    # directed: every purge point of one log, every engine, with and without restart
    base = [1, 1, 2, 2, 3, 3]
    for eng in (0, 1, 2):
        for p in range(0, len(base)):
            for rs in (0, 1):
                cases.append([eng, base, p, rs, list(range(1, len(base) + 2))]); tag('%s%s' % (ENGINE[eng], '-restart' if rs else ''))
    for k in range(n):
        for eng in (0, 1, 2):
            L = r.range(2, 8); t = 1; ts = []
            for i in range(L):
                if r.chance(1, 3): t += 1
                ts.append(t)
            p = r.range(0, L - 1); rs = r.below(2)
            cases.append([eng, ts, p, rs, list(range(1, L + 2))]); tag('%s%s' % (ENGINE[eng], '-restart' if rs else ''))
    return cases, dist

def oracle_route(case, out):
    """Replication to lagging peers keeps working across the purge boundary, by log or by snapshot, incl. after a restart."""
    eng, ts, p, rs, nexts = case
    first, last, bterm, meta, routes = out
    when = 'after-restart' if rs else 'after-purge'
    for nx, rt in zip(nexts, routes):
        if rt[0] == 0:
            if not meta:
                return ('peer-unservable-%s-%s' % (when, ENGINE[eng]),
                        'peer with next_index %d is below the purge boundary %d and routed to snapshot transfer, but the state machine reports no snapshot metadata' % (nx, p))
        elif rt[0] == 1:
            prev, pt, ents = rt[1], rt[2], rt[3]
            true_t = ts[prev - 1] if 1 <= prev <= len(ts) else 0
            want = list(range(nx, last + 1)) if nx <= last else []
            ok = (prev == nx - 1 and pt == true_t and ents == want)
            if not ok and not meta:
                return ('peer-unservable-%s-%s' % (when, ENGINE[eng]),
                        'peer with next_index %d gets prev=(%d, term %d) entries %s (true term %d, expected %s): the follower must reject it, and no snapshot metadata is left to fall back on' % (nx, prev, pt, ents, true_t, want))
            if not ok and p == 0:
                return ('bad-append-request', 'peer with next_index %d gets prev=(%d, term %d) entries %s without any purge' % (nx, prev, pt, ents))
        else:
            return ('peer-not-routed', 'peer with next_index %d got neither an AppendEntries request nor a snapshot' % nx)
    return None

def check(run):
    thorough = run.tier == 'thorough'
    run.cov['trusted_base'] += [
        "hand-written model DE.Purge of can_purge_logs / scheduled_purge_upto / handle_snapshot_created / handle_log_purge_completed (leader, follower), purge_logs_up_to, entry_term at the boundary, reopening (load_purge_boundary), prepare_batch_requests routing; tied to the code by the probes purge_role and purge_route",
        "harness: real LeaderState/FollowerState + DefaultPurgeExecutor + BufferedRaftLog (in-memory store) for the decision; real BufferedRaftLog over FileStorageEngine / RocksDBStorageEngine / in-memory store, real FileStateMachine / RocksDBStateMachine metadata, real ReplicationHandler::prepare_batch_requests for the routing",
    ]
    run.assumptions += ["'a snapshot it holds' = a SnapshotCreated(Ok(metadata)) event this node has processed; that the file exists and covers the state is C16",
                        "restart = graceful close (flush) of the log and the state machine, then reopening the same directory; crash points inside the stores are C18/C20/C15",
                        "one role per run (role changes carry last_purged_index over and start with no scheduled purge)"]
    broken = flow.proof_step(run, PROPS_FILE, CONE)
    violations = []
    try:
        core.harness_build()
        total = 0; distinct = 0; samples = []; dist_all = {}
        for probe, gen, orc, glue in (('purge_role', gen_role, oracle_role, 'purge_role_probe'), ('purge_route', gen_route, oracle_route, 'purge_route_probe')):
            cases, dist = gen(run, thorough)
            outs = core.probe_parallel(probe, cases)
            pairs = []
            for c, o in zip(cases, outs):
                if isinstance(o, str):
                    broken.append(('correspondence', probe + ' probe error', o[:300])); continue
                pairs.append((c, o))
                v = orc(c, o)
                if v:
                    violations.append({'class': v[0], 'probe': probe, 'input': c, 'output': o, 'why': v[1]}); dist['viol:' + v[0]] = dist.get('viol:' + v[0], 0) + 1
            mism = core.coq_index_list(IMPORTS, '', glue, pairs, tag='C33')
            if mism:
                i = mism[0]
                broken.append(('correspondence', 'DE.Purge.%s vs the real code (probe %s)' % (glue, probe),
                               '%d disagreements; first on %s -> impl %s' % (len(mism), json.dumps(pairs[i][0]), json.dumps(pairs[i][1]))))
            run.cov['disagreements'] = run.cov.get('disagreements', 0) + len(mism)
            if probe == 'purge_role':
                dist['effective-purges'] = sum(1 for c, o in pairs for a, b in zip([[1]] + o, o) if b[0] != a[0])
            total += len(pairs); distinct += len({json.dumps(c) for c, _ in pairs})
            samples += [{'case': pairs[j][0], 'impl': pairs[j][1]} for j in (0, len(pairs) - 1)]
            for k, v in dist.items(): dist_all[probe + ':' + k] = v
        violations.sort(key=lambda v: len(json.dumps(v['input'])))
        run.add_cases(total, distinct, samples, dist_all,
                      'purge_role: full grid (role x previous purge x commit 0..N x last_included 0..N) + seeded event sequences (commit moves incl. beyond the log and backwards, appends, snapshot results incl. stale and beyond commit); purge_route: every purge point x engine {memory,file,rocksdb} x restart {no,yes} x every next_index 1..last+1')
    except Broken as b:
        broken.append(('harness', b.what, b.detail))
    return flow.conclude(run, broken, violations)

def replay(path):
    r = json.load(open(path))
    if r.get('kind') != 'counterexample':
        print('broken obligation:', [b['name'] for b in r.get('broken', [])]); return 1
    core.harness_build()
    probe = r.get('probe') or ('purge_route' if len(r['input']) == 5 else 'purge_role')
    out = core.probe(probe, [r['input']])[0]
    print('implementation output:', json.dumps(out))
    v = (oracle_route if probe == 'purge_route' else oracle_role)(r['input'], out)
    print('VIOLATES: %s — %s' % v if v else 'ok'); return 1 if v else 0

META = {
    'title': 'Log compaction never discards needed entries',
    'level': 'proof',
    'technique': 'Rocq theorems on the purge decision/execution model (all event sequences, leader and follower) and on the routing across the purge boundary (all logs, purge points, next indexes), witness-refutation for an engine that keeps neither the boundary id nor the snapshot metadata over a restart, + differential check against the real role states, BufferedRaftLog over all three stores, both state machines and ReplicationHandler',
    'text': "Rocq: C33_purge_only_committed_and_snapshotted — for every sequence of commit moves, appends and snapshot results on a leader or a follower, every execute_purge call targets the last_included index of a snapshot the node created and is either below the commit index at that moment or removes nothing; C33_routing_across_boundary — after a purge up to p (0 < p < last) every peer with next_index <= p is routed to snapshot transfer and every peer above gets an AppendEntries request whose prev term is the true term (taken from the stored boundary id at next_index = p+1); the same after a restart when the store keeps the boundary id and the state machine keeps the snapshot metadata (RocksDB). C33_restart_without_persistence_refuted — with an engine that keeps neither (File), after a restart the request for next_index = p+1 carries prev term 0 and the peers routed to snapshot transfer find no snapshot metadata: nobody at or below p+1 is served until a new snapshot is created. Both parts are replayed against the real code; the property is evaluated on the implementation's outputs.",
    'note': "Trusted: Coq kernel, hand model Purge (validated by the probes on every run), the in-memory log store of the harness for the decision probe. The unchanged tree violates the restart clause on the File engine (FileStateMachine::persist_last_snapshot_metadata is memory-only, FileLogStore has no load_purge_boundary) — known finding, DESIGN S29/S20 confirmed. Role changes, snapshot file contents (C16) and crash points inside the stores (C18/C20) are outside this check.",
    'design_ref': 'DESIGN.md §4 C33',
}
