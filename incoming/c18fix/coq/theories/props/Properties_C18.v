(* C18 — pinned statements.
   Model DE.LogCrash: [run]/[exec]/[handle] is the code as it is (IOTask::ReplaceRange lowers pending_max and
   durable_index to truncate_from-1, 50a24e0; IOTask::Reset zeroes durable_index on the IO thread, 14795f4);
   [run_old]/[handle_old] is the code BEFORE these fixes; the theorems named C18_history_unrepaired_* are kept
   as a record of what failed and why the fixes were needed.
   [pstep s l] = one call l of the Raft thread, then the IO thread runs until it is idle (the crash points of the
   probe); [lshaped_run] = every call is Raft-shaped in the state in which it is issued (C19.shaped, the
   hypotheses of the refinement BufLog -> PLog); close() is the last call.  Nothing else lives here. *)
From Coq Require Import NArith List Bool.
From DE Require Import Val BufLog PLog LogCrash.
From DE.proofs Require Import C19 C18.
Import ListNotations.
Open Scope N_scope.

(* ------------------------------------------------------------------ the property, code as it is, ALL Raft-shaped runs *)
(* process crash: the recovered log IS the live log — so it holds every entry reported durable, has no gap and
   holds nothing that a conflict truncation replaced *)
Theorem C18_process_crash_recovers_log : forall ls, lshaped_run st0 ls ->
  let s := prun ls st0 in
  recover (surviving ProcessCrash s) = ents (mem s) /\ gapfreeb (recover (surviving ProcessCrash s)) = true /\
  durable_keptb s (recover (surviving ProcessCrash s)) = true.
Proof. exact process_crash_recovers_log. Qed.
Print Assumptions C18_process_crash_recovers_log.

(* power loss: no gap, every live entry at or below durable_index() is recovered, durable_index() <= last index *)
Theorem C18_power_loss_keeps_durable : forall ls, lshaped_run st0 ls ->
  let s := prun ls st0 in
  gapfreeb (recover (surviving PowerLoss s)) = true /\
  (forall e, In e (ents (mem s)) -> e_idx e <= durable (mem s) -> In e (recover (surviving PowerLoss s))) /\
  durable (mem s) <= p_last_idx (abs (mem s)).
Proof. exact power_loss_keeps_durable. Qed.
Print Assumptions C18_power_loss_keeps_durable.

(* after a flush() that returned Ok: durable_index() >= last index, every live entry is recovered in both crash
   modes, and the log recovered after power loss holds, at the indexes of the live log, only the live entries
   (nothing that a conflict truncation replaced comes back) *)
Theorem C18_flush_makes_log_durable : forall ls, lshaped_run st0 ls ->
  let s := pstep (prun ls st0) LFlush in
  bmax (mem s) <= durable (mem s) /\
  (forall e, In e (ents (mem s)) -> In e (recover (surviving PowerLoss s)) /\ In e (recover (surviving ProcessCrash s))) /\
  (forall e, In e (recover (surviving PowerLoss s)) -> front_idx (ents (mem s)) <= e_idx e -> ents (mem s) <> [] ->
             In e (ents (mem s))).
Proof. exact flush_makes_log_durable. Qed.
Print Assumptions C18_flush_makes_log_durable.

(* graceful close(): the IO thread has exited and both layers of the store hold exactly the live log *)
Theorem C18_close_persists_log : forall ls, lshaped_run st0 ls ->
  let s := pstep (prun ls st0) LClose in
  alive s = false /\ ents (mem s) = ents (mem (prun ls st0)) /\
  forall m, recover (surviving m s) = ents (mem s) /\ gapfreeb (recover (surviving m s)) = true.
Proof. exact close_persists_log. Qed.
Print Assumptions C18_close_persists_log.

(* the invariant behind the four theorems, one step *)
Theorem C18_idle_invariant_step : forall s l, Q s -> lshaped s l -> Q (pstep s l).
Proof. exact Q_step. Qed.
Print Assumptions C18_idle_invariant_step.

(* the hypothesis of the theorems above is satisfiable on a run with a conflict truncation below durable_index *)
Theorem C18_hypotheses_satisfiable : lshaped_run st0 demo_run.
Proof. exact demo_run_shaped. Qed.
Print Assumptions C18_hypotheses_satisfiable.

(* the caller side of filter_out_conflicts_and_append in LogCrash has the memory effect of BufLog.b_filter_append *)
Theorem C18_filter_act_memory_effect : forall b prev pterm es,
  fact_mem b (filter_act b prev pterm es) es = fst (b_filter_append b prev pterm es).
Proof. exact filter_act_mem. Qed.
Print Assumptions C18_filter_act_memory_effect.

(* ------------------------------------------------------------------ mechanism, for ALL states *)
Theorem C18_truncation_lowers_durable : forall s prev pterm es d tl,
  filter_act (mem s) prev pterm es = FReplace d tl -> alive s = true -> queue s = [] ->
  let s' := io_cmd (do_filter s prev pterm es) in
  durable (mem s') = N.min (durable (mem s)) (d - 1) /\ queue s' = [] /\
  pmax s' = N.max (N.min (pmax s) (d - 1)) (match last_entry tl with Some e => e_idx e | None => 0 end) /\
  wr s' = s_replace (wr s) d tl /\
  bmax (mem s') = bmax (b_insert (b_remove_range (mem s) d U64MAX) tl).
Proof. exact truncation_lowers_durable. Qed.
Print Assumptions C18_truncation_lowers_durable.

Theorem C18_flush_short_circuit_partial : forall s, bmax (mem s) <= durable (mem s) -> do_flush s = s.
Proof. exact flush_short_circuit_partial. Qed.
Print Assumptions C18_flush_short_circuit_partial.

Theorem C18_io_never_writes_at_or_below_durable_partial : forall s e,
  queue s = [] ->
  (In e (wr (io_notify s)) \/ In e (wr (io_timer s)) \/ In e (wr (io_cmd (send s TFlush)))) ->
  In e (wr s) \/ (In e (ents (mem s)) /\ durable (mem s) < e_idx e).
Proof. exact io_never_writes_at_or_below_durable_partial. Qed.
Print Assumptions C18_io_never_writes_at_or_below_durable_partial.

(* ------------------------------------------------------------------ HISTORY (code before 50a24e0 / 14795f4) *)
(* the statement was FALSE: a live entry at or below durable_index() was in the recovered log in neither crash mode *)
Theorem C18_history_unrepaired_durable_lost :
  exists ls e, forall m,
    let s := run_old ls st0 in
    In e (ents (mem s)) /\ e_idx e <= durable (mem s) /\ ~ In e (recover (surviving m s)).
Proof. exact unrepaired_durable_lost. Qed.
Print Assumptions C18_history_unrepaired_durable_lost.

Theorem C18_history_unrepaired_gap :
  exists ls, forall m, gapfreeb (recover (surviving m (run_old ls st0))) = false.
Proof. exact unrepaired_gap. Qed.
Print Assumptions C18_history_unrepaired_gap.

Theorem C18_history_unrepaired_resurrection_power_loss :
  exists ls1 ls2 e,
    In e (ents (mem (run_old ls1 st0))) /\
    ~ In e (ents (mem (run_old (ls1 ++ ls2) st0))) /\
    last ls2 LIoCmd = LFlush /\ queue (run_old (ls1 ++ ls2) st0) = [] /\
    In e (recover (surviving PowerLoss (run_old (ls1 ++ ls2) st0))).
Proof. exact unrepaired_resurrection_power_loss. Qed.
Print Assumptions C18_history_unrepaired_resurrection_power_loss.

(* the mechanism of the three: the ReplaceRange arm left durable_index unchanged *)
Theorem C18_history_unrepaired_truncation_keeps_durable : forall s prev pterm es d tl,
  filter_act (mem s) prev pterm es = FReplace d tl -> alive s = true -> queue s = [] ->
  let s' := io_cmd_g handle_old (do_filter s prev pterm es) in
  durable (mem s') = durable (mem s) /\ queue s' = [] /\
  bmax (mem s') = bmax (b_insert (b_remove_range (mem s) d U64MAX) tl).
Proof. exact unrepaired_truncation_keeps_durable. Qed.
Print Assumptions C18_history_unrepaired_truncation_keeps_durable.

(* 14795f4: an fsync between reset_internal's store(0) and the Reset arm re-raised durable_index; the entries
   appended after the reset were never written *)
Theorem C18_history_unrepaired_reset_stale_durable :
  let s := run_old reset_race_run st0 in
  queue s = [] /\ durable (mem s) = 2 /\ map e_term (ents (mem s)) = [3; 3] /\ recover (wr s) = [] /\
  map e_term (recover (sy s)) = [1; 2].
Proof. exact unrepaired_reset_stale_durable. Qed.
Print Assumptions C18_history_unrepaired_reset_stale_durable.
